"""Structural IR recipes: Hypothesis strategies + deterministic builder.

Recipe grammar (plain JSON):
  module  = {"graph": bool, "dom": bool, "ops": [op, ...]}       -> builtin.module (graph region body)
            dom: non-entry blocks see the values of every block that strictly dominates them, wherever
            that block is listed (blocks need not be in dominance order); otherwise only the entry block's
            chain: every multi-block region is one path through all its blocks in a permuted order
  op      = {"k": int, "r": [type_idx...], "o": [int...], "a": [[name_idx, attr_idx]...],
             "p": [[prop_idx, attr_idx]...], "g": [region...], "h": [hint|None ...]}
  region  = [block, ...]                                          (1..n blocks)
  block   = {"args": [type_idx...], "ah": [hint|None...], "h": hint|None, "ops": [op...],
             "t": {"o": [int...], "s": [int...], "r": [type_idx...], "a": [...], "k": int}}
                                     terminator: test.termop, or the unregistered "unreg.term" when k % 4 == 3

Operand references are integers resolved against the list of values *visible* at the op
(index modulo the list length; dropped when nothing is visible), so every recipe builds valid IR:
  visible(op in block B of region R) = results of earlier ops of B + args of B
        + (B is not the entry block of R: all args and results of the entry block)
        + visible(parent op of R)
  in graph mode the ops directly in the module body additionally see every result of the body
  (use before definition, as MLIR allows in graph regions); nested builtin.module ops (kind
  "builtin.module") are always graph regions and isolated from above.
Successor references are indices into the non-entry blocks of the region (none if single-block).
"""
from __future__ import annotations

from hypothesis import strategies as st

OP_KINDS = ["test.op", "test.pureop", "unreg.alpha", "unreg.beta", "test.op", "builtin.module"]
# kinds with declared memory effects (used by C13); a check selects its vocabulary with `use_kinds`
EFFECT_KINDS = ["test.pureop", "test.op_with_memread", "test.op_with_memwrite", "test.op", "unreg.alpha",
                "test.pureop", "test.op_with_symbol", "test.op_with_memread", "builtin.module"]
ACTIVE_KINDS = OP_KINDS


class use_kinds:
    def __init__(self, kinds):
        self.kinds = kinds

    def __enter__(self):
        global ACTIVE_KINDS
        self.old, ACTIVE_KINDS = ACTIVE_KINDS, self.kinds

    def __exit__(self, *a):
        global ACTIVE_KINDS
        ACTIVE_KINDS = self.old
ATTR_NAMES = ["a", "b", "value", "sym_name", "x.y"]
PROP_NAMES = ["prop1", "prop2", "prop3"]

_cache: dict = {}


def types():
    if "types" not in _cache:
        from xdsl.dialects.builtin import (Float32Type, Float64Type, IndexType, IntegerType,
                                           TensorType, VectorType, i1, i32, i64)
        _cache["types"] = [i32, i1, i64, IndexType(), Float32Type(), Float64Type(),
                           VectorType(Float32Type(), [4]), TensorType(i32, [2, 3]), IntegerType(8)]
    return _cache["types"]


def attrs():
    if "attrs" not in _cache:
        from xdsl.dialects.builtin import (ArrayAttr, DenseArrayBase, DictionaryAttr, FloatAttr,
                                           IntegerAttr, StringAttr, SymbolRefAttr, UnitAttr, i32, i64, f32)
        _cache["attrs"] = [
            IntegerAttr(0, i32), IntegerAttr(1, i32), IntegerAttr(-7, i64), StringAttr("s"),
            StringAttr("hello world"), UnitAttr(), FloatAttr(1.5, f32),
            ArrayAttr([IntegerAttr(1, i32), StringAttr("x")]), ArrayAttr([]),
            DenseArrayBase.from_list(i32, [1, 2, 3]), SymbolRefAttr("foo"),
            DictionaryAttr({"k": IntegerAttr(3, i64)}), i32,
        ]
    return _cache["attrs"]


def unreg_cls(name: str):
    key = ("unreg", name)
    if key not in _cache:
        from xdsl.dialects.builtin import UnregisteredOp
        _cache[key] = UnregisteredOp.with_name(name)
    return _cache[key]


# ------------------------------------------------------------------------------------------------
# builder
class Built:
    def __init__(self):
        self.module = None
        self.ops = []      # every op incl. terminators, creation order
        self.blocks = []
        self.regions = []


def _mk_op(rec, successors=(), term=False):
    from xdsl.dialects.test import TestOp, TestPureOp, TestTermOp
    ts, ats = types(), attrs()
    rtypes = [ts[i % len(ts)] for i in rec.get("r", [])]
    attributes = {ATTR_NAMES[n % len(ATTR_NAMES)]: ats[v % len(ats)] for n, v in rec.get("a", [])}
    props = {PROP_NAMES[n % len(PROP_NAMES)]: ats[v % len(ats)] for n, v in rec.get("p", [])}
    if "sym_name" in attributes:
        from xdsl.dialects.builtin import StringAttr
        if isinstance(attributes["sym_name"], StringAttr):
            # symbol tables (builtin.module) reject two ops with the same string sym_name
            _cache["symctr"] = _cache.get("symctr", 0) + 1
            attributes["sym_name"] = StringAttr(f"{attributes['sym_name'].data}{_cache['symctr']}")
    if term:
        if rec.get("k", 0) % 4 == 3:  # an unregistered terminator (has every trait "if unregistered")
            return unreg_cls("unreg.term").create(result_types=rtypes, attributes=attributes,
                                                  properties=props, successors=list(successors))
        return TestTermOp.create(result_types=rtypes, attributes=attributes, properties=props,
                                 successors=list(successors))
    kind = ACTIVE_KINDS[rec.get("k", 0) % len(ACTIVE_KINDS)]
    if kind == "test.op":
        return TestOp.create(result_types=rtypes, attributes=attributes, properties=props)
    if kind == "test.pureop":
        return TestPureOp.create(result_types=rtypes, attributes=attributes, properties=props)
    if kind in ("test.op_with_memread", "test.op_with_memwrite", "test.op_with_symbol"):
        from xdsl.dialects.builtin import StringAttr
        from xdsl.dialects.test import TestReadOp, TestSymbolOp, TestWriteOp
        cls = {"test.op_with_memread": TestReadOp, "test.op_with_memwrite": TestWriteOp,
               "test.op_with_symbol": TestSymbolOp}[kind]
        if cls is TestSymbolOp:
            _cache["symctr"] = _cache.get("symctr", 0) + 1
            props = {"sym_name": StringAttr(f"sym{_cache['symctr']}")}
            attributes = {k: v for k, v in attributes.items() if k != "sym_name"}
        else:
            props = {}
        return cls.create(result_types=rtypes, attributes=attributes, properties=props)
    return unreg_cls(kind).create(result_types=rtypes, attributes=attributes, properties=props)


def _set_hint(v, hint):
    if hint is not None:
        v.name_hint = hint


def _build_region(rec_region, out: Built, plan):
    from xdsl.ir import Block, Region
    ts = types()
    blocks = []
    for brec in rec_region:
        b = Block(arg_types=[ts[i % len(ts)] for i in brec.get("args", [])])
        for a, hnt in zip(b.args, brec.get("ah", [])):
            _set_hint(a, hnt)
        _set_hint(b, brec.get("h"))
        blocks.append(b)
    region = Region(blocks)
    out.regions.append(region)
    out.blocks.extend(blocks)
    for b, brec in zip(blocks, rec_region):
        for orec in brec.get("ops", []):
            b.add_op(_build_op(orec, out, plan))
        t = brec.get("t") or {}
        # MLIR forbids branching to the entry block of a region (xDSL does not verify it, and a
        # label-less entry block cannot be named in text), so successors are non-entry blocks only
        succ = [blocks[1 + s % (len(blocks) - 1)] for s in t.get("s", [])] if len(blocks) > 1 else []
        if _cache.get("chain") and len(blocks) > 1:
            # chain mode: the blocks form one path entry -> p(1) -> p(2) ... in an order unrelated to
            # the listing order (so later-listed blocks may dominate earlier-listed ones)
            rest = sorted(range(1, len(blocks)),
                          key=lambda i: ((rec_region[i].get("t") or {}).get("s", [0]) or [0])[0] * 7 % 5 + i * 0.01)
            path = [0] + rest
            pos = path.index(blocks.index(b))
            succ = [blocks[path[pos + 1]]] if pos + 1 < len(path) else []
        top = _mk_op(t, succ, term=True)
        for r, hnt in zip(top.results, t.get("h", [])):
            _set_hint(r, hnt)
        out.ops.append(top)
        plan.append((top, t.get("o", [])))
        b.add_op(top)
    return region


def _build_module_op(rec, out: Built, plan):
    """Nested builtin.module: isolated from above, single block, no terminator, graph region."""
    from xdsl.dialects.builtin import ModuleOp
    ats = attrs()
    attributes = {ATTR_NAMES[n % len(ATTR_NAMES)]: ats[v % len(ats)] for n, v in rec.get("a", [])
                  if ATTR_NAMES[n % len(ATTR_NAMES)] != "sym_name"}
    op = ModuleOp([], attributes)
    out.ops.append(op)
    out.regions.append(op.body)
    out.blocks.append(op.body.block)
    for rrec in rec.get("g", [])[:1]:
        for brec in rrec:
            for orec in brec.get("ops", []):
                op.body.block.add_op(_build_op(orec, out, plan))
    return op


def _build_op(rec, out: Built, plan):
    if ACTIVE_KINDS[rec.get("k", 0) % len(ACTIVE_KINDS)] == "builtin.module":
        return _build_module_op(rec, out, plan)
    op = _mk_op(rec)
    for r, hnt in zip(op.results, rec.get("h", [])):
        _set_hint(r, hnt)
    out.ops.append(op)
    plan.append((op, rec.get("o", [])))
    for rrec in rec.get("g", []):
        op.add_region(_build_region(rrec, out, plan))
    return op


def _strict_dominators(region, b):
    """Blocks of `region` that strictly dominate reachable block b (plain iterative data-flow on the
    CFG as built so far; [] if b is unreachable)."""
    blocks = list(region.blocks)
    entry = blocks[0]
    succ = {id(x): [s for s in (x.last_op.successors if x.last_op is not None else ())] for x in blocks}
    reach, todo = {id(entry)}, [entry]
    while todo:
        x = todo.pop()
        for s_ in succ[id(x)]:
            if id(s_) not in reach and s_.parent is region:
                reach.add(id(s_))
                todo.append(s_)
    if id(b) not in reach:
        return []
    rb = [x for x in blocks if id(x) in reach]
    preds = {id(x): [p for p in rb if any(s_ is x for s_ in succ[id(p)])] for x in rb}
    dom = {id(x): ({id(entry)} if x is entry else {id(y) for y in rb}) for x in rb}
    changed = True
    while changed:
        changed = False
        for x in rb:
            if x is entry:
                continue
            ps = [dom[id(p)] for p in preds[id(x)]]
            new = ({id(x)} | set.intersection(*ps)) if ps else {id(x)}
            if new != dom[id(x)]:
                dom[id(x)] = new
                changed = True
    return [x for x in blocks if id(x) in dom[id(b)] and x is not b]


def visible(op, graph_body=None, dom_mode=False):
    """Values an operand of `op` may reference (see module docstring)."""
    vis = []
    cur = op
    while cur is not None:
        b = cur.parent
        if b is None:
            break
        par = b.parent.parent if b.parent is not None else None
        nested_module = par is not None and par.name == "builtin.module" and par.parent is not None
        if (graph_body is not None and b is graph_body) or nested_module:
            for o in b.ops:
                if o is not cur:
                    vis.extend(o.results)
            if nested_module:
                break  # isolated from above
        else:
            vis.extend(b.args)
            for o in b.ops:
                if o is cur:
                    break
                vis.extend(o.results)
            r = b.parent
            if r is not None and r.first_block is not b and r.first_block is not None:
                if dom_mode:
                    # every block that strictly dominates b (wherever it is listed in the region)
                    for d in _strict_dominators(r, b):
                        vis.extend(d.args)
                        for o in d.ops:
                            vis.extend(o.results)
                else:
                    e = r.first_block
                    vis.extend(e.args)
                    for o in e.ops:
                        vis.extend(o.results)
        r = b.parent
        cur = r.parent if r is not None else None
    return vis


def build(rec) -> Built:
    """Recipe -> Built (module verified by the caller)."""
    from xdsl.dialects.builtin import ModuleOp
    out = Built()
    plan: list = []
    _cache["symctr"] = 0
    _cache["chain"] = bool(rec.get("chain"))
    tops = [_build_op(o, out, plan) for o in rec.get("ops", [])]
    out.module = ModuleOp(tops)
    body = out.module.body.block if rec.get("graph") else None
    dom_mode = bool(rec.get("dom"))
    for op, refs in plan:
        vis = visible(op, body, dom_mode)
        if vis and refs:
            op.operands = [vis[k % len(vis)] for k in refs]
    return out


# ------------------------------------------------------------------------------------------------
# strategies
small = st.integers(0, 12)
HINTS_SIMPLE = st.one_of(st.none(), st.sampled_from(["a", "b", "x", "arg", "foo_bar", "v1"]))


def op_recipes(depth: int, hints=HINTS_SIMPLE, max_ops: int = 4, max_blocks: int = 3):
    regions = st.just([]) if depth <= 0 else st.lists(
        region_recipes(depth - 1, hints, max_ops, max_blocks), max_size=2)
    return st.fixed_dictionaries({
        "k": st.integers(0, 11),
        "r": st.lists(small, max_size=3),
        "o": st.lists(st.integers(0, 40), max_size=3),
        "a": st.lists(st.tuples(small, small).map(list), max_size=2),
        "p": st.lists(st.tuples(small, small).map(list), max_size=2),
        "g": regions,
        "h": st.lists(hints, max_size=3),
    })


def block_recipes(depth: int, hints=HINTS_SIMPLE, max_ops: int = 4, max_blocks: int = 3):
    return st.fixed_dictionaries({
        "args": st.lists(small, max_size=2),
        "ah": st.lists(hints, max_size=2),
        "h": hints,
        "ops": st.lists(op_recipes(depth, hints, max_ops, max_blocks), max_size=max_ops),
        "t": st.fixed_dictionaries({
            "o": st.lists(st.integers(0, 40), max_size=2),
            "s": st.lists(st.integers(0, 5), max_size=2),
            "r": st.just([]),
            "a": st.lists(st.tuples(small, small).map(list), max_size=1),
            "k": st.integers(0, 3),
        }),
    })


def region_recipes(depth: int, hints=HINTS_SIMPLE, max_ops: int = 4, max_blocks: int = 3):
    return st.lists(block_recipes(depth, hints, max_ops, max_blocks), min_size=1, max_size=max_blocks)


def module_recipes(depth: int = 2, hints=HINTS_SIMPLE, max_ops: int = 4, max_blocks: int = 3,
                   graph=st.booleans()):
    return st.fixed_dictionaries({
        "graph": graph,
        "dom": st.booleans(),
        "chain": st.booleans(),
        "ops": st.lists(op_recipes(depth, hints, max_ops, max_blocks), min_size=1, max_size=max_ops + 1),
    })


def features(rec) -> dict:
    """Cheap structural statistics of a recipe (for non-trivial rules)."""
    f = {"ops": 0, "regions": 0, "multi_block": 0, "max_depth": 0, "succ": 0}

    def op(o, d):
        f["ops"] += 1
        f["max_depth"] = max(f["max_depth"], d)
        for r in o.get("g", []):
            f["regions"] += 1
            if len(r) > 1:
                f["multi_block"] += 1
            for b in r:
                f["ops"] += 1
                f["succ"] += len((b.get("t") or {}).get("s", []))
                for oo in b.get("ops", []):
                    op(oo, d + 1)
    for o in rec.get("ops", []):
        op(o, 0)
    return f
