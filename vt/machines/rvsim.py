"""rvsim -- an independent RV32IM + F/D-subset model (XLEN = 32, FLEN = 64).

Written from the RISC-V unprivileged ISA manual (RV32I, M, F, D chapters) and the RISC-V assembler manual
(pseudo-instructions); shares no code with `xdsl.interpreters.riscv*`, the folders (`py_operation`) or
`xdsl.utils.comparisons`.  Three layers:

1. value semantics on bit patterns: `int_rr`, `int_ri`, `fp_*` -- x registers are 32-bit unsigned patterns,
   f registers are 64-bit patterns; a single-precision value lives NaN-boxed in an f register (upper 32
   bits all ones), an operand of a `.s` instruction that is not a valid NaN-box reads as the canonical NaN;
   NaN results are the canonical NaN; the dynamic rounding mode is round-to-nearest-even (frm = 0, the
   reset / ABI default) -- the only dynamic mode supported.
2. `SSAMachine`: executes a (still SSA, possibly unallocated) riscv-dialect `riscv_func.func` at value
   level through the generic IR accessors: every SSA value holds one register pattern,
   `builtin.unrealized_conversion_cast` is a bit reinterpretation, `riscv_scf.for/while` run
   structurally, `riscv.parallel_mov` copies simultaneously, loads/stores go to a byte memory.
   With `regmode=True` every value whose type names a physical register lives in that register instead
   (a register file shared by all values): the same structured program, executed the way the allocated
   registers behave -- a value whose register is overwritten while it is still needed is lost.
3. `AsmMachine`: parses and executes *emitted assembly text* (labels, directives, comments, ABI register
   names, pseudo-instructions, `imm(reg)` memory operands) on a register file + byte-addressed memory,
   from an arbitrary initial state.

Errors: `UnknownInstruction` (the model must be extended -- callers treat it as a harness error),
`InvalidAssembly` (text no assembler accepts: bad register, immediate out of its encodable range,
undefined label), `MachineFault` (wild memory access, jump outside the text, out of fuel).
"""
from __future__ import annotations

import math
import struct
from fractions import Fraction

M32 = 0xFFFFFFFF
M64 = 0xFFFFFFFFFFFFFFFF
CANON_S = 0x7FC00000
CANON_D = 0x7FF8000000000000
BOX = 0xFFFFFFFF00000000


class SimError(Exception):
    pass


class UnknownInstruction(SimError):
    """An instruction / op the model has no semantics for."""


class InvalidAssembly(SimError):
    """The text is not valid RV32 assembly (cannot be encoded)."""


class MachineFault(SimError):
    """The program left the sandbox: wild access, jump outside the text, no termination."""


# ---------------------------------------------------------------------------------------------
# integer semantics
# ---------------------------------------------------------------------------------------------

def s32(x: int) -> int:
    x &= M32
    return x - (1 << 32) if x & 0x80000000 else x


def _tdiv(a: int, b: int) -> int:
    q = abs(a) // abs(b)
    return q if (a < 0) == (b < 0) else -q


def int_rr(mn: str, a: int, b: int) -> int:
    """R-type integer instruction `mn` on two 32-bit patterns."""
    a &= M32
    b &= M32
    if mn == "add":
        return (a + b) & M32
    if mn == "sub":
        return (a - b) & M32
    if mn == "and":
        return a & b
    if mn == "or":
        return a | b
    if mn == "xor":
        return a ^ b
    if mn == "sll":
        return (a << (b & 31)) & M32
    if mn == "srl":
        return a >> (b & 31)
    if mn == "sra":
        return (s32(a) >> (b & 31)) & M32
    if mn == "slt":
        return 1 if s32(a) < s32(b) else 0
    if mn == "sltu":
        return 1 if a < b else 0
    if mn == "mul":
        return (a * b) & M32
    if mn == "mulh":
        return ((s32(a) * s32(b)) >> 32) & M32
    if mn == "mulhsu":
        return ((s32(a) * b) >> 32) & M32
    if mn == "mulhu":
        return ((a * b) >> 32) & M32
    if mn == "div":
        if b == 0:
            return M32
        if a == 0x80000000 and b == M32:
            return 0x80000000
        return _tdiv(s32(a), s32(b)) & M32
    if mn == "divu":
        return M32 if b == 0 else a // b
    if mn == "rem":
        if b == 0:
            return a
        if a == 0x80000000 and b == M32:
            return 0
        sa, sb = s32(a), s32(b)
        return (sa - sb * _tdiv(sa, sb)) & M32
    if mn == "remu":
        return a if b == 0 else a % b
    raise UnknownInstruction(mn)


INT_RR = ("add", "sub", "and", "or", "xor", "sll", "srl", "sra", "slt", "sltu", "mul", "mulh", "mulhsu",
          "mulhu", "div", "divu", "rem", "remu")
_RI_OF = {"addi": "add", "andi": "and", "ori": "or", "xori": "xor", "slti": "slt", "sltiu": "sltu"}
_SHIFT_OF = {"slli": "sll", "srli": "srl", "srai": "sra"}
INT_RI = tuple(_RI_OF) + tuple(_SHIFT_OF)


def int_ri(mn: str, a: int, imm: int) -> int:
    """I-type integer instruction; the immediate must be encodable (si12 / 5-bit shamt)."""
    if mn in _RI_OF:
        if not -2048 <= imm <= 2047:
            raise InvalidAssembly(f"{mn}: immediate {imm} does not fit in 12 signed bits")
        return int_rr(_RI_OF[mn], a, imm & M32)     # sign-extended; sltiu compares unsigned
    if mn in _SHIFT_OF:
        if not 0 <= imm <= 31:
            raise InvalidAssembly(f"{mn}: shift amount {imm} is not in 0..31 (RV32)")
        return int_rr(_SHIFT_OF[mn], a, imm)
    raise UnknownInstruction(mn)


def int_unary(mn: str, a: int) -> int:
    """Integer pseudo-instructions with one source."""
    a &= M32
    if mn == "mv":
        return a
    if mn == "seqz":
        return 1 if a == 0 else 0
    if mn == "snez":
        return 1 if a != 0 else 0
    if mn == "sltz":
        return 1 if s32(a) < 0 else 0
    if mn == "sgtz":
        return 1 if s32(a) > 0 else 0
    if mn == "neg":
        return (-a) & M32
    if mn == "not":
        return a ^ M32
    raise UnknownInstruction(mn)


INT_UNARY = ("mv", "seqz", "snez", "sltz", "sgtz", "neg", "not")


def li_value(imm: int) -> int:
    if not -(1 << 31) <= imm < (1 << 32):
        raise InvalidAssembly(f"li: immediate {imm} is not a 32-bit value")
    return imm & M32


def branch_taken(mn: str, a: int, b: int) -> bool:
    a &= M32
    b &= M32
    if mn == "beq":
        return a == b
    if mn == "bne":
        return a != b
    if mn == "blt":
        return s32(a) < s32(b)
    if mn == "bge":
        return s32(a) >= s32(b)
    if mn == "bltu":
        return a < b
    if mn == "bgeu":
        return a >= b
    if mn == "bgt":
        return s32(a) > s32(b)
    if mn == "ble":
        return s32(a) <= s32(b)
    if mn == "bgtu":
        return a > b
    if mn == "bleu":
        return a <= b
    raise UnknownInstruction(mn)


BRANCHES = ("beq", "bne", "blt", "bge", "bltu", "bgeu", "bgt", "ble", "bgtu", "bleu")
BRANCHES_Z = {"beqz": "beq", "bnez": "bne", "bltz": "blt", "bgez": "bge"}   # rs, zero
BRANCHES_ZR = {"blez": "bge", "bgtz": "blt"}                                # zero, rs


# ---------------------------------------------------------------------------------------------
# floating point on bit patterns
# ---------------------------------------------------------------------------------------------

def bits_to_float(p: int, fmt: str) -> float:
    if fmt == "s":
        return struct.unpack("<f", struct.pack("<I", p & M32))[0]
    return struct.unpack("<d", struct.pack("<Q", p & M64))[0]


def float_to_bits(x: float, fmt: str) -> int:
    """Round a Python float (double) to the format, nearest-even; NaN -> canonical NaN."""
    if x != x:
        return CANON_S if fmt == "s" else CANON_D
    if fmt == "s":
        try:
            return struct.unpack("<I", struct.pack("<f", x))[0]
        except OverflowError:     # finite double that rounds to a single infinity
            return 0xFF800000 if x < 0 else 0x7F800000
    return struct.unpack("<Q", struct.pack("<d", x))[0]


def unbox_s(v: int) -> int:
    """Single-precision operand read from a 64-bit f register."""
    v &= M64
    return v & M32 if (v >> 32) == M32 else CANON_S


def box_s(p: int) -> int:
    return BOX | (p & M32)


def fread(v: int, fmt: str) -> int:
    return unbox_s(v) if fmt == "s" else v & M64


def fwrite(p: int, fmt: str) -> int:
    return box_s(p) if fmt == "s" else p & M64


def _is_nan(p: int, fmt: str) -> bool:
    if fmt == "s":
        return (p & 0x7F800000) == 0x7F800000 and (p & 0x007FFFFF) != 0
    return (p & 0x7FF0000000000000) == 0x7FF0000000000000 and (p & 0x000FFFFFFFFFFFFF) != 0


def _sign_bit(fmt: str) -> int:
    return 0x80000000 if fmt == "s" else 0x8000000000000000


def _fdiv(x: float, y: float) -> float:
    if x != x or y != y:
        return math.nan
    if y == 0.0:
        if x == 0.0:
            return math.nan
        neg = (math.copysign(1.0, x) < 0) != (math.copysign(1.0, y) < 0)
        return -math.inf if neg else math.inf
    if math.isinf(x) and math.isinf(y):
        return math.nan
    try:
        return x / y
    except OverflowError:
        neg = (x < 0) != (y < 0)
        return -math.inf if neg else math.inf


def fp_arith(op: str, fmt: str, a: int, b: int) -> int:
    """fadd/fsub/fmul/fdiv/fmin/fmax on two patterns of format fmt; result pattern of format fmt."""
    if op in ("min", "max"):
        an, bn = _is_nan(a, fmt), _is_nan(b, fmt)
        if an and bn:
            return CANON_S if fmt == "s" else CANON_D
        if an:
            return b
        if bn:
            return a
        x, y = bits_to_float(a, fmt), bits_to_float(b, fmt)
        if x == y:   # +-0: min prefers -0, max prefers +0
            sa = bool(a & _sign_bit(fmt))
            if op == "min":
                return a if sa else b
            return b if sa else a
        if op == "min":
            return a if x < y else b
        return a if x > y else b
    x, y = bits_to_float(a, fmt), bits_to_float(b, fmt)
    if op == "add":
        r = x + y
    elif op == "sub":
        r = x - y
    elif op == "mul":
        r = x * y
    elif op == "div":
        r = _fdiv(x, y)
    else:
        raise UnknownInstruction("f" + op)
    # one more rounding double -> single is innocuous for + - * / (53 >= 2*24+2)
    return float_to_bits(r, fmt)


def fp_sqrt(fmt: str, a: int) -> int:
    x = bits_to_float(a, fmt)
    if x != x or x < 0:
        return CANON_S if fmt == "s" else CANON_D
    if math.isinf(x):
        return a
    return float_to_bits(math.sqrt(x), fmt)


def fp_cmp(op: str, fmt: str, a: int, b: int) -> int:
    if _is_nan(a, fmt) or _is_nan(b, fmt):
        return 0
    x, y = bits_to_float(a, fmt), bits_to_float(b, fmt)
    if op == "eq":
        return 1 if x == y else 0
    if op == "lt":
        return 1 if x < y else 0
    if op == "le":
        return 1 if x <= y else 0
    raise UnknownInstruction("f" + op)


def fp_sgnj(op: str, fmt: str, a: int, b: int) -> int:
    sb = _sign_bit(fmt)
    body = a & (sb - 1)
    if op == "sgnj":
        return body | (b & sb)
    if op == "sgnjn":
        return body | ((b & sb) ^ sb)
    if op == "sgnjx":
        return body | ((a ^ b) & sb)
    raise UnknownInstruction("f" + op)


def _round_int(x: float, rm: str) -> int:
    if rm in ("dyn", "rne"):
        return round(x)          # Python: exact round-half-to-even on floats
    if rm == "rtz":
        return math.trunc(x)
    if rm == "rdn":
        return math.floor(x)
    if rm == "rup":
        return math.ceil(x)
    if rm == "rmm":
        f = Fraction(x)
        q = math.floor(abs(f) + Fraction(1, 2))
        return q if x >= 0 else -q
    raise InvalidAssembly(f"unknown rounding mode {rm}")


def fp_to_int(fmt: str, a: int, signed: bool, rm: str = "dyn") -> int:
    """fcvt.w[u].s/d: saturating, NaN -> most positive value."""
    hi = 0x7FFFFFFF if signed else M32
    lo = -(1 << 31) if signed else 0
    if _is_nan(a, fmt):
        return hi & M32
    x = bits_to_float(a, fmt)
    if math.isinf(x):
        return (hi if x > 0 else lo) & M32
    r = _round_int(x, rm)
    return max(lo, min(hi, r)) & M32


def int_to_fp(fmt: str, a: int, signed: bool, rm: str = "dyn") -> int:
    """fcvt.s/d.w[u]"""
    v = s32(a) if signed else a & M32
    if fmt == "d":
        return float_to_bits(float(v), "d")      # exact
    if rm not in ("dyn", "rne"):
        raise UnknownInstruction(f"fcvt.s.w with rounding mode {rm}")
    return float_to_bits(float(v), "s")          # float(v) exact in double, one RNE rounding to single


def fp_convert(dst: str, src: str, a: int, rm: str = "dyn") -> int:
    """fcvt.d.s (exact) / fcvt.s.d (rounds)."""
    if _is_nan(a, src):
        return CANON_S if dst == "s" else CANON_D
    x = bits_to_float(a, src)
    if dst == "s" and rm not in ("dyn", "rne"):
        raise UnknownInstruction(f"fcvt.s.d with rounding mode {rm}")
    return float_to_bits(x, dst)


# ---------------------------------------------------------------------------------------------
# memory
# ---------------------------------------------------------------------------------------------

class Memory:
    """Byte memory with pseudo-random initial contents and a window of legal addresses."""

    def __init__(self, seed: int = 0, lo: int = 0, hi: int = 1 << 32):
        self.seed, self.lo, self.hi = seed, lo, hi
        self.written: dict[int, int] = {}

    def initial(self, addr: int) -> int:
        h = (addr * 0x9E3779B1 + self.seed * 0x85EBCA6B + 0x632BE5AB) & M32
        h ^= h >> 15
        h = (h * 0x2C1B3C6D) & M32
        h ^= h >> 12
        h = (h * 0x297A2D39) & M32
        h ^= h >> 15
        return h & 0xFF

    def _check(self, addr: int, n: int) -> None:
        if addr < self.lo or addr + n > self.hi:
            raise MachineFault(f"memory access of {n} bytes at {addr:#x} outside [{self.lo:#x}, {self.hi:#x})")

    def load(self, addr: int, n: int) -> int:
        addr &= M32
        self._check(addr, n)
        v = 0
        for i in range(n):
            b = self.written.get(addr + i)
            if b is None:
                b = self.initial(addr + i)
            v |= b << (8 * i)
        return v

    def store(self, addr: int, n: int, v: int) -> None:
        addr &= M32
        self._check(addr, n)
        for i in range(n):
            self.written[addr + i] = (v >> (8 * i)) & 0xFF

    def changed(self, lo: int) -> list[int]:
        """Addresses >= lo whose content differs from the initial content."""
        return sorted(a for a, b in self.written.items() if a >= lo and b != self.initial(a))


def _sext(v: int, bits: int) -> int:
    v &= (1 << bits) - 1
    return (v - (1 << bits)) & M32 if v >> (bits - 1) else v


LOADS = {"lw": (4, True), "lh": (2, True), "lhu": (2, False), "lb": (1, True), "lbu": (1, False)}
STORES = {"sw": 4, "sh": 2, "sb": 1}


def _mem_off(imm: int) -> int:
    if not -2048 <= imm <= 2047:
        raise InvalidAssembly(f"load/store offset {imm} does not fit in 12 signed bits")
    return imm


# ---------------------------------------------------------------------------------------------
# register names
# ---------------------------------------------------------------------------------------------

X_ABI = ["zero", "ra", "sp", "gp", "tp", "t0", "t1", "t2", "s0", "s1", "a0", "a1", "a2", "a3", "a4", "a5",
         "a6", "a7", "s2", "s3", "s4", "s5", "s6", "s7", "s8", "s9", "s10", "s11", "t3", "t4", "t5", "t6"]
F_ABI = ["ft0", "ft1", "ft2", "ft3", "ft4", "ft5", "ft6", "ft7", "fs0", "fs1", "fa0", "fa1", "fa2", "fa3",
         "fa4", "fa5", "fa6", "fa7", "fs2", "fs3", "fs4", "fs5", "fs6", "fs7", "fs8", "fs9", "fs10", "fs11",
         "ft8", "ft9", "ft10", "ft11"]
XREG = {n: i for i, n in enumerate(X_ABI)}
XREG.update({f"x{i}": i for i in range(32)})
XREG["fp"] = 8
FREG = {n: i for i, n in enumerate(F_ABI)}
FREG.update({f"f{i}": i for i in range(32)})
CALLEE_SAVED_X = ["s0", "s1", "s2", "s3", "s4", "s5", "s6", "s7", "s8", "s9", "s10", "s11"]
CALLEE_SAVED_F = ["fs0", "fs1", "fs2", "fs3", "fs4", "fs5", "fs6", "fs7", "fs8", "fs9", "fs10", "fs11"]
ROUNDING_MODES = ("rne", "rtz", "rdn", "rup", "rmm", "dyn")


# ---------------------------------------------------------------------------------------------
# float instruction table shared by both machines: mnemonic -> (kind, ...)
# ---------------------------------------------------------------------------------------------

def _float_table():
    t = {}
    for fmt in ("s", "d"):
        for op in ("add", "sub", "mul", "div", "min", "max"):
            t[f"f{op}.{fmt}"] = ("arith", op, fmt)
        for op in ("eq", "lt", "le"):
            t[f"f{op}.{fmt}"] = ("cmp", op, fmt)
        for op in ("sgnj", "sgnjn", "sgnjx"):
            t[f"f{op}.{fmt}"] = ("sgnj", op, fmt)
        t[f"fsqrt.{fmt}"] = ("sqrt", fmt)
        t[f"fmv.{fmt}"] = ("mv", fmt)
        t[f"fneg.{fmt}"] = ("neg", fmt)
        t[f"fabs.{fmt}"] = ("abs", fmt)
        t[f"fcvt.w.{fmt}"] = ("f2i", fmt, True)
        t[f"fcvt.wu.{fmt}"] = ("f2i", fmt, False)
        t[f"fcvt.{fmt}.w"] = ("i2f", fmt, True)
        t[f"fcvt.{fmt}.wu"] = ("i2f", fmt, False)
    t["fcvt.d.s"] = ("f2f", "d", "s")
    t["fcvt.s.d"] = ("f2f", "s", "d")
    t["fmv.x.w"] = ("x_from_f",)
    t["fmv.w.x"] = ("f_from_x",)
    return t


FLOAT_TABLE = _float_table()


def float_exec(mn: str, ins: list[int], rm: str = "dyn") -> int:
    """Execute float instruction `mn` on source REGISTER patterns (f: 64-bit, x: 32-bit); returns the
    destination register pattern (64-bit for f destinations, 32-bit for x destinations)."""
    e = FLOAT_TABLE.get(mn)
    if e is None:
        raise UnknownInstruction(mn)
    kind = e[0]
    if rm not in ROUNDING_MODES:
        raise InvalidAssembly(f"unknown rounding mode {rm}")
    if kind == "arith":
        _, op, fmt = e
        if rm not in ("dyn", "rne") and op not in ("min", "max"):
            raise UnknownInstruction(f"{mn} with rounding mode {rm}")
        return fwrite(fp_arith(op, fmt, fread(ins[0], fmt), fread(ins[1], fmt)), fmt)
    if kind == "cmp":
        _, op, fmt = e
        return fp_cmp(op, fmt, fread(ins[0], fmt), fread(ins[1], fmt))
    if kind == "sgnj":
        _, op, fmt = e
        return fwrite(fp_sgnj(op, fmt, fread(ins[0], fmt), fread(ins[1], fmt)), fmt)
    if kind == "sqrt":
        return fwrite(fp_sqrt(e[1], fread(ins[0], e[1])), e[1])
    if kind == "mv":      # fsgnj rd, rs, rs
        a = fread(ins[0], e[1])
        return fwrite(fp_sgnj("sgnj", e[1], a, a), e[1])
    if kind == "neg":
        a = fread(ins[0], e[1])
        return fwrite(fp_sgnj("sgnjn", e[1], a, a), e[1])
    if kind == "abs":
        a = fread(ins[0], e[1])
        return fwrite(fp_sgnj("sgnjx", e[1], a, a), e[1])
    if kind == "f2i":
        return fp_to_int(e[1], fread(ins[0], e[1]), e[2], rm)
    if kind == "i2f":
        return fwrite(int_to_fp(e[1], ins[0], e[2], rm), e[1])
    if kind == "f2f":
        return fwrite(fp_convert(e[1], e[2], fread(ins[0], e[2]), rm), e[1])
    if kind == "x_from_f":
        return ins[0] & M32
    if kind == "f_from_x":
        return box_s(ins[0])
    raise UnknownInstruction(mn)


def float_dest_is_x(mn: str) -> bool:
    e = FLOAT_TABLE[mn]
    return e[0] in ("cmp", "f2i", "x_from_f")


def float_src_is_x(mn: str) -> bool:
    e = FLOAT_TABLE[mn]
    return e[0] in ("i2f", "f_from_x")


def float_arity(mn: str) -> int:
    return 2 if FLOAT_TABLE[mn][0] in ("arith", "cmp", "sgnj") else 1


# ---------------------------------------------------------------------------------------------
# 2. SSA-level machine over riscv-dialect IR
# ---------------------------------------------------------------------------------------------

def _reg_kind(t) -> str | None:
    n = getattr(t, "name", "")
    if n == "riscv.reg":
        return "x"
    if n == "riscv.freg":
        return "f"
    return None


def _reg_name(t) -> str:
    rn = getattr(t, "register_name", None)
    return rn.data if rn is not None else ""


def _imm(op) -> int:
    a = op.properties.get("immediate")
    if a is None:
        a = op.attributes.get("immediate")
    if a is None or not hasattr(a, "value"):
        raise UnknownInstruction(f"{op.name}: immediate {a} is not an integer")
    return a.value.data


def _builtin_type_name(t) -> str:
    n = getattr(t, "name", "")
    if n == "integer_type":
        return f"i{t.width.data}"
    return {"index": "index", "f32": "f32", "f64": "f64"}.get(n, n)


class SSAMachine:
    """Value-level execution of riscv-dialect SSA functions of one module."""

    def __init__(self, module, sp: int = 0x7FFF0000, mem_seed: int = 0, fuel: int = 200000,
                 registers: dict | None = None, regmode: bool = False):
        self.module = module
        self.regmode = regmode
        self.regs: dict[str, int] = {}
        self.sp = sp & M32
        self.mem = Memory(mem_seed, (sp - 65536) & M32, min(sp + 65536, 1 << 32))
        self.fuel = fuel
        self.steps = 0
        self.registers = dict(registers or {})     # values read by get_register of other registers
        self.funcs = {}
        for op in module.walk():
            if op.name == "riscv_func.func":
                self.funcs[op.attributes["sym_name"].data] = op

    # -- helpers ------------------------------------------------------------------------------
    def _set(self, env, res, v):
        kind = _reg_kind(res.type)
        if kind == "x":
            v &= M32
            if _reg_name(res.type) == "zero":
                v = 0
        elif kind == "f":
            v &= M64
        if self.regmode and kind is not None and _reg_name(res.type):
            self.regs[kind + ":" + _reg_name(res.type)] = v
        else:
            env[res] = v

    def _get(self, env, val):
        if self.regmode:
            kind = _reg_kind(val.type)
            if kind is not None and _reg_name(val.type):
                rn = _reg_name(val.type)
                if kind == "x" and rn == "zero":
                    return 0
                if kind == "x" and rn == "sp" and "x:sp" not in self.regs:
                    return self.sp
                key = kind + ":" + rn
                if key not in self.regs:
                    raise MachineFault(f"register {rn} read before any write")
                return self.regs[key]
        if val not in env:
            raise MachineFault("use of an SSA value that has no definition on the executed path (dangling value)")
        return env[val]

    def _tick(self):
        self.steps += 1
        if self.steps > self.fuel:
            raise MachineFault("SSA machine out of fuel")

    def call(self, name: str, args: list[int]) -> list[int]:
        f = self.funcs[name]
        block = f.regions[0].blocks[0]
        if len(f.regions[0].blocks) != 1:
            raise UnknownInstruction("riscv_func.func with several blocks at SSA level")
        if len(args) != len(block.args):
            raise ValueError("argument count")
        env = {}
        for a, v in zip(block.args, args):
            self._set(env, a, v)
        kind, vals = self._block(block, env)      # vals: read from the return operands (registers in regmode)
        if kind != "return":
            raise UnknownInstruction(f"function body ended with {kind}")
        return vals

    def _block(self, block, env):
        for op in block.ops:
            r = self._op(op, env)
            if r is not None:
                return r
        raise UnknownInstruction("block without terminator")

    # -- one op -------------------------------------------------------------------------------
    def _op(self, op, env):
        self._tick()
        name = op.name
        ins = [self._get(env, o) for o in op.operands]
        dialect, _, mn = name.partition(".")
        if dialect in ("riscv", "rv32"):
            if mn in INT_RR:
                self._set(env, op.results[0], int_rr(mn, ins[0], ins[1]))
                return None
            if mn in INT_RI:
                self._set(env, op.results[0], int_ri(mn, ins[0], _imm(op)))
                return None
            if mn in INT_UNARY:
                self._set(env, op.results[0], int_unary(mn, ins[0]))
                return None
            if mn == "li":
                self._set(env, op.results[0], li_value(_imm(op)))
                return None
            if mn == "lui":
                imm = _imm(op)
                if not 0 <= imm < (1 << 20):
                    raise InvalidAssembly(f"lui immediate {imm}")
                self._set(env, op.results[0], (imm << 12) & M32)
                return None
            if mn in FLOAT_TABLE:
                self._set(env, op.results[0], float_exec(mn, ins))
                return None
            if mn in ("get_register", "get_float_register"):
                if self.regmode:
                    return None      # the value IS the register
                rn = _reg_name(op.results[0].type)
                if rn == "zero":
                    v = 0
                elif rn == "sp":
                    v = self.sp
                elif rn in self.registers:
                    v = self.registers[rn]
                else:
                    raise UnknownInstruction(f"{name} of register '{rn}' at SSA level")
                self._set(env, op.results[0], v)
                return None
            if mn in LOADS:
                n, signed = LOADS[mn]
                v = self.mem.load((ins[0] + _mem_off(_imm(op))) & M32, n)
                self._set(env, op.results[0], _sext(v, 8 * n) if signed else v)
                return None
            if mn in STORES:
                self.mem.store((ins[0] + _mem_off(_imm(op))) & M32, STORES[mn], ins[1])
                return None
            if mn == "flw":
                self._set(env, op.results[0], box_s(self.mem.load((ins[0] + _mem_off(_imm(op))) & M32, 4)))
                return None
            if mn == "fld":
                self._set(env, op.results[0], self.mem.load((ins[0] + _mem_off(_imm(op))) & M32, 8))
                return None
            if mn == "fsw":
                self.mem.store((ins[0] + _mem_off(_imm(op))) & M32, 4, ins[1] & M32)
                return None
            if mn == "fsd":
                self.mem.store((ins[0] + _mem_off(_imm(op))) & M32, 8, ins[1] & M64)
                return None
            if mn == "parallel_mov":
                widths = list(op.properties["input_widths"].get_values())
                for res, v, w, src in zip(op.results, ins, widths, op.operands):
                    if _reg_kind(src.type) == "f":
                        if w == 32:
                            v = float_exec("fmv.s", [v])
                        elif w != 64:
                            raise UnknownInstruction(f"parallel_mov float width {w}")
                    self._set(env, res, v)
                return None
            if mn in ("label", "comment", "nop"):
                return None
            raise UnknownInstruction(name)
        if name == "builtin.unrealized_conversion_cast":
            if len(op.operands) != 1 or len(op.results) != 1:
                raise UnknownInstruction("n:m unrealized_conversion_cast")
            self._set(env, op.results[0], self._cast(ins[0], op.operands[0].type, op.results[0].type))
            return None
        if name == "riscv_scf.for":
            return self._for(op, env)
        if name == "riscv_scf.while":
            return self._while(op, env)
        if name == "riscv_scf.yield":
            return ("yield", ins)
        if name == "riscv_scf.condition":
            return ("condition", ins)
        if name == "riscv_func.return":
            return ("return", ins)
        if name == "riscv_func.call":
            if self.regmode:
                raise UnknownInstruction("riscv_func.call in register mode")
            callee = op.attributes["callee"].root_reference.data
            outs = self.call(callee, ins)
            for res, v in zip(op.results, outs):
                self._set(env, res, v)
            return None
        raise UnknownInstruction(name)

    def _cast(self, v, src_t, dst_t):
        """Bit reinterpretation between builtin scalars and register patterns."""
        sk, dk = _reg_kind(src_t), _reg_kind(dst_t)
        if sk is not None and dk is not None:
            if sk != dk:
                raise UnknownInstruction("cast between int and float registers")
            return v
        if sk is None and dk is None:
            return v        # builtin -> builtin of the same representation (kept as pattern)
        bt = _builtin_type_name(dst_t if sk is not None else src_t)
        if bt in ("f32",):
            if dk == "f":
                return box_s(v)          # builtin f32 pattern -> register
            if sk == "f":
                return unbox_s(v)
        elif bt == "f64":
            if "f" in (sk, dk):
                return v & M64
        elif bt == "index" or (bt.startswith("i") and bt[1:].isdigit() and int(bt[1:]) <= 32):
            w = 32 if bt == "index" else int(bt[1:])
            if "x" in (sk, dk):
                return v & ((1 << w) - 1) if sk == "x" else v & M32
        raise UnknownInstruction(f"cast {src_t} -> {dst_t}")

    def _for(self, op, env):
        block = op.regions[0].blocks[0]
        if self.regmode:
            return self._for_reg(op, env, block)
        lb, ub = env[op.lb], env[op.ub]
        if op.step_val is not None:
            step = env[op.step_val]
        else:
            step = op.step_attr.value.data & M32
        vals = [env[v] for v in op.iter_args]
        iv = lb
        while s32(iv) < s32(ub):
            self._tick()
            inner = dict(env)
            self._set(inner, block.args[0], iv)
            for a, v in zip(block.args[1:], vals):
                self._set(inner, a, v)
            kind, out = self._block(block, inner)
            if kind != "yield":
                raise UnknownInstruction(f"riscv_scf.for body ended with {kind}")
            vals = out
            iv = (iv + step) & M32
        for res, v in zip(op.results, vals):
            self._set(env, res, v)
        return None

    def _for_reg(self, op, env, block):
        """The loop on the register file: `mv iv, lb`; the loop-carried values stay in their registers
        (the op's verifier demands init / block argument / yield operand / result in one register; a
        copy is performed where they differ); ub and step are re-read from their registers."""
        ivv = block.args[0]
        vals = [self._get(env, v) for v in op.iter_args]
        self._set(env, ivv, self._get(env, op.lb))
        for a, v in zip(block.args[1:], vals):
            self._set(env, a, v)
        while s32(self._get(env, ivv)) < s32(self._get(env, op.ub)):
            self._tick()
            kind, out = self._block(block, env)
            if kind != "yield":
                raise UnknownInstruction(f"riscv_scf.for body ended with {kind}")
            for a, v in zip(block.args[1:], out):
                self._set(env, a, v)
            step = self._get(env, op.step_val) if op.step_val is not None else op.step_attr.value.data & M32
            self._set(env, ivv, (self._get(env, ivv) + step) & M32)
        vals = [self._get(env, a) for a in block.args[1:]]
        for res, v in zip(op.results, vals):
            self._set(env, res, v)
        return None

    def _while(self, op, env):
        if self.regmode:
            raise UnknownInstruction("riscv_scf.while in register mode")
        vals = [env[v] for v in op.operands]
        before, after = op.regions[0].blocks[0], op.regions[1].blocks[0]
        while True:
            self._tick()
            inner = dict(env)
            for a, v in zip(before.args, vals):
                self._set(inner, a, v)
            kind, out = self._block(before, inner)
            if kind != "condition":
                raise UnknownInstruction(f"riscv_scf.while before-region ended with {kind}")
            cond, rest = out[0], out[1:]
            if cond == 0:
                for res, v in zip(op.results, rest):
                    self._set(env, res, v)
                return None
            inner = dict(env)
            for a, v in zip(after.args, rest):
                self._set(inner, a, v)
            kind, vals = self._block(after, inner)
            if kind != "yield":
                raise UnknownInstruction(f"riscv_scf.while after-region ended with {kind}")


# ---------------------------------------------------------------------------------------------
# 3. assembly text machine
# ---------------------------------------------------------------------------------------------

TEXT_BASE = 0x00010000
RET_MAGIC = 0x0F0F0F0C      # return address of the outermost call (4-aligned, outside the text)


def _parse_int(tok: str) -> int | None:
    t = tok.strip()
    try:
        return int(t, 0)
    except ValueError:
        return None


class AsmMachine:
    """Executes assembly text.  `run` starts at a label with the given register state."""

    def __init__(self, text: str):
        self.insts: list[tuple[str, list[str], int, str]] = []
        self.labels: dict[str, int] = {}
        for ln, raw in enumerate(text.splitlines(), 1):
            line = raw.split("#", 1)[0].strip()
            while line:
                head, sep, rest = line.partition(":")
                if sep and head.strip() and all(c.isalnum() or c in "_.$" for c in head.strip()) \
                        and " " not in head.strip():
                    lab = head.strip()
                    if lab in self.labels:
                        raise InvalidAssembly(f"line {ln}: label {lab} defined twice")
                    self.labels[lab] = len(self.insts)
                    line = rest.strip()
                    continue
                break
            if not line:
                continue
            if line.startswith("."):
                d = line.split()[0]
                if d in (".text", ".globl", ".global", ".local", ".p2align", ".align", ".type", ".size",
                         ".section", ".option", ".file", ".attribute", ".balign"):
                    continue
                raise UnknownInstruction(f"line {ln}: directive {line}")
            parts = line.split(None, 1)
            mn = parts[0]
            args = [a.strip() for a in parts[1].split(",")] if len(parts) > 1 else []
            self.insts.append((mn, args, ln, raw.strip()))
        self.x = [0] * 32
        self.f = [0] * 32
        self.mem = Memory()
        self.steps = 0
        self.trace: list[str] = []

    # -- operand decoding -----------------------------------------------------------------------
    def _xr(self, tok: str) -> int:
        if tok not in XREG:
            raise InvalidAssembly(f"'{tok}' is not an integer register")
        return XREG[tok]

    def _fr(self, tok: str) -> int:
        if tok not in FREG:
            raise InvalidAssembly(f"'{tok}' is not a float register")
        return FREG[tok]

    def _immv(self, tok: str) -> int:
        v = _parse_int(tok)
        if v is None:
            raise InvalidAssembly(f"'{tok}' is not an integer immediate")
        return v

    def _memop(self, tok: str) -> tuple[int, int]:
        if not tok.endswith(")") or "(" not in tok:
            raise InvalidAssembly(f"'{tok}' is not an imm(reg) operand")
        imm, reg = tok[:-1].split("(", 1)
        return _mem_off(self._immv(imm) if imm.strip() else 0), self._xr(reg.strip())

    def _label(self, tok: str) -> int:
        if tok not in self.labels:
            raise InvalidAssembly(f"undefined label '{tok}'")
        return self.labels[tok]

    def _wx(self, r: int, v: int) -> None:
        if r != 0:
            self.x[r] = v & M32

    def _need(self, mn, args, n):
        if len(args) != n:
            raise InvalidAssembly(f"{mn}: expected {n} operands, got {args}")

    # -- execution ------------------------------------------------------------------------------
    def run(self, entry: str, x: dict[str, int], f: dict[str, int], mem: Memory, fuel: int = 100000):
        """x / f: initial values by ABI name for ALL registers the caller cares about (others 0).
        Returns when the function returns to RET_MAGIC."""
        self.x = [0] * 32
        self.f = [0] * 32
        for k, v in x.items():
            self._wx(self._xr(k), v)
        for k, v in f.items():
            self.f[self._fr(k)] = v & M64
        self.x[XREG["ra"]] = RET_MAGIC
        self.mem = mem
        self.steps = 0
        pc = self._label(entry)
        n = len(self.insts)
        while True:
            if not 0 <= pc < n:
                raise MachineFault(f"execution fell outside the text (instruction index {pc})")
            self.steps += 1
            if self.steps > fuel:
                raise MachineFault(f"no return after {fuel} instructions")
            mn, args, ln, raw = self.insts[pc]
            try:
                nxt = self._step(mn, args, pc)
            except SimError as e:
                raise type(e)(f"line {ln} `{raw}`: {e}") from None
            if nxt == -1:
                return
            pc = nxt

    def _jump_addr(self, addr: int) -> int:
        if addr == RET_MAGIC:
            return -1
        off = addr - TEXT_BASE
        if off < 0 or off % 4 or off // 4 >= len(self.insts):
            raise MachineFault(f"jump to address {addr:#x} outside the text")
        return off // 4

    def _step(self, mn: str, args: list[str], pc: int) -> int:
        x = self.x
        if mn in INT_RR:
            self._need(mn, args, 3)
            self._wx(self._xr(args[0]), int_rr(mn, x[self._xr(args[1])], x[self._xr(args[2])]))
            return pc + 1
        if mn in INT_RI:
            self._need(mn, args, 3)
            self._wx(self._xr(args[0]), int_ri(mn, x[self._xr(args[1])], self._immv(args[2])))
            return pc + 1
        if mn in INT_UNARY:
            self._need(mn, args, 2)
            self._wx(self._xr(args[0]), int_unary(mn, x[self._xr(args[1])]))
            return pc + 1
        if mn == "li":
            self._need(mn, args, 2)
            self._wx(self._xr(args[0]), li_value(self._immv(args[1])))
            return pc + 1
        if mn == "lui":
            self._need(mn, args, 2)
            imm = self._immv(args[1])
            if not 0 <= imm < (1 << 20):
                raise InvalidAssembly(f"lui immediate {imm}")
            self._wx(self._xr(args[0]), imm << 12)
            return pc + 1
        if mn == "nop":
            return pc + 1
        if mn in BRANCHES:
            self._need(mn, args, 3)
            t = self._label(args[2])
            return t if branch_taken(mn, x[self._xr(args[0])], x[self._xr(args[1])]) else pc + 1
        if mn in BRANCHES_Z:
            self._need(mn, args, 2)
            t = self._label(args[1])
            return t if branch_taken(BRANCHES_Z[mn], x[self._xr(args[0])], 0) else pc + 1
        if mn in BRANCHES_ZR:
            self._need(mn, args, 2)
            t = self._label(args[1])
            return t if branch_taken(BRANCHES_ZR[mn], 0, x[self._xr(args[0])]) else pc + 1
        if mn == "j":
            self._need(mn, args, 1)
            return self._label(args[0])
        if mn in ("jal", "call"):
            if len(args) == 1:
                rd, tgt = XREG["ra"], args[0]
            elif len(args) == 2 and mn == "jal":
                rd, tgt = self._xr(args[0]), args[1]
            else:
                raise InvalidAssembly(f"{mn} {args}")
            t = self._label(tgt)
            self._wx(rd, TEXT_BASE + 4 * (pc + 1))
            return t
        if mn == "ret":
            self._need(mn, args, 0)
            return self._jump_addr(x[XREG["ra"]])
        if mn == "jr":
            self._need(mn, args, 1)
            return self._jump_addr(x[self._xr(args[0])])
        if mn in LOADS:
            self._need(mn, args, 2)
            n, signed = LOADS[mn]
            off, base = self._memop(args[1])
            v = self.mem.load((x[base] + off) & M32, n)
            self._wx(self._xr(args[0]), _sext(v, 8 * n) if signed else v)
            return pc + 1
        if mn in STORES:
            self._need(mn, args, 2)
            off, base = self._memop(args[1])
            self.mem.store((x[base] + off) & M32, STORES[mn], x[self._xr(args[0])])
            return pc + 1
        if mn in ("flw", "fld"):
            self._need(mn, args, 2)
            off, base = self._memop(args[1])
            if mn == "flw":
                self.f[self._fr(args[0])] = box_s(self.mem.load((x[base] + off) & M32, 4))
            else:
                self.f[self._fr(args[0])] = self.mem.load((x[base] + off) & M32, 8)
            return pc + 1
        if mn in ("fsw", "fsd"):
            self._need(mn, args, 2)
            off, base = self._memop(args[1])
            v = self.f[self._fr(args[0])]
            if mn == "fsw":
                self.mem.store((x[base] + off) & M32, 4, v & M32)
            else:
                self.mem.store((x[base] + off) & M32, 8, v)
            return pc + 1
        if mn in FLOAT_TABLE:
            ar = float_arity(mn)
            rm = "dyn"
            if len(args) == ar + 2 and args[-1] in ROUNDING_MODES:
                rm = args[-1]
                args = args[:-1]
            self._need(mn, args, ar + 1)
            if float_src_is_x(mn):
                ins = [x[self._xr(a)] for a in args[1:]]
            else:
                ins = [self.f[self._fr(a)] for a in args[1:]]
            r = float_exec(mn, ins, rm)
            if float_dest_is_x(mn):
                self._wx(self._xr(args[0]), r)
            else:
                self.f[self._fr(args[0])] = r & M64
            return pc + 1
        raise UnknownInstruction(f"mnemonic '{mn}'")


def selftest() -> None:
    """A few ISA-manual facts, so that a typo in the model is noticed at import time of the check."""
    assert int_rr("div", 7, 0) == M32 and int_rr("divu", 7, 0) == M32
    assert int_rr("rem", 7, 0) == 7 and int_rr("remu", 7, 0) == 7
    assert int_rr("div", 0x80000000, M32) == 0x80000000 and int_rr("rem", 0x80000000, M32) == 0
    assert int_rr("div", (-7) & M32, 2) == (-3) & M32 and int_rr("rem", (-7) & M32, 2) == M32
    assert int_rr("sll", 1, 33) == 2 and int_rr("sra", 0x80000000, 31) == M32 and int_rr("srl", 0x80000000, 31) == 1
    assert int_rr("mulh", M32, M32) == 0 and int_rr("mulhu", M32, M32) == 0xFFFFFFFE
    assert int_rr("mulhsu", M32, M32) == M32
    assert int_ri("sltiu", 5, -1) == 1 and int_ri("slti", 5, -1) == 0 and int_ri("xori", 1, -1) == 0xFFFFFFFE
    assert float_exec("fadd.s", [box_s(0x3F800000), box_s(0x3F800000)]) == box_s(0x40000000)
    assert float_exec("fadd.s", [0x3FF0000000000000, box_s(0x3F800000)]) == box_s(CANON_S)   # not boxed
    assert float_exec("fmin.s", [box_s(0x80000000), box_s(0)]) == box_s(0x80000000)
    assert float_exec("fmax.d", [CANON_D, 0x3FF0000000000000]) == 0x3FF0000000000000
    assert float_exec("fcvt.w.s", [box_s(0x402CCCCD)]) == 3 and float_exec("fcvt.w.s", [box_s(0x402CCCCD)], "rtz") == 2
    assert float_exec("fcvt.w.s", [box_s(0x40200000)]) == 2          # 2.5 -> 2 (ties to even)
    assert float_exec("fcvt.w.d", [CANON_D]) == 0x7FFFFFFF
    assert float_exec("fcvt.w.s", [box_s(0xCF800000)]) == 0x80000000  # -2^32 saturates
    assert float_exec("fcvt.s.w", [16777217]) == box_s(0x4B800000)     # 2^24+1 -> 2^24
    assert float_exec("fcvt.d.w", [M32]) == 0xBFF0000000000000
    assert float_exec("fdiv.s", [box_s(0x3F800000), box_s(0x80000000)]) == box_s(0xFF800000)
    assert float_exec("fsgnjn.d", [0x3FF0000000000000, 0x3FF0000000000000]) == 0xBFF0000000000000
    m = AsmMachine("f:\n  li t0, -1\n  addi sp, sp, -16\n  sw t0, 4(sp)\n  lw a0, 4(sp)\n  addi sp, sp, 16\n"
                   "  beq a0, t0, L\n  li a0, 0\nL:\n  ret\n")
    mem = Memory(1, 0x1000, 0x3000)
    m.run("f", {"sp": 0x2000}, {}, mem)
    assert m.x[XREG["a0"]] == M32 and m.x[XREG["sp"]] == 0x2000 and not mem.changed(0x2000)


selftest()
