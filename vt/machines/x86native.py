"""x86native -- assemble emitted x86-64 assembly with the system assembler and call it natively.

Pieces
------
* `TRAMPOLINE`  : hand written assembly `vt_call(fn, args, nargs, out)`.  It saves the real callee-saved
  registers, pushes args[6..] on the stack the SysV way (16-byte aligned at the call), loads
  args[0..5] into rdi, rsi, rdx, rcx, r8, r9 (always all six: unused argument registers hold whatever
  the vector holds), loads SENTINELS into rbx, rbp, r12..r15, junk into r10/r11/rax, records rsp, calls
  `fn`, then stores rax, the six callee-saved registers and rsp-before/rsp-after into `out[0..8]`.
  The state it needs across the call lives in static memory, so a callee that damages rsp or any register
  (but still returns) is reported instead of crashing the trampoline.
* `Toolbox(scratch)` : owns a scratch directory (created by the caller with tempfile.mkdtemp and removed
  by the caller); `assemble(texts)` concatenates the per-function assembly texts into ONE file, runs `as`
  once, maps assembler errors back to the function whose lines they are in, re-assembles without the
  failing functions, links everything with the trampoline into one shared object.
* `run(so, jobs)` : forks a CHILD process (os.fork: the shard processes of vt.run are daemonic pool
  workers, so multiprocessing.Process is not available) that dlopens the object and calls every
  (function, argument vector) through the trampoline.  The child writes a marker line into a pipe before
  every call and a result line after it; when the child dies from a signal the call named by the last
  marker is blamed, and a fresh child continues with the next function.

Nothing is kept between runs; nothing outside the scratch directory is written.
"""
from __future__ import annotations

import ctypes
import os
import re
import select
import shutil
import signal
import subprocess
import time

CALLEE_SAVED = ("rbx", "rbp", "r12", "r13", "r14", "r15")
SENTINELS = {
    "rbx": 0x5A5A1001DEAD0B0B,
    "rbp": 0x6B6B2002BEEF0B09,
    "r12": 0x7C7C3003CAFE0C12,
    "r13": 0x8D8D4004F00D0D13,
    "r14": 0x9E9E5005FACE0E14,
    "r15": 0xAFAF6006C0DE0F15,
}
JUNK_R10 = 0x1111222233334444
JUNK_R11_NOTE = "r11 holds the function pointer at the call"
ARG_REGS = ("rdi", "rsi", "rdx", "rcx", "r8", "r9")
M64 = (1 << 64) - 1

TRAMPOLINE = f"""
    .intel_syntax noprefix
    .text
    .globl vt_call
    .type vt_call, @function
# void vt_call(void *fn /*rdi*/, const uint64_t *args /*rsi*/, long nargs /*rdx*/, uint64_t *out /*rcx*/)
vt_call:
    push rbx
    push rbp
    push r12
    push r13
    push r14
    push r15
    lea rax, [rip+vt_state]
    mov [rax], rcx              # out
    mov [rax+8], rsp            # our frame; rsp % 16 == 8 here
    mov r11, rdi                # fn
    mov rcx, rdx
    sub rcx, 6
    jg 1f
    xor ecx, ecx
1:  test cl, 1                  # k = number of stack arguments
    jnz 2f
    sub rsp, 8                  # k even: pad so that rsp % 16 == 0 at the call
2:  test rcx, rcx
    jz 4f
    lea rax, [rsi+rdx*8]
3:  sub rax, 8
    push qword ptr [rax]        # args[nargs-1] ... args[6]; the 7th argument ends up at [rsp]
    dec rcx
    jnz 3b
4:  mov rdi, [rsi]
    mov rdx, [rsi+16]
    mov rcx, [rsi+24]
    mov r8,  [rsi+32]
    mov r9,  [rsi+40]
    mov rsi, [rsi+8]
    movabs rbx, {SENTINELS['rbx']:#x}
    movabs rbp, {SENTINELS['rbp']:#x}
    movabs r12, {SENTINELS['r12']:#x}
    movabs r13, {SENTINELS['r13']:#x}
    movabs r14, {SENTINELS['r14']:#x}
    movabs r15, {SENTINELS['r15']:#x}
    movabs r10, {JUNK_R10:#x}
    lea rax, [rip+vt_state]
    mov [rax+16], rsp           # rsp just before the call
    cld
    call r11
    lea rcx, [rip+vt_state]
    mov [rcx+24], rsp           # rsp just after the call
    mov rsp, [rcx+8]
    mov rdx, [rcx]
    mov [rdx], rax
    mov [rdx+8], rbx
    mov [rdx+16], rbp
    mov [rdx+24], r12
    mov [rdx+32], r13
    mov [rdx+40], r14
    mov [rdx+48], r15
    mov rax, [rcx+16]
    mov [rdx+56], rax
    mov rax, [rcx+24]
    mov [rdx+64], rax
    cld
    pop r15
    pop r14
    pop r13
    pop r12
    pop rbp
    pop rbx
    ret
    .size vt_call, .-vt_call
    .local vt_state
    .comm vt_state, 64, 16
    .section .note.GNU-stack,"",@progbits
"""


class ToolError(RuntimeError):
    """The host toolchain (not the code under test) misbehaved -> harness error."""


def _run(cmd, cwd):
    p = subprocess.run(cmd, cwd=cwd, stdout=subprocess.PIPE, stderr=subprocess.PIPE, text=True,
                       env={"PATH": os.environ.get("PATH", "/usr/bin:/bin"), "LC_ALL": "C",
                            "TMPDIR": cwd})
    return p.returncode, p.stderr


_ERR_LINE = re.compile(r"^[^:\n]*:(\d+): (?:Error|Fatal error): (.*)$", re.M)


def error_class(msg: str) -> str:
    """Normalise an assembler message into a class: numbers and quoted operands are abstracted."""
    m = re.sub(r"0x[0-9a-fA-F]+|-?\d+", "N", msg.strip())
    m = re.sub(r"\s+", " ", m)
    return m[:100]


class Toolbox:
    def __init__(self, scratch: str):
        self.scratch = scratch
        self.as_ = shutil.which("as")
        self.gcc = shutil.which("gcc") or shutil.which("cc")
        self.ld = shutil.which("ld")
        if not self.gcc and not (self.as_ and self.ld):
            raise ToolError("no gcc / as+ld on this host")
        self.n = 0
        self.tramp_o = os.path.join(scratch, "vt_tramp.o")
        with open(os.path.join(scratch, "vt_tramp.s"), "w") as f:
            f.write(TRAMPOLINE)
        rc, err = self._assemble_file("vt_tramp.s", "vt_tramp.o")
        if rc != 0:
            raise ToolError(f"trampoline does not assemble: {err}")

    def _assemble_file(self, src, obj):
        if self.as_:
            return _run([self.as_, "--64", "-o", obj, src], self.scratch)
        return _run([self.gcc, "-c", "-x", "assembler", "-o", obj, src], self.scratch)

    def _link(self, objs, so):
        if self.ld:
            cmd = [self.ld, "-shared", "-z", "noexecstack", "-o", so] + objs
        else:
            cmd = [self.gcc, "-shared", "-nostdlib", "-Wl,-z,noexecstack", "-o", so] + objs
        return _run(cmd, self.scratch)

    def assemble(self, texts):
        """texts: list of (name, assembly text).  Returns (so_path | None, errors, good_names) where
        errors maps name -> (error class, full first message)."""
        errors = {}
        todo = list(texts)
        while todo:
            self.n += 1
            base = f"b{self.n}"
            lines, ranges = [], []
            for name, text in todo:
                start = len(lines) + 1
                lines.extend(text.rstrip("\n").split("\n"))
                ranges.append((start, len(lines), name))
            with open(os.path.join(self.scratch, base + ".s"), "w") as f:
                f.write("\n".join(lines) + "\n")
            rc, err = self._assemble_file(base + ".s", base + ".o")
            if rc == 0:
                rc2, err2 = self._link([base + ".o", "vt_tramp.o"], base + ".so")
                if rc2 != 0:
                    # duplicate / undefined symbols would show here; attribute by symbol name
                    bad = {n for n, _ in todo if re.search(r"\b%s\b" % re.escape(n), err2)}
                    if not bad:
                        raise ToolError(f"link failed: {err2[:500]}")
                    for n in bad:
                        errors[n] = ("link: " + error_class(err2.strip().split("\n")[-1]), err2[:500])
                    todo = [(n, t) for n, t in todo if n not in bad]
                    continue
                return os.path.join(self.scratch, base + ".so"), errors, [n for n, _ in todo]
            found = _ERR_LINE.findall(err)
            bad = {}
            for ln, msg in found:
                ln = int(ln)
                for a, b, name in ranges:
                    if a <= ln <= b and name not in bad:
                        bad[name] = (error_class(msg), f"line {ln - a + 1}: {msg}")
            if not bad:
                raise ToolError(f"assembler failed without attributable error lines: {err[:500]}")
            errors.update(bad)
            todo = [(n, t) for n, t in todo if n not in bad]
        return None, errors, []


def _child(so, jobs, start, wfd):
    try:
        lib = ctypes.CDLL(so)
        vt_call = lib.vt_call
        vt_call.restype = None
        vt_call.argtypes = [ctypes.c_void_p, ctypes.c_void_p, ctypes.c_long, ctypes.c_void_p]
        out = (ctypes.c_uint64 * 9)()
        for ji in range(start, len(jobs)):
            name, vecs = jobs[ji]
            try:
                fn = ctypes.cast(getattr(lib, name), ctypes.c_void_p).value
            except AttributeError:
                os.write(wfd, f"E {ji} symbol {name} not exported\n".encode())
                continue
            for vi, vec in enumerate(vecs):
                n = len(vec)
                padded = list(vec) + [0x0DDBA11C0FFEE000 + i for i in range(max(0, 6 - n))]
                arr = (ctypes.c_uint64 * len(padded))(*[v & M64 for v in padded])
                for i in range(9):
                    out[i] = 0
                os.write(wfd, f"M {ji} {vi}\n".encode())
                vt_call(fn, arr, n, out)
                os.write(wfd, ("R %d %d " % (ji, vi) + " ".join("%x" % out[i] for i in range(9))
                               + "\n").encode())
        os.write(wfd, b"D\n")
    except BaseException as e:  # noqa: BLE001 - report and die, never return into the parent's stack
        try:
            os.write(wfd, f"X {type(e).__name__}: {e}\n".encode())
        except OSError:
            pass
    finally:
        os._exit(0)


def run(so, jobs, timeout_s: float = 300.0):
    """jobs: list of (symbol name, [argument vector, ...]).  Returns {(job index, vector index): outcome}
    where outcome is ("ok", {"rax":..., "rbx":..., ..., "rsp_before":..., "rsp_after":...}),
    ("crash", signal name) or ("timeout",) -- after a crash/timeout the remaining vectors of that
    function are not run.  ("noexport",) under (job, 0) if the symbol is not in the object."""
    results = {}
    start = 0
    while start < len(jobs):
        rfd, wfd = os.pipe()
        pid = os.fork()
        if pid == 0:
            os.close(rfd)
            _child(so, jobs, start, wfd)
        os.close(wfd)
        buf = b""
        deadline = time.time() + timeout_s
        timed_out = False
        while True:
            left = deadline - time.time()
            if left <= 0:
                timed_out = True
                break
            r, _, _ = select.select([rfd], [], [], min(left, 5.0))
            if not r:
                continue
            chunk = os.read(rfd, 65536)
            if not chunk:
                break
            buf += chunk
        if timed_out:
            try:
                os.kill(pid, signal.SIGKILL)
            except ProcessLookupError:
                pass
        os.close(rfd)
        _, status = os.waitpid(pid, 0)
        last = None
        done = False
        for line in buf.decode(errors="replace").split("\n"):
            if not line:
                continue
            tag, _, rest = line.partition(" ")
            if tag == "M":
                a, b = rest.split()
                last = (int(a), int(b))
            elif tag == "R":
                f = rest.split()
                key = (int(f[0]), int(f[1]))
                v = [int(x, 16) for x in f[2:11]]
                d = {"rax": v[0]}
                for i, rname in enumerate(CALLEE_SAVED):
                    d[rname] = v[1 + i]
                d["rsp_before"], d["rsp_after"] = v[7], v[8]
                results[key] = ("ok", d)
                last = None
            elif tag == "E":
                ji = int(rest.split()[0])
                results[(ji, 0)] = ("noexport",)
            elif tag == "D":
                done = True
            elif tag == "X":
                raise ToolError(f"native child failed: {rest}")
        if done:
            break
        if last is None:
            if timed_out:
                raise ToolError("native child timed out outside any call")
            raise ToolError(f"native child ended early (status {status}) outside any call")
        if timed_out or (os.WIFSIGNALED(status) and os.WTERMSIG(status) == signal.SIGKILL):
            # SIGKILL cannot come from the callee itself (watchdog / OOM killer): not a verdict
            results[last] = ("timeout",)
        elif os.WIFSIGNALED(status):
            sig = os.WTERMSIG(status)
            try:
                sname = signal.Signals(sig).name
            except ValueError:
                sname = f"SIG{sig}"
            results[last] = ("crash", sname)
        else:
            results[last] = ("crash", f"exit{os.WEXITSTATUS(status)}")
        start = last[0] + 1
    return results
