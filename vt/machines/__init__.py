"""Machine models used as oracles (independent of xdsl.interpreters)."""
