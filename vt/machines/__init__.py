"""Machine models / native harnesses used as differential partners by the backend properties."""
