"""Runner protocol for the /verif property checks.

    python -m vt.run <ID> --tier quick|thorough [--replay FILE]

Exit codes: 0 property held (KNOWN-FINDING lines may be printed), 1 VIOLATION found,
2 harness error (never a violation).

A property module `vt.props.<ID>` provides
    SHARDS : dict tier -> number of shards (optional, default quick 8 / thorough 16)
    checks(h)         : run the generated search of shard h.shard of h.nshards
    replay(h, recipe) : run the plain oracle on one saved recipe (no generation)
Both report through the Harness `h`:
    h.case(recipe, nontrivial, label=...)   one generated case
    h.mismatch(sig, recipe, detail)         an oracle disagreement (sig: flat dict of str)
    h.discard(label) / h.inconclusive(label) / h.exclude(label) / h.count(label)
"""
from __future__ import annotations

import argparse
import hashlib
import importlib
import io
import json
import multiprocessing as mp
import os
import sys
import time
import traceback
import warnings
from collections import Counter
from contextlib import contextmanager
from typing import Any, Callable

ROOT = os.path.dirname(os.path.dirname(os.path.abspath(__file__)))
KNOWN_DIR = os.path.join(ROOT, "known_findings")
MAX_SAMPLES = 6


class Violation(Exception):
    """Raised inside Hypothesis-driven bodies for a mismatch that is not known/excluded."""

    def __init__(self, sig: dict, recipe: Any, detail: str):
        super().__init__(f"{sig} {detail}")
        self.sig, self.recipe, self.detail = sig, recipe, detail


def jdump(x: Any) -> str:
    return json.dumps(x, sort_keys=True, default=repr, ensure_ascii=True)


def digest(x: Any) -> str:
    return hashlib.sha1(jdump(x).encode()).hexdigest()[:16]


def sigkey(sig: dict) -> str:
    return digest(sig)


def load_known(pid: str) -> list[dict]:
    path = os.path.join(KNOWN_DIR, f"{pid}.json")
    if not os.path.exists(path):
        return []
    with open(path) as f:
        data = json.load(f)
    return [e for e in data.get("findings", []) if e.get("property") == pid]


def sig_matches(entry_sig: dict, sig: dict) -> bool:
    return all(str(sig.get(k)) == str(v) for k, v in entry_sig.items())


def _short(x: Any, limit: int = 1500) -> Any:
    s = jdump(x)
    if len(s) <= limit:
        return x
    return {"truncated": s[:limit] + "..."}


class Harness:
    def __init__(self, pid: str, tier: str, seed: int, shard: int = 0, nshards: int = 1):
        self.pid, self.tier, self.seed, self.shard, self.nshards = pid, tier, seed, shard, nshards
        self.evaluations = 0
        self.nontrivial: set[str] = set()
        self.nontrivial_extra = 0  # distinct-by-construction cases (exhaustive enumerations)
        self.classes: Counter = Counter()
        self.discarded: Counter = Counter()
        self.inconc: Counter = Counter()
        self.excluded: Counter = Counter()
        self.known_hits: Counter = Counter()
        self.sub_checks: Counter = Counter()
        self.samples: list = []
        self.violations: dict[str, dict] = {}
        self.known = [e for e in load_known(pid) if e.get("status") == "known"]
        self.run_excluded: set[str] = set()
        self._in_hyp = False
        self._shrinking = False
        self._want: str | None = None
        self.exhaustive: bool | None = None
        self.notes: list[str] = []
        self.t0 = time.time()

    # ---- bookkeeping -------------------------------------------------------------------
    @property
    def quick(self) -> bool:
        return self.tier == "quick"

    def scale(self, quick: int, thorough: int) -> int:
        """Per-shard case budget."""
        return quick if self.quick else thorough

    def count(self, label: str, n: int = 1) -> None:
        if not self._shrinking:
            self.classes[label] += n

    def discard(self, label: str, n: int = 1) -> None:
        if not self._shrinking:
            self.discarded[label] += n

    def inconclusive(self, label: str, n: int = 1) -> None:
        if not self._shrinking:
            self.inconc[label] += n

    def exclude(self, label: str, n: int = 1) -> None:
        if not self._shrinking:
            self.excluded[label] += n

    def case(self, recipe: Any, nontrivial: bool, label: str | None = None,
             distinct: bool = False, sample: Any = None) -> None:
        if self._shrinking:
            return
        self.evaluations += 1
        if label:
            self.classes[label] += 1
        if nontrivial:
            self.classes["nontrivial"] += 1
            if distinct:
                self.nontrivial_extra += 1
                new = True
            else:
                d = digest(recipe)
                new = d not in self.nontrivial
                self.nontrivial.add(d)
            if new and len(self.samples) < MAX_SAMPLES and (
                    self.evaluations % 7 == 1 or len(self.samples) < 2):
                self.samples.append(_short(sample if sample is not None else recipe))

    def known_for(self, sig: dict) -> dict | None:
        for e in self.known:
            if sig_matches(e["signature"], sig):
                return e
        return None

    def mismatch(self, sig: dict, recipe: Any, detail: str = "") -> None:
        """Report an oracle disagreement. Known findings are counted, others become violations."""
        sig = {k: str(v) for k, v in sig.items()}
        e = self.known_for(sig)
        if e is not None:
            if not self._shrinking:
                self.known_hits[e["id"]] += 1
            return
        k = sigkey(sig)
        if self._shrinking:
            if k == self._want:
                raise Violation(sig, recipe, detail)
            return
        if self._in_hyp:
            if k in self.run_excluded:
                return
            raise Violation(sig, recipe, detail)
        size = len(jdump(recipe))
        old = self.violations.get(k)
        if old is None:
            self._progress(sig, recipe, detail)
        if old is None or size < old["size"]:
            self.violations[k] = {"signature": sig, "recipe": recipe, "detail": detail[:4000],
                                  "size": size}

    def _progress(self, sig: dict, recipe: Any, detail: str) -> None:
        """Append a newly seen violation to out/progress-<ID>.jsonl so that long runs that are cut
        short (time limits) still leave their findings behind. Best effort, never fails the run."""
        try:
            d = os.environ.get("VT_OUT_DIR") or os.path.join(ROOT, "out")
            os.makedirs(d, exist_ok=True)
            with open(os.path.join(d, f"progress-{self.pid}.jsonl"), "a") as f:
                f.write(jdump({"shard": self.shard, "signature": sig, "recipe": recipe,
                               "detail": detail[:1500]}) + "\n")
        except OSError:
            pass

    # ---- Hypothesis driver --------------------------------------------------------------
    def hyp(self, name: str, strategy: Any, body: Callable[[Any], None], max_examples: int,
            seed_salt: int = 0, shrink_budget_s: float = 20.0) -> None:
        """Run body(recipe) over `strategy` (collect-then-shrink, single pass).

        body reports through h.case / h.mismatch. A mismatch that is neither a known finding
        nor already collected in this run is caught here, its signature is excluded for the rest of
        the run (so the search continues behind it), and the recipe is minimised by a deterministic,
        time-bounded delta-debugger (vt.shrink) that keeps the signature fixed."""
        import hypothesis
        from hypothesis import HealthCheck, Phase, given, settings
        from vt.shrink import shrink

        if os.environ.get("VT_SKIP_HYP"):  # development aid: enumeration / corpus parts only
            self.notes.append(f"VT_SKIP_HYP set: skipped {name}")
            return

        sett = settings(max_examples=max_examples, database=None, deadline=None,
                        derandomize=False, report_multiple_bugs=False,
                        suppress_health_check=[HealthCheck.too_slow, HealthCheck.data_too_large],
                        phases=[Phase.generate], print_blob=False)
        seedv = (self.seed * 1000 + self.shard) * 131 + seed_salt
        self.sub_checks[name] += 0

        def fails_with(r, k):
            """Does body(r) still report a mismatch with signature key k?"""
            self._shrinking = True
            self._want = k
            try:
                body(r)
                return False
            except Violation as v2:
                return sigkey(v2.sig) == k
            finally:
                self._shrinking = False
                self._want = None

        def wrapped(recipe):
            try:
                body(recipe)
                self.sub_checks[name] += 1
            except Violation as v:
                k = sigkey(v.sig)
                self.run_excluded.add(k)
                self._progress(v.sig, v.recipe, v.detail)
                best, bv = v.recipe, v
                if len(self.violations) < 40:
                    try:
                        jr = json.loads(jdump(recipe))
                        if fails_with(jr, k):
                            small = shrink(jr, lambda r: fails_with(r, k), shrink_budget_s)
                            # re-run to get the detail text of the minimised recipe
                            self._shrinking, self._want = True, k
                            try:
                                body(small)
                            except Violation as v3:
                                if sigkey(v3.sig) == k:
                                    best, bv = v3.recipe, v3
                            finally:
                                self._shrinking, self._want = False, None
                    except Exception as e:  # shrinking is best effort
                        self.notes.append(f"shrink failed in {name}: {e!r:.200}")
                size = len(jdump(best))
                old = self.violations.get(k)
                if old is None or size < old["size"]:
                    self.violations[k] = {"signature": bv.sig, "recipe": best,
                                          "detail": bv.detail[:4000], "size": size,
                                          "sub_check": name}

        test = hypothesis.seed(seedv)(sett(given(strategy)(wrapped)))
        self._in_hyp = True
        try:
            test()
        finally:
            self._in_hyp = False

    # ---- export / merge -----------------------------------------------------------------
    def export(self) -> dict:
        return {
            "evaluations": self.evaluations, "nontrivial": list(self.nontrivial),
            "nontrivial_extra": self.nontrivial_extra, "classes": dict(self.classes),
            "discarded": dict(self.discarded), "inconc": dict(self.inconc),
            "excluded": dict(self.excluded), "known_hits": dict(self.known_hits),
            "sub_checks": dict(self.sub_checks), "samples": self.samples,
            "violations": self.violations, "exhaustive": self.exhaustive, "notes": self.notes,
        }

    def merge(self, d: dict) -> None:
        self.evaluations += d["evaluations"]
        self.nontrivial.update(d["nontrivial"])
        self.nontrivial_extra += d["nontrivial_extra"]
        for name in ("classes", "discarded", "inconc", "excluded", "known_hits", "sub_checks"):
            getattr(self, name).update(d[name])
        for s in d["samples"]:
            if len(self.samples) < MAX_SAMPLES:
                self.samples.append(s)
        for k, v in d["violations"].items():
            old = self.violations.get(k)
            if old is None or v["size"] < old["size"]:
                self.violations[k] = v
        if d["exhaustive"] is not None:
            self.exhaustive = d["exhaustive"] if self.exhaustive is None else (
                self.exhaustive and d["exhaustive"])
        self.notes.extend(d["notes"])


@contextmanager
def quiet():
    """Silence stdout/stderr/warnings of the code under test."""
    old_out, old_err = sys.stdout, sys.stderr
    sys.stdout, sys.stderr = io.StringIO(), io.StringIO()
    try:
        with warnings.catch_warnings():
            warnings.simplefilter("ignore")
            yield
    finally:
        sys.stdout, sys.stderr = old_out, old_err


def _run_shard(args):
    pid, tier, seed, shard, nshards = args[:5]
    replay_files = args[5] if len(args) > 5 else []
    warnings.simplefilter("ignore")
    try:
        mod = importlib.import_module(f"vt.props.{pid}")
        h = Harness(pid, tier, seed, shard, nshards)
        # regression tier: this shard's share of the committed replays
        for path in replay_files:
            with open(path) as f:
                rec = json.load(f)
            mod.replay(h, rec["recipe"])
            h.classes["replayed_regressions"] += 1
        mod.checks(h)
        return ("ok", h.export())
    except BaseException:  # harness error
        return ("err", traceback.format_exc())


def write_evidence(h: Harness, mod, wall: float, nviol: int) -> None:
    cov = {
        "evaluations": h.evaluations,
        "distinct_nontrivial": len(h.nontrivial) + h.nontrivial_extra,
        "rule": getattr(mod, "RULE", ""),
        "samples": h.samples[:MAX_SAMPLES],
        "classes": dict(sorted(h.classes.items())),
        "sub_checks": dict(sorted(h.sub_checks.items())),
        "known_hits": dict(h.known_hits),
        "excluded_by_construction": dict(h.excluded),
        "discarded": dict(h.discarded),
        "inconclusive": dict(h.inconc),
        "shards": h.nshards,
    }
    if h.exhaustive is not None:
        cov["exhaustive"] = bool(h.exhaustive)
    if h.notes:
        cov["notes"] = h.notes[:20]
    ev = {
        "property_id": h.pid, "tier": h.tier, "seed": h.seed, "level": "exploration",
        "coverage": cov, "assumptions": list(getattr(mod, "ASSUMPTIONS", [])),
        "wall_s": round(wall, 2), "violations": nviol,
    }
    evdir = os.environ.get("VT_EVIDENCE_DIR") or os.path.join(ROOT, "evidence")  # override: scratch runs
    os.makedirs(evdir, exist_ok=True)
    path = os.path.join(evdir, f"{h.pid}.json")
    tmp = path + ".tmp"
    with open(tmp, "w") as f:
        json.dump(ev, f, indent=1, sort_keys=True, default=repr)
    os.replace(tmp, path)


def main(argv=None) -> int:
    import faulthandler
    import signal
    try:  # `kill -USR1 <pid>` dumps the Python stacks of a run that seems stuck (debugging aid)
        faulthandler.register(signal.SIGUSR1, all_threads=True)
    except (AttributeError, ValueError):
        pass
    ap = argparse.ArgumentParser()
    ap.add_argument("pid")
    ap.add_argument("--tier", default=os.environ.get("VERIF_TIER", "quick"))
    ap.add_argument("--replay", default=None)
    ap.add_argument("--shards", type=int, default=None)
    a = ap.parse_args(argv)
    tier = a.tier if a.tier in ("quick", "thorough") else "quick"
    try:
        seed = int(os.environ.get("VERIF_SEED", "1"))
    except ValueError:
        seed = 1
    pid = a.pid
    t0 = time.time()
    try:
        mod = importlib.import_module(f"vt.props.{pid}")
    except Exception:
        traceback.print_exc()
        print(f"HARNESS-ERROR property={pid} cannot import check module")
        return 2

    h = Harness(pid, tier, seed)
    try:
        # ---- single replay -------------------------------------------------------------
        if a.replay:
            with open(a.replay) as f:
                rec = json.load(f)
            mod.replay(h, rec["recipe"])
            h.known = [] if os.environ.get("VT_REPLAY_RAW") else h.known
            return _finish(h, mod, t0, replay_only=True)

        # ---- regression tier: committed replays (known-finding witnesses, fixed defects) are
        #      distributed over the shards and executed before the generated search
        rdir = os.path.join(ROOT, "replays", pid)
        rfiles = []
        if os.path.isdir(rdir):
            rfiles = [os.path.join(rdir, fn) for fn in sorted(os.listdir(rdir)) if fn.endswith(".json")]

        # ---- generated search, sharded ---------------------------------------------------
        nsh = a.shards or getattr(mod, "SHARDS", {}).get(tier, 8 if tier == "quick" else 16)
        h.nshards = nsh
        jobs = [(pid, tier, seed, i, nsh, rfiles[i::nsh]) for i in range(nsh)]
        if nsh == 1:
            results = [_run_shard(jobs[0])]
        else:
            ctx = mp.get_context("fork")
            with ctx.Pool(min(nsh, os.cpu_count() or 4), maxtasksperchild=1) as pool:
                results = pool.map(_run_shard, jobs, chunksize=1)
        errs = [r[1] for r in results if r[0] == "err"]
        if errs:
            sys.stderr.write(errs[0])
            print(f"HARNESS-ERROR property={pid} {len(errs)} shard(s) failed")
            return 2
        for _, d in results:
            h.merge(d)
        return _finish(h, mod, t0)
    except Exception:
        traceback.print_exc()
        print(f"HARNESS-ERROR property={pid}")
        return 2


def _finish(h: Harness, mod, t0: float, replay_only: bool = False) -> int:
    pid = h.pid
    outdir = os.path.join(os.environ.get("VT_OUT_DIR") or os.path.join(ROOT, "out"), "replays", pid)
    nviol = len(h.violations)
    for e in load_known(pid):
        if e.get("status") == "known" and h.known_hits.get(e["id"], 0) > 0:
            print(f"KNOWN-FINDING: property={pid} {e['what']} [{e['id']}]")
    for k, v in sorted(h.violations.items()):
        os.makedirs(outdir, exist_ok=True)
        path = os.path.join(outdir, f"{k}.json")
        with open(path, "w") as f:
            json.dump({"property": pid, "signature": v["signature"], "recipe": v["recipe"],
                       "detail": v["detail"]}, f, indent=1, default=repr)
        print(f"VIOLATION property={pid} replay={path}")
        print(f"  signature={jdump(v['signature'])}")
        print("  detail=" + v["detail"][:600].replace("\n", "\n    "))
    wall = time.time() - t0
    if not replay_only:
        if h.evaluations == 0:
            print(f"HARNESS-ERROR property={pid} no case generated")
            return 2
        write_evidence(h, mod, wall, nviol)
    print(f"[{pid}] tier={h.tier} seed={h.seed} evaluations={h.evaluations} "
          f"nontrivial_distinct={len(h.nontrivial) + h.nontrivial_extra} known_hits={sum(h.known_hits.values())} "
          f"violations={nviol} wall={wall:.1f}s")
    return 1 if nviol else 0


if __name__ == "__main__":
    sys.exit(main())
