"""Independent canonical form / positional isomorphism of xDSL IR.

Never uses `is_structurally_equivalent` or the printer.  Two IR pieces are isomorphic (positionally:
same op order, block order, operand positions) iff `canon(a) == canon(b)`.

attr_key(attr): class qualname + recursive payload, floats as IEEE-754 bit patterns, dictionaries
sorted by key.  Values defined outside the canonised root are `("ext", id(value))`.
"""
from __future__ import annotations

import enum
import struct
from collections.abc import Mapping
from typing import Any


def data_key(x: Any) -> Any:
    from xdsl.ir import Attribute
    if isinstance(x, Attribute):
        return attr_key(x)
    if isinstance(x, int):  # bool included: IntAttr(True) == IntAttr(1), prints the same
        return ("i", x)
    if isinstance(x, float):
        return ("f", struct.pack(">d", x).hex())
    if isinstance(x, str):
        return ("s", x)
    if isinstance(x, (bytes, bytearray)):
        return ("y", bytes(x).hex())
    if x is None:
        return ("n",)
    if isinstance(x, enum.Enum):
        return ("e", type(x).__qualname__, x.name)
    if isinstance(x, (tuple, list)):
        return ("t", tuple(data_key(e) for e in x))
    if isinstance(x, Mapping):
        return ("d", tuple(sorted(((repr(data_key(k)), data_key(v)) for k, v in x.items()))))
    if isinstance(x, (set, frozenset)):
        return ("S", tuple(sorted(repr(data_key(e)) for e in x)))
    return ("o", type(x).__qualname__, str(x))


def attr_key(a: Any) -> Any:
    from xdsl.ir import Data, ParametrizedAttribute
    cls = type(a)
    name = cls.__qualname__
    if isinstance(a, ParametrizedAttribute):
        return ("P", name, getattr(cls, "name", ""), tuple(data_key(p) for p in a.parameters))
    if isinstance(a, Data):
        return ("D", name, getattr(cls, "name", ""), data_key(a.data))
    return ("A", name, str(a))


class Numbering:
    def __init__(self):
        self.values: dict[Any, int] = {}
        self.blocks: dict[Any, int] = {}

    def number_region(self, region) -> None:
        for b in region.blocks:
            self.blocks[b] = len(self.blocks)
        for b in region.blocks:
            self.number_block_body(b)

    def number_block_body(self, b) -> None:
        for a in b.args:
            self.values[a] = len(self.values)
        for op in b.ops:
            self.number_op(op)

    def number_op(self, op) -> None:
        for r in op.results:
            self.values[r] = len(self.values)
        for reg in op.regions:
            self.number_region(reg)

    def vref(self, v) -> Any:
        from xdsl.ir import ErasedSSAValue
        if v in self.values:
            return ("v", self.values[v])
        if isinstance(v, ErasedSSAValue):
            return ("erased",)
        return ("ext", id(v))

    def bref(self, b) -> Any:
        if b in self.blocks:
            return ("b", self.blocks[b])
        return ("extb", id(b))


def _dict_key(d: Mapping) -> tuple:
    return tuple(sorted((k, attr_key(v)) for k, v in d.items()))


def default_props_attrs(op) -> tuple[Mapping, Mapping]:
    return op.properties, op.attributes


def normalized_props_attrs(op) -> tuple[Mapping, Mapping]:
    """The two equivalences C04 grants: a property equal to its declared default is the same as an
    absent one; an inherent attribute (a name the op declares as property) found in the attribute
    dictionary is the property it denotes."""
    props = dict(op.properties)
    attrs = dict(op.attributes)
    get_def = getattr(type(op), "get_irdl_definition", None)
    if get_def is None:
        return props, attrs
    try:
        op_def = get_def()
    except Exception:
        return props, attrs
    for pname, pdef in op_def.properties.items():
        if pname in attrs and pname not in props:
            props[pname] = attrs.pop(pname)
        default = getattr(pdef, "default_value", None)
        if default is not None and pname in props and props[pname] == default:
            del props[pname]
    return props, attrs


def canon_op(op, num: Numbering, norm=default_props_attrs) -> tuple:
    props, attrs = norm(op)
    return (
        "op", op.name,
        tuple(num.vref(v) for v in op.operands),
        tuple(attr_key(r.type) for r in op.results),
        _dict_key(attrs), _dict_key(props),
        tuple(num.bref(b) for b in op.successors),
        tuple(canon_region(r, num, norm) for r in op.regions),
    )


def canon_block(b, num: Numbering, norm=default_props_attrs) -> tuple:
    return ("block", tuple(attr_key(a.type) for a in b.args),
            tuple(canon_op(o, num, norm) for o in b.ops))


def canon_region(r, num: Numbering, norm=default_props_attrs) -> tuple:
    return ("region", tuple(canon_block(b, num, norm) for b in r.blocks))


def canon(root, normalize: bool = False) -> tuple:
    """Canonical form of an Operation, Block or Region (with everything nested)."""
    from xdsl.ir import Block, Operation, Region
    num = Numbering()
    norm = normalized_props_attrs if normalize else default_props_attrs
    if isinstance(root, Operation):
        num.number_op(root)
        return canon_op(root, num, norm)
    if isinstance(root, Region):
        num.number_region(root)
        return canon_region(root, num, norm)
    if isinstance(root, Block):
        num.blocks[root] = 0
        num.number_block_body(root)
        return canon_block(root, num, norm)
    raise TypeError(type(root))


def first_diff(a: Any, b: Any, path: str = "") -> str:
    """Human-readable location of the first difference between two canonical forms."""
    if type(a) is not type(b):
        return f"{path}: {a!r:.200} != {b!r:.200}"
    if isinstance(a, tuple):
        if len(a) != len(b):
            return f"{path}: length {len(a)} != {len(b)}: {a!r:.300} != {b!r:.300}"
        for i, (x, y) in enumerate(zip(a, b)):
            if x != y:
                return first_diff(x, y, f"{path}/{i}")
        return ""
    if a != b:
        return f"{path}: {a!r:.200} != {b!r:.200}"
    return ""


def canon_blocklist(blocks, normalize: bool = False) -> tuple:
    """Canonical form of a contiguous list of sibling blocks taken as a virtual region."""
    num = Numbering()
    norm = normalized_props_attrs if normalize else default_props_attrs
    for b in blocks:
        num.blocks[b] = len(num.blocks)
    for b in blocks:
        num.number_block_body(b)
    return ("region", tuple(canon_block(b, num, norm) for b in blocks))


def identity_snapshot(root) -> tuple:
    """Object-identity snapshot of a tree: which objects it is made of and what they point to."""
    from xdsl.ir import Block, Operation, Region
    out = []

    def v_op(o):
        out.append(("op", id(o), o.name, tuple(id(x) for x in o.operands), tuple(id(r) for r in o.results),
                    tuple(id(s) for s in o.successors), id(o.parent) if o.parent is not None else None,
                    tuple(sorted((k, id(v)) for k, v in o.attributes.items())),
                    tuple(sorted((k, id(v)) for k, v in o.properties.items()))))
        for r in o.regions:
            v_region(r)

    def v_block(b):
        out.append(("block", id(b), tuple(id(a) for a in b.args), id(b.parent) if b.parent is not None else None))
        for o in b.ops:
            v_op(o)

    def v_region(r):
        out.append(("region", id(r), id(r.parent) if r.parent is not None else None))
        for b in r.blocks:
            v_block(b)
    if isinstance(root, Operation):
        v_op(root)
    elif isinstance(root, Block):
        v_block(root)
    elif isinstance(root, Region):
        v_region(root)
    else:
        raise TypeError(type(root))
    return tuple(out)


def object_ids(root) -> set:
    """ids of every op, block, region, result and block argument in the tree."""
    ids = set()
    for e in identity_snapshot(root):
        ids.add(e[1])
        if e[0] == "op":
            ids.update(e[4])
        elif e[0] == "block":
            ids.update(e[2])
    return ids


def op_diff(a, b) -> str:
    """Classify the first difference between two canonical forms at op granularity:
    'attrs:-k' (key k lost), 'attrs:+k' (key appeared), 'props:~k' (value changed), 'operands',
    'result_types', 'successors', 'name', 'op_count', 'block_args', 'block_count', 'region_count'."""
    if a == b:
        return ""
    tag = a[0] if isinstance(a, tuple) and a else None
    if tag != (b[0] if isinstance(b, tuple) and b else None):
        return "shape"
    if tag == "op":
        if a[1] != b[1]:
            return "name"
        for idx, nm in ((2, "operands"), (3, "result_types"), (6, "successors")):
            if a[idx] != b[idx]:
                return nm
        for idx, nm in ((4, "attrs"), (5, "props")):
            if a[idx] != b[idx]:
                da, db = dict(a[idx]), dict(b[idx])
                for k in sorted(set(da) | set(db)):
                    if k not in db:
                        return f"{nm}:-{k}"
                    if k not in da:
                        return f"{nm}:+{k}"
                    if da[k] != db[k]:
                        return f"{nm}:~{k}"
        if len(a[7]) != len(b[7]):
            return "region_count"
        for x, y in zip(a[7], b[7]):
            d = op_diff(x, y)
            if d:
                return d
        return "?"
    if tag == "region":
        if len(a[1]) != len(b[1]):
            return "block_count"
        for x, y in zip(a[1], b[1]):
            d = op_diff(x, y)
            if d:
                return d
        return "?"
    if tag == "block":
        if a[1] != b[1]:
            return "block_args"
        if len(a[2]) != len(b[2]):
            return "op_count"
        for x, y in zip(a[2], b[2]):
            d = op_diff(x, y)
            if d:
                return x[1] + "/" + d if False else d
        return "?"
    return "?"
