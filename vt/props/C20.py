"""C20 — Parallel-move lowering performs a simultaneous assignment.

Recipe (plain JSON):
    {"moves":  [[dst, src], ...],      integer registers by ABI name ("zero" allowed)
     "fmoves": [[dst, src], ...],      floating-point registers by ABI name
     "widths": [w, ...],               one per move, moves first then fmoves (same width for all
                                       moves out of one source register)
     "free": [...], "ffree": [...],    declared free (scratch) registers, never involved in a move
     "perm": [i, ...] | null,          operand order: operand k of the op is move perm[k] of moves+fmoves
     "split": bool,                    false: one SSA value per source register (the value is used by
                                       several operands on fan-out); true: every operand has its own
                                       SSA value (several values allocated to the same register)
     "empty_attr": bool}               no free registers given as `free_registers = []` instead of absent

build(recipe) makes
    %v... = "test.op"() : () -> (source registers)
    %r... = riscv.parallel_mov %v... [widths] {free_registers = [...]} : (...) -> (destinations)
    "test.op"(%r...)
and runs RISCVLowerParallelMovPass on it.  The ops left between the two test ops are executed on a
symbolic register file (each register = two 32-bit lanes, each lane a GF(2) combination of symbols, so
that the xor swap is evaluated exactly; fmv.s copies the low lane only, mv / fmv.d copy both lanes;
`zero` always reads 0 and discards writes).
"""
from __future__ import annotations

import contextlib
import itertools
import signal

from hypothesis import strategies as st

ID = "C20"
SHARDS = {"quick": 16, "thorough": 16}
RULE = ("exhaustive: every partial function dst->src over N integer registers (each register is not a "
        "destination, or receives one of the N registers or `zero`; optionally `zero` itself is one more "
        "destination) and over M float registers -- quick: int-only N<=4, float-only M<=4, mixed N=3 x "
        "M=2; thorough adds int-only N=5, mixed N=4 x M=2 and N=3 x M=3 -- x every subset of the "
        "non-involved registers of the universe plus one outside register as declared free_registers, "
        "x every 32/64 width assignment per float source register (int widths cycle through "
        "all-32/all-64/alternating), x operand orders (labelled enumeration already covers all orders "
        "within one kind; identity and reversed are run; mixed cases use ints-first, floats-first, "
        "interleaved), x shared / per-operand SSA values on fan-out; plus Hypothesis random graphs over "
        "up to 10 registers of each kind with random order, free sets, widths (rarely one unsupported "
        "width) and up to two `zero` destinations. Oracle: the emitted riscv.mv / fmv.s / fmv.d / xor ops "
        "are executed in block order on a symbolic register file (two 32-bit lanes per register, GF(2) "
        "combinations of the initial symbols); afterwards every destination (except `zero`) must hold "
        "the initial value of its source in the lanes covered by the declared width, every register that "
        "is neither a destination nor a declared free register must hold its initial value, and the "
        "replacement values must have the destination register types; PassFailedException / "
        "DiagnosticException = reported failure (discarded, counted by cause); any other exception, a "
        "rewrite that keeps emitting ops (more than 5000 in the block, sampled by a CPU-time timer) or a "
        "leftover parallel_mov is a mismatch; an unknown "
        "emitted op kind is a harness error. Non-trivial: the graph of one kind has a cycle of length "
        ">=2, a tree hanging off a cycle, or fan-out >= 2.")
ASSUMPTIONS = [
    "register-file semantics: mv/fmv.d copy the whole register, fmv.s copies the low 32 bits, xor is "
    "bitwise, x0 reads zero and ignores writes; ops execute in block order",
    "a destination `zero` is exempt from the value requirement (it cannot hold a value); everything "
    "else is still required in such cases",
    "register types are compared by ABI name; aliased names (fp/s0, f9/fs1) are never generated",
    "all moves out of one source register declare the same width",
]

INT_POOL = ["s1", "s2", "s3", "s4", "s5", "s6", "s7", "s8", "s9", "s10", "s11",
            "t0", "t1", "t2", "t3", "t4", "t5", "a0", "a1", "a2", "a3"]
FLT_POOL = ["fs1", "fs2", "fs3", "fs4", "fs5", "fs6", "fs7", "fs8", "fs9", "fs10", "fs11",
            "ft0", "ft1", "ft2", "ft3", "ft4", "ft5", "fa0", "fa1", "fa2", "fa3"]
INT_EXTRA, FLT_EXTRA = "t6", "ft11"
# Two extensions of the move-graph domain, generated as separately labelled classes (their failures
# have their own signatures: zero_chain / multi_zero_dst / split).  Set to False to drop them.
GEN_ZERO_DST = True       # `zero` may also be a destination (the op verifier allows it, even repeated)
GEN_SPLIT_VALUES = True   # fan-out through several SSA values allocated to the same register
EMITTED = {"riscv.mv", "riscv.fmv.s", "riscv.fmv.d", "riscv.xor"}
NANBOX = frozenset(["ones"])
ZERO_LANES = (frozenset(), frozenset())
# Non-termination guard.  A correct lowering of n moves emits at most 3n ops; the known runaway
# rewrites emit ops forever.  A CPU-time timer samples the block: more than RUNAWAY_OPS ops in it is a
# runaway (deterministic criterion, independent of machine load and gc pauses); a rewrite that burns
# STALL_LIMIT_S of CPU without that is only counted as inconclusive.
RUNAWAY_OPS = 5000
FIRST_SAMPLE_S = 0.25
SAMPLE_EVERY_S = 0.05
STALL_LIMIT_S = 30.0
MAX_RUNAWAYS_PER_CLASS = 20  # per process and input class (zero chain, several zero dsts, split values)
RUNAWAYS: dict = {}


class PassRunaway(BaseException):
    pass


class PassStall(BaseException):
    pass


@contextlib.contextmanager
def runaway_guard(block):
    """SIGVTALRM sampler around the code under test (main thread of the shard process).

    The timer keeps firing: an exception raised by a signal handler is silently dropped when the handler
    happens to run inside a gc callback (Hypothesis installs one) or a finalizer, which is likely while a
    runaway rewrite allocates ops as fast as it can; the next sample raises again."""
    state = {"ticks": 0}

    def on_alarm(signum, frame):
        state["ticks"] += 1
        n, op = 0, block.first_op
        while op is not None and n <= RUNAWAY_OPS:
            n, op = n + 1, op.next_op
        if n > RUNAWAY_OPS:
            raise PassRunaway()
        if FIRST_SAMPLE_S + state["ticks"] * SAMPLE_EVERY_S > STALL_LIMIT_S:
            raise PassStall()
    old = signal.signal(signal.SIGVTALRM, on_alarm)
    signal.setitimer(signal.ITIMER_VIRTUAL, FIRST_SAMPLE_S, SAMPLE_EVERY_S)
    try:
        try:
            yield
        finally:
            signal.setitimer(signal.ITIMER_VIRTUAL, 0, 0)
    finally:
        signal.setitimer(signal.ITIMER_VIRTUAL, 0, 0)
        signal.signal(signal.SIGVTALRM, old)


# ----------------------------------------------------------------------------------------------
# graph features
def graph_features(moves):
    """moves: [(dst, src)] of one kind. Returns feature dict + per-dst shape."""
    src_of = {}
    for d, s in moves:
        if d != "zero":
            src_of[d] = s
    fan = {}
    for d, s in moves:
        if d != s:
            fan[s] = fan.get(s, 0) + 1
    on_cycle = set()
    for start in sorted(src_of):
        seen = []
        x = start
        while x in src_of and src_of[x] != x and x not in seen and x != "zero":
            seen.append(x)
            x = src_of[x]
        if x in seen:
            on_cycle.update(seen[seen.index(x):])
    # distinct cycles
    ncycles = 0
    left = set(on_cycle)
    while left:
        x = min(left)
        ncycles += 1
        while x in left:
            left.discard(x)
            x = src_of[x]
    shape = {}
    for d, s in moves:
        if d == "zero":
            shape[d] = "zero_dst"
        elif d == s:
            shape[d] = "self"
        elif d in on_cycle:
            shape[d] = "cycle"
        else:
            x, hops = s, 0
            while x in src_of and src_of[x] != x and x not in on_cycle and x != "zero" and hops < 64:
                x = src_of[x]
                hops += 1
            shape[d] = "tree_off_cycle" if x in on_cycle else "tree"
    dsts = {d for d, _ in moves}
    f = {
        "cycle": bool(on_cycle),
        "multi_cycle": ncycles >= 2,
        "tree_off_cycle": any(v == "tree_off_cycle" for v in shape.values()),
        "fanout": any(v >= 2 for v in fan.values()),
        "self_move": any(d == s for d, s in moves),
        "zero_src": any(s == "zero" and d != "zero" for d, s in moves),
        "zero_dst": any(d == "zero" for d, _ in moves),
        "multi_zero_dst": sum(1 for d, _ in moves if d == "zero") >= 2,
        "zero_chain": any(d == "zero" for d, _ in moves) and any(
            s == "zero" and d != "zero" for d, s in moves),
        "chain": any(s in dsts and s != d and d not in on_cycle and d != "zero" and s != "zero"
                     for d, s in moves),
        "pure_source_tree": any(s not in dsts and s != "zero" and d != "zero" for d, s in moves),
    }
    return f, shape, on_cycle


def nontrivial(fi, ff):
    return any(f["cycle"] or f["tree_off_cycle"] or f["fanout"] for f in (fi, ff))


# ----------------------------------------------------------------------------------------------
# build + run + simulate
def validate(recipe):
    """The generator's invariants; a recipe outside them (hand-written or produced by the shrinker)
    is refused with an AssertionError instead of being judged."""
    for key, pool, extra in (("moves", INT_POOL, INT_EXTRA), ("fmoves", FLT_POOL, FLT_EXTRA)):
        fkey = "free" if key == "moves" else "ffree"
        names = set(pool) | {extra} | ({"zero"} if key == "moves" else set())
        dsts = [d for d, _ in recipe[key]]
        real = [d for d in dsts if d != "zero"]
        if len(real) != len(set(real)):
            raise AssertionError("recipe: destinations not distinct")
        involved = {x for m in recipe[key] for x in m}
        free = list(recipe[fkey])
        if not (involved | set(free)) <= names:
            raise AssertionError("recipe: unknown register name")
        if len(free) != len(set(free)) or set(free) & involved or "zero" in free:
            raise AssertionError("recipe: free registers must be distinct, non-zero and not involved")
    mv = [("i", s) for _, s in recipe["moves"]] + [("f", s) for _, s in recipe["fmoves"]]
    if len(recipe["widths"]) != len(mv):
        raise AssertionError("recipe: widths length")
    wmap = {}
    for src, w in zip(mv, recipe["widths"]):
        if not isinstance(w, int) or isinstance(w, bool) or w < 0:
            raise AssertionError("recipe: width")
        if wmap.setdefault(src, w) != w:
            raise AssertionError("recipe: one source register with two widths")
    if not mv:
        raise AssertionError("recipe: no move")


def all_moves(recipe):
    validate(recipe)
    mv = [("i", d, s) for d, s in recipe["moves"]] + [("f", d, s) for d, s in recipe["fmoves"]]
    ws = list(recipe["widths"])
    if len(ws) != len(mv):
        raise AssertionError("recipe: widths length")
    perm = recipe.get("perm")
    if perm is None:
        perm = list(range(len(mv)))
    if sorted(perm) != list(range(len(mv))):
        raise AssertionError("recipe: perm is not a permutation")
    return [mv[i] + (ws[i],) for i in perm]


_TYPES: dict = {}


def build(recipe):
    from xdsl.dialects import riscv, test
    from xdsl.dialects.builtin import ArrayAttr, DenseArrayBase, ModuleOp, i32

    def ty(kind, name):
        t = _TYPES.get((kind, name))
        if t is None:
            t = (riscv.IntRegisterType if kind == "i" else riscv.FloatRegisterType).from_name(name)
            _TYPES[(kind, name)] = t
        return t

    ops = all_moves(recipe)
    if recipe.get("split"):
        keys = [(k, s, n) for n, (k, _d, s, _w) in enumerate(ops)]
    else:
        keys = []
        for k, _d, s, _w in ops:
            if (k, s, 0) not in keys:
                keys.append((k, s, 0))
    prod = test.TestOp(result_types=[ty(k, s) for k, s, _ in keys])
    val = dict(zip(keys, prod.results))
    inputs = [val[(k, s, n if recipe.get("split") else 0)] for n, (k, _d, s, _w) in enumerate(ops)]
    frees = [ty("i", r) for r in recipe["free"]] + [ty("f", r) for r in recipe["ffree"]]
    free_attr = ArrayAttr(frees) if (frees or recipe.get("empty_attr")) else None
    pm = riscv.ParallelMovOp(inputs, [ty(k, d) for k, d, _s, _w in ops],
                             DenseArrayBase.from_list(i32, [w for *_x, w in ops]), free_attr)
    cons = test.TestOp(operands=list(pm.results))
    module = ModuleOp([prod, pm, cons])
    module.verify()   # generator bug if this fails -> harness error
    return module, prod, cons, ops


def reg_of(t):
    """(kind, name) of an allocated riscv register type; raises on anything else (harness error)."""
    from xdsl.dialects import riscv
    if isinstance(t, riscv.IntRegisterType):
        k = "i"
    elif isinstance(t, riscv.FloatRegisterType):
        k = "f"
    else:
        raise AssertionError(f"emitted op uses non-register type {t}")
    if not t.is_allocated:
        return (k, None)
    return (k, t.register_name.data)


def init_val(reg):
    k, n = reg
    if reg == ("i", "zero"):
        return ZERO_LANES
    return (frozenset([f"r0_{n}.lo"]), frozenset([f"r0_{n}.hi"]))


def show(v):
    def lane(x):
        return "^".join(sorted(x)) if x else "0"
    return f"[{lane(v[0])} | {lane(v[1])}]"


def innermost(exc):
    import traceback
    where = "?"
    for fr in traceback.extract_tb(exc.__traceback__):
        if "xdsl" in fr.filename and "/vt/" not in fr.filename:
            where = fr.filename.split("xdsl/", 1)[-1] + ":" + fr.name
    return where


def oracle(recipe):
    """Returns (status, [(sig, detail)], features) with status in ok / rejected / notimpl."""
    from xdsl.context import Context
    from xdsl.transforms.riscv_lower_parallel_mov import RISCVLowerParallelMovPass
    from xdsl.utils.exceptions import DiagnosticException, PassFailedException
    from vt.run import quiet

    imoves = [tuple(m) for m in recipe["moves"]]
    fmoves = [tuple(m) for m in recipe["fmoves"]]
    fi, shape_i, _ = graph_features(imoves)
    ff, shape_f, _ = graph_features(fmoves)
    feats = {"int": fi, "float": ff}
    split_fanout = bool(recipe.get("split")) and (has_fanout(imoves) or has_fanout(fmoves))
    base = {"split": int(split_fanout), "zero_chain": int(fi["zero_chain"])}
    module, prod, cons, ops = build(recipe)
    in_class = (fi["zero_chain"], fi["multi_zero_dst"], split_fanout)
    if RUNAWAYS.get(in_class, 0) >= MAX_RUNAWAYS_PER_CLASS:
        return "skipped", [], feats       # bounded cost: each further runaway costs ~0.3 s
    try:
        with quiet(), runaway_guard(module.body.block):
            RISCVLowerParallelMovPass().apply(Context(), module)
    except (PassFailedException, DiagnosticException):
        return "rejected", [], feats
    except NotImplementedError:
        return "notimpl", [], feats
    except PassStall:
        return "stalled", [], feats
    except PassRunaway:
        RUNAWAYS[in_class] = RUNAWAYS.get(in_class, 0) + 1
        sig = dict(base, check="runaway", multi_zero_dst=int(fi["multi_zero_dst"]))
        return "ok", [(sig, f"pass does not terminate: more than {RUNAWAY_OPS} ops emitted and still "
                       f"rewriting on\n{describe(recipe)}")], feats
    except Exception as e:  # crash inside the pass on verified input
        sig = dict(base, check="crash", exc=type(e).__name__, where=innermost(e),
                   multi_zero_dst=int(fi["multi_zero_dst"]))
        return "ok", [(sig, f"pass raised {type(e).__name__}: {e} on\n{describe(recipe)}")], feats

    out = []
    block = module.body.block
    body = list(block.ops)
    if body[0] is not prod or body[-1] is not cons:
        raise AssertionError("producer/consumer test ops moved or erased")
    emitted = body[1:-1]
    regs = {}

    def read(r):
        if r == ("i", "zero"):
            return ZERO_LANES
        if r not in regs:
            regs[r] = init_val(r)
        return regs[r]

    written = []
    text = []
    used_xor = False
    for op in emitted:
        text.append(op_text(op))
        if op.name == "riscv.parallel_mov":
            out.append((dict(base, check="not_lowered"), "parallel_mov left in the module without error\n"
                        + describe(recipe)))
            return "ok", out, feats
        if op.name not in EMITTED:
            raise AssertionError(f"unknown emitted op kind {op.name}: extend the simulator")
        srcs = [reg_of(o.type) for o in op.operands]
        (rd,) = [reg_of(r.type) for r in op.results]
        if rd[1] is None or any(s[1] is None for s in srcs):
            out.append((dict(base, check="unallocated_emitted"),
                        f"emitted op with unallocated register: {op_text(op)}\n" + describe(recipe)))
            return "ok", out, feats
        vals = [read(s) for s in srcs]
        if op.name == "riscv.xor":
            if len(vals) != 2 or rd[0] != "i" or any(s[0] != "i" for s in srcs):
                raise AssertionError(f"malformed xor {op}")
            new = (vals[0][0] ^ vals[1][0], vals[0][1] ^ vals[1][1])
            used_xor = True
        elif op.name == "riscv.mv":
            if len(vals) != 1 or rd[0] != "i" or srcs[0][0] != "i":
                raise AssertionError(f"malformed mv {op}")
            new = vals[0]
        elif op.name == "riscv.fmv.d":
            if len(vals) != 1 or rd[0] != "f" or srcs[0][0] != "f":
                raise AssertionError(f"malformed fmv.d {op}")
            new = vals[0]
        else:  # riscv.fmv.s
            if len(vals) != 1 or rd[0] != "f" or srcs[0][0] != "f":
                raise AssertionError(f"malformed fmv.s {op}")
            new = (vals[0][0], NANBOX)
        written.append(rd)
        if rd != ("i", "zero"):
            regs[rd] = new

    listing = describe(recipe) + "\nemitted:\n  " + "\n  ".join(text)
    dsts = {(k, d) for k, d, _s, _w in ops}
    real_dsts = {(k, d) for k, d, s, _w in ops if d != s}
    srcset = {(k, s) for k, _d, s, _w in ops}
    free = {("i", r) for r in recipe["free"]} | {("f", r) for r in recipe["ffree"]}
    kindname = {"i": "int", "f": "float"}

    def rclass(r):
        if r == ("i", "zero"):
            return "zero"
        if r in dsts:
            return "self_root"      # only a self-move names it as destination
        if r in srcset:
            return "pure_source"
        return "uninvolved"

    # the scratch choice of the pass, per kind: registers written by emitted ops that are neither a
    # destination of a real move nor a declared free register
    scratch_s = {}
    for k in "if":
        cl = sorted({rclass(r) for r in written if r[0] == k and r not in real_dsts and r not in free})
        scratch_s[k] = "+".join(cl) if cl else "none"
    cyc_len = {}
    for k, src_map in (("i", dict((d, s) for d, s in imoves if d != "zero")),
                       ("f", dict(fmoves))):
        shp = shape_i if k == "i" else shape_f
        for d in src_map:
            if shp.get(d) == "cycle":
                n, x = 1, src_map[d]
                while x != d and n < 99:
                    n, x = n + 1, src_map[x]
                cyc_len[(k, d)] = "2" if n == 2 else "3+"

    # 1. destinations
    for k, d, s, w in ops:
        if (k, d) == ("i", "zero"):
            continue
        got = read((k, d))
        exp = init_val((k, s))
        lanes = (0,) if w <= 32 else (0, 1)
        if any(got[i] != exp[i] for i in lanes):
            shape = (shape_i if k == "i" else shape_f)[d]
            sig = dict(base, check="dest_value", kind=kindname[k], shape=shape,
                       cyc=cyc_len.get((k, d), "-"), via="xor" if (used_xor and k == "i") else "mv",
                       scratch=scratch_s[k], lanes="low_ok" if got[0] == exp[0] else "wrong")
            out.append((sig, f"{d} should hold initial {s} {show(exp)} (width {w}) but holds {show(got)}\n"
                        + listing))
    # 2. everything else
    universe = set(regs) | srcset | free
    for r in sorted(universe):
        if r in dsts or r in free or r == ("i", "zero"):
            continue
        got = read(r)
        if got != init_val(r):
            f = feats[kindname[r[0]]]
            declared = any(x[0] == r[0] for x in free)
            sig = dict(base, check="clobber", kind=kindname[r[0]], victim=rclass(r), scratch=scratch_s[r[0]],
                       cycle=int(f["cycle"]), declared_free=int(declared))
            out.append((sig, f"{r[1]} is neither a destination nor a declared free register but "
                        f"changed from {show(init_val(r))} to {show(got)}\n" + listing))
    # 3. replacement values have the destination types
    want = [(k, d) for k, d, _s, _w in ops]
    have = [reg_of(o.type) for o in cons.operands]
    if want != have:
        out.append((dict(base, check="result_type"), f"results replaced by values in {have}, expected {want}\n"
                    + listing))
    return "ok", out, feats


def op_text(op):
    regs = [reg_of(o.type)[1] for o in op.operands]
    (rd,) = [reg_of(r.type)[1] for r in op.results] if len(op.results) == 1 else ["?"]
    return f"{op.name.split('.', 1)[1]} {rd}, {', '.join(str(r) for r in regs)}"


def describe(recipe):
    parts = [f"{s}->{d}" for d, s in recipe["moves"]] + [f"{s}->{d}" for d, s in recipe["fmoves"]]
    return (f"parallel move {{{', '.join(parts)}}} widths={recipe['widths']} free={recipe['free']} "
            f"ffree={recipe['ffree']} perm={recipe.get('perm')} split={bool(recipe.get('split'))}")


def run_one(h, recipe, label, distinct=False):
    status, res, feats = oracle(recipe)
    fi, ff = feats["int"], feats["float"]
    h.case(recipe, nontrivial(fi, ff), label=label, distinct=distinct)
    for kind, f in (("int", fi), ("float", ff)):
        for k, v in f.items():
            if v:
                h.count(f"has_{kind}_{k}")
    if status == "rejected":
        # a reported failure is always acceptable; the label records whether it was an expected one
        if any(w not in (32, 64) for w in recipe["widths"]):
            why = "unsupported_width"
        elif ff["cycle"] and not recipe["ffree"]:
            why = "float_cycle_no_declared_free"
        else:
            why = "other"
        h.discard("pass_reported_failure_" + why)
    elif status == "notimpl":
        h.discard("not_implemented")
    elif status == "skipped":
        h.inconclusive("skipped_after_repeated_runaways_in_this_input_class")
    elif status == "stalled":
        h.inconclusive("pass_used_30s_cpu_without_emitting_many_ops")
    else:
        h.count("lowered")
    for sig, detail in res:
        h.mismatch(sig, recipe, detail)


def replay(h, recipe):
    run_one(h, recipe, "replay")


# ----------------------------------------------------------------------------------------------
# exhaustive enumeration
def subsets(xs):
    for r in range(len(xs) + 1):
        yield from itertools.combinations(xs, r)


def int_cases(n, zero_dst):
    """[(moves, free)] over registers s1..sn (+ zero as source, optionally zero as destination)."""
    regs = INT_POOL[:n]
    out = []
    zopts = [None] + regs if zero_dst else [None]
    for assign in itertools.product([None, "zero"] + regs, repeat=n):
        for z in zopts:
            moves = [[regs[i], a] for i, a in enumerate(assign) if a is not None]
            if z is not None:
                moves.append(["zero", z])
            involved = {x for m in moves for x in m}
            cand = [r for r in regs if r not in involved] + [INT_EXTRA]
            for fr in subsets(cand):
                out.append((moves, list(fr)))
    return out


def float_cases(m):
    """[(fmoves, ffree, widths)] over registers fs1..fsm, all 32/64 widths per source register."""
    regs = FLT_POOL[:m]
    out = []
    for assign in itertools.product([None] + regs, repeat=m):
        moves = [[regs[i], a] for i, a in enumerate(assign) if a is not None]
        involved = {x for mv in moves for x in mv}
        cand = [r for r in regs if r not in involved] + [FLT_EXTRA]
        srcs = sorted({s for _, s in moves})
        for fr in subsets(cand):
            for ws in itertools.product([32, 64], repeat=len(srcs)):
                wmap = dict(zip(srcs, ws))
                out.append((moves, list(fr), [wmap[s] for _, s in moves]))
    return out


def int_widths(moves, variant):
    if variant == 0:
        return [32] * len(moves)
    if variant == 1:
        return [64] * len(moves)
    srcs = sorted({s for _, s in moves})
    return [(32, 64)[srcs.index(s) % 2] for _, s in moves]


def order_perm(ni, nf, order):
    idx_i, idx_f = list(range(ni)), list(range(ni, ni + nf))
    if order == "if":
        return None
    if order == "fi":
        return idx_f + idx_i
    if order == "rev":
        return (idx_i + idx_f)[::-1]
    if order == "alt":
        out = []
        for a, b in itertools.zip_longest(idx_f, idx_i):
            out.extend(x for x in (a, b) if x is not None)
        return out
    raise AssertionError(order)


def has_fanout(moves):
    srcs = [s for _, s in moves]
    return len(set(srcs)) < len(srcs)


def enum_block(h, counter, label, icases, fcases, orders):
    """Cross product icases x fcases x orders (x split variant on fan-out), sharded by global index."""
    ni, nf, no = len(icases), len(fcases), len(orders)
    total = ni * nf * no
    start = (h.shard - counter[0]) % h.nshards
    for k in range(start, total, h.nshards):
        a, rest = divmod(k, nf * no)
        b, c = divmod(rest, no)
        moves, free = icases[a]
        fmoves, ffree, fw = fcases[b]
        order = orders[c]
        if not moves and not fmoves:
            continue
        base = {"moves": moves, "fmoves": fmoves,
                "widths": int_widths(moves, k % 3) + fw, "free": free, "ffree": ffree,
                "perm": order_perm(len(moves), len(fmoves), order), "split": False,
                "empty_attr": (k % 5 == 0)}
        run_one(h, base, label, distinct=True)
        if GEN_SPLIT_VALUES and (has_fanout(moves) or has_fanout(fmoves)):
            run_one(h, dict(base, split=True), label + "_split", distinct=True)
    counter[0] += total


def checks(h):
    counter = [0]
    no_f = [([], [], [])]
    no_i = [([], [])]
    both = ["if", "rev"]
    mixed = ["if", "fi", "alt"]
    for n in (1, 2, 3, 4):
        enum_block(h, counter, f"enum_int{n}", int_cases(n, GEN_ZERO_DST), no_f, both)
    for m in (1, 2, 3, 4):
        enum_block(h, counter, f"enum_float{m}", no_i, float_cases(m), both)
    enum_block(h, counter, "enum_int3_float2", int_cases(3, False), float_cases(2), mixed)
    if not h.quick:
        enum_block(h, counter, "enum_int5", int_cases(5, GEN_ZERO_DST), no_f, ["if"])
        enum_block(h, counter, "enum_int4_float2", int_cases(4, False), float_cases(2), mixed)
        enum_block(h, counter, "enum_int3_float3", int_cases(3, False), float_cases(3), mixed)
    h.exhaustive = True

    h.hyp("random_graph", random_recipes(10), lambda r: run_one(h, r, "random"),
          h.scale(400, 6000), 1, shrink_budget_s=15.0)
    h.hyp("random_graph_small", random_recipes(5), lambda r: run_one(h, r, "random_small"),
          h.scale(200, 3000), 2, shrink_budget_s=15.0)


# ----------------------------------------------------------------------------------------------
# random graphs
def random_recipes(nmax):
    width = st.sampled_from([32, 64])
    # rarely one source register gets a width the pass does not support (must be rejected or correct)
    bad = st.one_of(st.none(), st.none(), st.none(), st.none(), st.none(), st.none(), st.none(),
                    st.tuples(st.integers(0, 10), st.sampled_from([16, 40, 128, 0])))

    def side(pool, extra, allow_zero):
        # per register: None (not a destination) or index of the source (n = zero if allowed)
        def mk(n):
            hi = n if allow_zero else n - 1
            return st.tuples(
                st.just(n),
                st.lists(st.one_of(st.none(), st.integers(0, max(hi, 0))), min_size=n, max_size=n),
                st.lists(st.booleans(), min_size=n + 1, max_size=n + 1),      # free mask
                st.tuples(st.lists(width, min_size=n + 1, max_size=n + 1), bad).map(
                    lambda t: [t[1][1] if (t[1] is not None and t[1][0] == i) else w
                               for i, w in enumerate(t[0])]),                  # width per source
                st.one_of(st.just([]), st.just([]), st.lists(
                    st.integers(0, max(n - 1, 0)), max_size=2 if (allow_zero and GEN_ZERO_DST) else 0)))  # zero dsts
        return st.integers(0, nmax).flatmap(mk)

    def norm(t):
        (ni, ai, fmi, wi, zd), (nf, af, fmf, wf, _), keys, split, empty_attr = t

        def one(pool, extra, n, assign, fmask, ws, zdst, allow_zero):
            regs = pool[:n]
            names = regs + (["zero"] if allow_zero else [])
            moves, widths = [], []
            for i, a in enumerate(assign):
                if a is None or n == 0:
                    continue
                moves.append([regs[i], names[a]])
                widths.append(ws[a] if a < len(ws) else 32)
            for z in zdst:
                if n:
                    moves.append(["zero", regs[z]])
                    widths.append(ws[z])
            involved = {x for m in moves for x in m}
            cand = [r for r in regs if r not in involved] + [extra]
            free = [r for r, b in zip(cand, fmask) if b]
            if fmask[0]:
                free.reverse()
            return moves, widths, free
        mi, wi2, fri = one(INT_POOL, INT_EXTRA, ni, ai, fmi, wi, zd, True)
        mf, wf2, frf = one(FLT_POOL, FLT_EXTRA, nf, af, fmf, wf, [], False)
        total = len(mi) + len(mf)
        perm = sorted(range(total), key=lambda i: (keys[i % len(keys)], i))
        return {"moves": mi, "fmoves": mf, "widths": wi2 + wf2, "free": fri, "ffree": frf,
                "perm": perm, "split": split, "empty_attr": empty_attr}

    return st.tuples(side(INT_POOL, INT_EXTRA, True), side(FLT_POOL, FLT_EXTRA, False),
                     st.lists(st.integers(0, 30), min_size=24, max_size=24),
                     st.booleans() if GEN_SPLIT_VALUES else st.just(False),
                     st.booleans()).map(norm).filter(
                         lambda r: r["moves"] or r["fmoves"])
