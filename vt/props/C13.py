"""C13 — Dead-code elimination removes only unobservable code.

Recipe: {"mod": <irgen recipe over effect kinds>, "entry": "dce" | "greedy" | "canonicalize"}
   or   {"kind": "sem", "prog": <vt.progen program recipe>, "entry": "dce" | "greedy"}   (semantic sub-check)
Oracle: an independent liveness over the recipe's op vocabulary (effect class by op name):
  removable-class ops: test.pureop (pure), test.op_with_memread (read only);
  never removable: test.op / unregistered (unknown effects), test.op_with_memwrite (write),
  test.op_with_symbol (symbol + unknown), test.termop (terminator), builtin.module.
  live = least fixpoint: not removable-class, or some result used by a live op; ops in blocks that
  are unreachable from their region's entry are dead (dce pass only).
"""
from __future__ import annotations

from hypothesis import strategies as st

from vt import canon as C
from vt import invariants, irgen
from vt.run import quiet

ID = "C13"
SHARDS = {"quick": 16, "thorough": 16}
RULE = ("irgen modules over ops with declared effects (pure, read-only, write, unknown/unregistered, "
        "symbol) with unused results, dead chains and dead cycles (graph-region use-before-def), "
        "multi-block CFGs with unreachable blocks, nested regions in dead and live ops; entry points: "
        "the dce pass, the trivial-dead removal of GreedyRewritePatternApplier(dce_enabled) under the "
        "greedy walker, and canonicalize. Oracle: (1) removed ops are a subset of the reference-dead set "
        "(independent liveness by op class + block reachability); (2) after the dce pass no "
        "reference-dead op and no unreachable block remains; (3) surviving ops keep their operands "
        "(no erased value in use), module verifies, invariants hold. Non-trivial: the module has >=1 dead "
        "op and >=1 effectful op with unused results. "
        "Semantic sub-check (kind 'sem'): vt.progen executable func/arith/scf/cf programs with dead code, external "
        "func.call / printf / memref.store / unregistered effect ops whose results are unused; the dce pass or the "
        "greedy trivial-dead removal is applied to a clone and vt.refsem results AND the ordered effect log are "
        "compared before/after on 4 input vectors (refsem.compare_results; POISON/UB/out-of-fuel inputs excluded); "
        "non-trivial there: the pass removed >=1 op, the program has an effectful op without used results and >=1 "
        "input was compared.")
ASSUMPTIONS = ["effect class per op name in the reference table matches the ops' declared traits",
               "semantic sub-check: vt.refsem implements the MLIR semantics of the generated ops; external calls, printf "
               "and unregistered ops are observable effects",
               "pure/read-only ops are generated with only pure/read-only nested ops (a Pure op promises its regions are effect-free)"]

REMOVABLE = {"test.pureop", "test.op_with_memread"}
EFFECTFUL = {"test.op", "test.op_with_memwrite", "test.op_with_symbol", "builtin.unregistered"}


def sanitize(rec, under_pure=False):
    """Rewrite op kinds so that removable-class ops only contain removable-class ops."""
    kinds = irgen.EFFECT_KINDS
    for o in rec:
        k = kinds[o.get("k", 0) % len(kinds)]
        if under_pure and k not in REMOVABLE:
            o["k"] = 0  # test.pureop
            k = "test.pureop"
        for rg in o.get("g", []):
            for b in rg:
                sanitize(b.get("ops", []), under_pure or k in REMOVABLE)


def reachable_blocks(region):
    first = region.first_block
    if first is None:
        return set()
    seen = {id(first)}
    todo = [first]
    while todo:
        b = todo.pop()
        t = b.last_op
        if t is not None:
            for s in t.successors:
                if id(s) not in seen:
                    seen.add(id(s))
                    todo.append(s)
    return seen


def reference_live(module, use_reachability):
    """ids of live ops (least fixpoint)."""
    ops = list(module.walk())
    unreachable_ops = set()
    if use_reachability:
        for o in ops:
            for rg in o.regions:
                reach = reachable_blocks(rg)
                for b in rg.blocks:
                    if id(b) not in reach:
                        for x in b.walk():
                            unreachable_ops.add(id(x))
    # least fixpoint of: live(o) <=> o's parent op is live (the root is) and
    #                              (o is not removable-class, or a result of o is used by a live op)
    # (ops nested in a dead op vanish with it, so their uses of outer values do not count)
    live = {id(module)}
    changed = True
    while changed:
        changed = False
        for o in ops:
            if id(o) in live or id(o) in unreachable_ops:
                continue
            par = o.parent_op()
            if par is not None and id(par) not in live:
                continue
            if o.name not in REMOVABLE or any(id(u.operation) in live for r in o.results for u in r.uses):
                live.add(id(o))
                changed = True
    return live, unreachable_ops


def run(h, r):
    from xdsl.context import Context
    from xdsl.ir import ErasedSSAValue
    from xdsl.pattern_rewriter import GreedyRewritePatternApplier, PatternRewriteWalker
    rec = r["mod"]
    sanitize(rec.get("ops", []))
    with irgen.use_kinds(irgen.EFFECT_KINDS):
        module = irgen.build(rec).module
    module.verify()
    entry = r["entry"]
    ops_before = {id(o): o for o in module.walk()}
    names_before = {k: o.name for k, o in ops_before.items()}
    live, unreach = reference_live(module, use_reachability=(entry in ("dce", "canonicalize")))
    dead = set(ops_before) - live
    has_dead = bool(dead)
    has_effectful_unused = any(o.name in EFFECTFUL and o.results and all(x.first_use is None for x in o.results)
                               for o in ops_before.values())
    nblocks_unreach = 0
    for o in ops_before.values():
        for rg in o.regions:
            nblocks_unreach += len(rg.blocks) - len(reachable_blocks(rg))
    h.case(r, has_dead and has_effectful_unused, label=entry,
           sample={"entry": entry, "ops": len(ops_before), "dead": len(dead), "unreachable_blocks": nblocks_unreach})
    if nblocks_unreach:
        h.count("has_unreachable_block")
    # keep the dead objects alive (ids must not be recycled)
    keep = list(ops_before.values())
    with quiet():
        if entry == "dce":
            from xdsl.transforms.dead_code_elimination import DeadCodeElimination
            DeadCodeElimination().apply(Context(), module)
        elif entry == "greedy":
            PatternRewriteWalker(GreedyRewritePatternApplier([], dce_enabled=True)).rewrite_module(module)
        else:
            from xdsl.transforms.canonicalize import CanonicalizePass
            CanonicalizePass().apply(irgen_ctx(), module)
    after = {id(o) for o in module.walk()}
    removed = set(ops_before) - after
    wrongly = [k for k in removed if k in live]
    if wrongly:
        # report the outermost wrongly removed op (a live op nested in a removed dead op cannot happen by construction)
        nm = sorted({names_before[k] for k in wrongly})
        h.mismatch({"check": "removed_live_op", "entry": entry, "op": nm[0]}, r,
                   f"{entry} removed {len(wrongly)} op(s) that the reference liveness keeps: {nm}")
        return
    for o in module.walk():
        if any(isinstance(v, ErasedSSAValue) for v in o.operands):
            h.mismatch({"check": "erased_value_in_use", "entry": entry, "op": o.name}, r, "surviving op uses an erased value")
            return
    try:
        module.verify()
    except Exception as e:
        h.mismatch({"check": "verify_fails", "entry": entry}, r, str(e)[-300:])
        return
    errs = invariants.check([module])
    if errs:
        h.mismatch({"check": "invariant", "entry": entry, "code": errs[0][0]}, r, str(errs[:3]))
        return
    if entry == "dce":
        live2, unreach2 = reference_live(module, True)
        remaining_dead = [o.name for o in module.walk() if id(o) not in live2]
        if remaining_dead:
            h.mismatch({"check": "dead_op_remains", "entry": entry, "op": sorted(remaining_dead)[0],
                        "in_unreachable_block": bool(unreach2)}, r,
                       f"after dce {len(remaining_dead)} removable op(s) remain: {sorted(set(remaining_dead))}")
            return
        for o in module.walk():
            for rg in o.regions:
                if len(rg.blocks) != len(reachable_blocks(rg)):
                    h.mismatch({"check": "unreachable_block_remains", "entry": entry}, r,
                               f"region of {o.name} keeps an unreachable block after dce")
                    return
    else:
        # greedy trivial-dead removal runs to a fixpoint as well (recursive walker): nothing trivially dead remains
        live2, _ = reference_live(module, False)
        # trivially dead = removable class AND no used result (an effectful / unregistered op nested in a dead
        # but cyclically used -- hence not trivially dead -- parent is not itself trivially dead)
        remaining_dead = [o.name for o in module.walk() if id(o) not in live2 and o.name in REMOVABLE
                          and all(x.first_use is None for x in o.results)]
        if remaining_dead and entry == "greedy":
            h.mismatch({"check": "trivially_dead_remains", "entry": entry, "op": sorted(remaining_dead)[0]}, r,
                       f"{len(remaining_dead)} trivially dead op(s) remain after the greedy walk")
    del keep


_c = {}


def irgen_ctx():
    from vt import corpus
    if "ctx" not in _c:
        _c["ctx"] = corpus.make_ctx()
    return _c["ctx"]


# ---------------------------------------------------------------------------------------------
# semantic sub-check: executable programs, refsem results + ordered effect log before/after
# ---------------------------------------------------------------------------------------------

SEM_EFFECT_OPS = {"func.call", "printf.print_format", "memref.store", "builtin.unregistered"}


def run_sem(h, r):
    from xdsl.context import Context
    from xdsl.pattern_rewriter import GreedyRewritePatternApplier, PatternRewriteWalker
    from vt import progen, refsem
    if "selftest" not in _c:
        refsem.selftest()
        _c["selftest"] = True
    rec = r["prog"]
    entry = r["entry"]
    if entry not in ("dce", "greedy"):
        raise ValueError(f"unknown entry {entry!r}")
    module = progen.build(rec)
    fname, fr = progen.entry(rec)
    vecs = progen.input_vectors(fr, 4, rec.get("inputs"), 64)
    try:
        before = [refsem.run_function(module, fname, v, index_bits=64, fuel=20000) for v in vecs]
    except refsem.UnsupportedOp:
        h.discard("sem_refsem_unsupported")
        return
    work = module.clone()
    ops_before = list(work.walk())
    has_effectful_unused = any(o.name in SEM_EFFECT_OPS and all(x.first_use is None for x in o.results)
                               for o in ops_before)
    crash = None
    with quiet():
        try:
            if entry == "dce":
                from xdsl.transforms.dead_code_elimination import DeadCodeElimination
                DeadCodeElimination().apply(Context(), work)
            else:
                PatternRewriteWalker(GreedyRewritePatternApplier([], dce_enabled=True)).rewrite_module(work)
        except Exception as e:      # reported below, never swallowed
            crash = e
    alive = {id(o) for o in work.walk()}
    removed = sorted({(o.op_name.data if o.name == "builtin.unregistered" else o.name)
                      for o in ops_before if id(o) not in alive})
    rm = "-" if not removed else "+".join(removed) if len(removed) <= 3 else "many"
    removed_effect = sorted(n for n in removed if n in SEM_EFFECT_OPS or n.startswith("unk."))
    if crash is not None:
        h.case(r, False, label="sem:" + entry)
        h.mismatch({"check": "sem_pass_raises", "entry": entry, "exc": type(crash).__name__}, r,
                   f"{entry} raised {crash!r:.300} on\n" + progen.render(module)[:2500])
        return
    try:
        work.verify()
    except Exception as e:
        h.case(r, False, label="sem:" + entry)
        h.mismatch({"check": "sem_verify_fails", "entry": entry, "removed": rm}, r,
                   str(e)[-300:] + "\n" + progen.render(module)[:2500])
        return
    compared = 0
    bad = None
    if removed:
        try:
            after = [refsem.run_function(work, fname, v, index_bits=64, fuel=80000) for v in vecs]
        except refsem.UnsupportedOp as e:
            h.case(r, False, label="sem:" + entry)
            h.mismatch({"check": "sem_not_executable", "entry": entry, "removed": rm}, r,
                       f"output of {entry} is no longer executable: {e}\n" + progen.render(module)[:2500])
            return
        for i, (rb, ra) in enumerate(zip(before, after)):
            verdict, why = refsem.compare_results(rb, ra)
            if verdict == "excluded":
                h.exclude("sem_poison_ub_or_fuel")
                continue
            compared += 1
            if verdict == "differ" and bad is None:
                bad = (i, why)
    nt = bool(removed) and has_effectful_unused and compared > 0
    want = nt and not h._shrinking and len(h.samples) < 6
    h.case(r, nt, label="sem:" + entry,
           sample={"entry": entry, "removed": removed, "ir": progen.render(module)[:1200]} if want else None)
    if removed:
        h.count("sem_removed_something")
    if bad is not None:
        i, why = bad
        kind = "sem_effects_changed" if why.startswith("effect") else "sem_result_changed"
        h.mismatch({"check": kind, "entry": entry,
                    "removed_effect_op": removed_effect[0] if removed_effect else "-"}, r,
                   f"{entry} changed the behaviour on input {vecs[i]!r}: {why}\nremoved op kinds: {removed}\n"
                   + progen.render(module)[:2500])


def sem_recipes():
    from vt import progen
    progs = progen.program_recipes(effects=["call", "print", "memref"], unknown_ops=True, affine=False,
                                   max_funcs=2, size=10, n_inputs=4, index_bits=64)
    return st.fixed_dictionaries({"kind": st.just("sem"), "prog": progs,
                                  "entry": st.sampled_from(["dce", "dce", "greedy"])})


def replay(h, recipe):
    if isinstance(recipe, dict) and recipe.get("kind") == "sem":
        run_sem(h, recipe)
    else:
        run(h, recipe)


def checks(h):
    strat = st.fixed_dictionaries({
        "mod": irgen.module_recipes(depth=2, max_ops=5, max_blocks=4),
        "entry": st.sampled_from(["dce", "dce", "greedy", "canonicalize"]),
    })
    h.hyp("dce", strat, lambda r: run(h, r), h.scale(50, 500), 1)
    h.hyp("dce_semantic", sem_recipes(), lambda r: run_sem(h, r), h.scale(40, 300), 2)
