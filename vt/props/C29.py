"""C29 — Symbol lookup returns the operation the nesting rules designate.

Recipe: {"tree": NODE, "refs": [[name, ...], ...], "derive": bool}
  NODE = ["mod",  name|null, vis|null, [NODE...]]      builtin.module  (symbol table, optional symbol)
       | ["gmod", name,      vis|null, [NODE...]]      gpu.module      (symbol table, symbol)
       | ["func", name,      vis|null, [NODE...]|null] func.func       (symbol, NOT a table; null = declaration)
       | ["test", [[NODE...], ...]]                    test.op with 0..n single-block regions (neither)
       | ["if",   [NODE...], [NODE...]]                scf.if (neither), condition from a test.op
  vis in null|"public"|"private"|"nested" (sym_visibility).  The root NODE is a "mod".
  Names of the symbols that are direct children of one table are made unique by construction
  (`make_tree` renames a repeated name deterministically; the reported recipe is the renamed one),
  because the verifier of the SymbolTable trait rejects redefinitions. Names may repeat freely
  across tables and inside non-table regions.
  "derive": also look up the references derived from the tree (every path of symbol names starting
  in every table, continued through tables AND through func bodies; [non-table child, sibling];
  names of symbols hidden in non-table regions).

Oracle: a resolver over the recipe tree (never looks at xDSL objects), compared by object identity
with what the xDSL entry points return, from every operation of the built module.
"""
from __future__ import annotations

import itertools
import os
import traceback

from hypothesis import strategies as st

ID = "C29"
SHARDS = {"quick": 16, "thorough": 16}
RULE = (
    "Generated: trees of nested builtin.module / gpu.module (symbol tables; named or anonymous; any "
    "sym_visibility), func.func declarations and definitions of visibility absent/public/private/"
    "nested (symbols that are not tables), test.op with regions and scf.if (neither symbol nor "
    "table; lookups start inside them and symbols hidden inside them are not children of the "
    "table), names from a 4-name pool so that names repeat across nesting levels; per-table unique "
    "names by construction; the built module is asserted to verify. References: random flat/nested "
    "(1..4 components, incl. a dangling name) plus all name paths derived from the tree (existing, "
    "through func bodies = through a non-table, [func, sibling], through private symbols, hidden "
    "symbols). Families: a distinct-by-construction enumeration of 9216 three-level core shapes "
    "(kind x visibility of outer/inner/leaf/sibling; the quick tier runs a seed-dependent quarter) "
    "and Hypothesis random trees (two size classes: <=20 and <=6 leaves, up to 4 table levels). "
    "Oracle (own resolver on the recipe tree, MLIR symbol-table rules as restated by the property): "
    "start table = nearest enclosing op with the SymbolTable trait, the start op itself included "
    "(documented for lookup_nearest_symbol_from: 'closest parent operation of, or including, "
    "from_op'; traits.SymbolTable.lookup_symbol is called by its users both on ops inside a table "
    "and on the table op itself expecting a lookup inside it); lookup_symbol_in is only called on "
    "table ops (documented precondition). A flat reference resolves among the DIRECT children of "
    "that table carrying the SymbolOpInterface with that sym_name; a nested reference @r::@n1::.. "
    "resolves @r like a flat one (r may be private: it is local to the table the lookup starts "
    "in), then each further component is looked up among the direct children of the previously "
    "found op, which must itself be a symbol table (else nothing), and a further component whose "
    "sym_visibility is 'private' is refused (nothing) whether it is an intermediate table or the "
    "leaf - 'private symbols reached through nesting' = every component after the root, which is "
    "also what xdsl/utils/symbol_table.py::_lookup_symbol_ref_in and its unit test implement; "
    "'nested' and 'public' are reachable. all_symbols=True must return the chain of ops. Compared "
    "from EVERY op of the module (module.walk(), asserted to be exactly the ops the builder "
    "created): SymbolTable.get_nearest_symbol_table, SymbolTable.lookup_nearest_symbol_from, "
    "SymbolTable.lookup_symbol_in (+all_symbols) [table ops only], traits.SymbolTable.lookup_symbol, "
    "each with str / StringAttr / SymbolRefAttr forms of flat references; SymbolTableCollection."
    "lookup_nearest_symbol_from / lookup_symbol_in (+all_symbols) on one collection queried in "
    "natural order, then again in reverse order with another argument form, and a fresh "
    "collection queried reference-major from the innermost ops outwards; cached result must equal "
    "both the oracle and the direct lookup. Non-trivial module: at least one evaluated (start, "
    "reference) pair is a nested reference that resolves through >=1 table, or stops at a "
    "non-table first/intermediate component, or is refused because of a private nested component.")
ASSUMPTIONS = [
    "the resolver in this file transcribes the MLIR symbol-table rules as restated by the property",
    "a symbol is an op carrying SymbolOpInterface with a sym_name (ops with a bare sym_name "
    "attribute but no interface are not generated: MLIR and xDSL differ on them)",
    "lookups on a module that is not mutated after the first cached query (stale caches out of scope)",
    "root of every generated program is a builtin.module, so a symbol-table ancestor always exists",
]

NAMES = ["a", "b", "c", "d"]
EXTRA_NAMES = ["e", "f", "g", "h", "i", "j", "k", "l", "m", "n", "o", "p"]
VIS = [None, "public", "private", "nested"]
TABLES = ("mod", "gmod")
SYMS = ("mod", "gmod", "func")
MAX_DERIVED = 32
MAX_DEPTH = 4


# ----------------------------------------------------------------------------------------------
# recipe tree
class Node:
    __slots__ = ("kind", "name", "vis", "regions", "parent", "op", "idx")

    def is_table(self):
        return self.kind in TABLES

    def sym(self):
        return self.name if self.kind in SYMS else None

    def describe(self):
        s = {"mod": "builtin.module", "gmod": "gpu.module", "func": "func.func", "test": "test.op",
             "if": "scf.if"}[self.kind]
        if self.name is not None:
            s += f" @{self.name}"
        if self.vis is not None:
            s += f" [{self.vis}]"
        return f"#{self.idx} {s}"


def _fresh(used):
    for n in itertools.chain(NAMES, EXTRA_NAMES):
        if n not in used:
            return n
    i = 0
    while f"s{i}" in used:
        i += 1
    return f"s{i}"


def make_tree(tree):
    """recipe tree -> (root Node, all nodes in preorder). Validates the recipe shape and makes
    the names of the symbols directly inside one table unique."""
    nodes = []

    def mk(t, parent):
        n = Node()
        n.parent, n.op, n.idx = parent, None, len(nodes)
        nodes.append(n)
        kind = t[0]
        n.kind = kind
        n.name = n.vis = None
        if kind in ("mod", "gmod"):
            _, n.name, n.vis, ch = t
            regs = [ch]
            if kind == "gmod" and not isinstance(n.name, str):
                raise ValueError("gpu.module needs a name")
        elif kind == "func":
            _, n.name, n.vis, ch = t
            if not isinstance(n.name, str):
                raise ValueError("func.func needs a name")
            regs = [] if ch is None else [ch]
        elif kind == "test":
            _, regs = t
        elif kind == "if":
            _, th, el = t
            regs = [th, el]
        else:
            raise ValueError(f"bad node kind {kind!r}")
        if n.name is not None and not isinstance(n.name, str):
            raise ValueError("bad name")
        if n.vis not in VIS:
            raise ValueError(f"bad visibility {n.vis!r}")
        n.regions = []
        for r in regs:
            kids = [mk(c, n) for c in r]
            if n.is_table():
                used = set()
                for k in kids:
                    if k.sym() is None:
                        continue
                    if k.name in used:
                        k.name = _fresh(used)
                    used.add(k.name)
            n.regions.append(kids)
        return n

    root = mk(tree, None)
    if root.kind != "mod":
        raise ValueError("root must be a builtin.module")
    return root, nodes


def to_recipe(n):
    if n.kind in TABLES:
        return [n.kind, n.name, n.vis, [to_recipe(c) for c in n.regions[0]]]
    if n.kind == "func":
        return ["func", n.name, n.vis, [to_recipe(c) for c in n.regions[0]] if n.regions else None]
    if n.kind == "test":
        return ["test", [[to_recipe(c) for c in r] for r in n.regions]]
    return ["if", [to_recipe(c) for c in n.regions[0]], [to_recipe(c) for c in n.regions[1]]]


# ----------------------------------------------------------------------------------------------
# the reference resolver (pure, on Nodes)
def nearest_table(n):
    while not n.is_table():
        n = n.parent
    return n


def direct_lookup(table, name):
    for c in table.regions[0]:
        if c.sym() == name:
            return c
    return None


def resolve(table, ref):
    """-> (chain of Nodes or None, reason)."""
    cur = direct_lookup(table, ref[0])
    if cur is None:
        return None, "root_absent"
    chain = [cur]
    for comp in ref[1:]:
        if not cur.is_table():
            return None, "through_non_table"
        nxt = direct_lookup(cur, comp)
        if nxt is None:
            return None, "nested_absent"
        if nxt.vis == "private":
            return None, "private_nested"
        cur = nxt
        chain.append(cur)
    if len(ref) == 1:
        return chain, "found_flat_private" if cur.vis == "private" else "found_flat"
    return chain, "found_nested"


def derive_refs(nodes):
    out = []

    def sym_children(n):
        if n.is_table():
            return [c for c in n.regions[0] if c.sym() is not None]
        if n.kind == "func" and n.regions:
            return [c for c in n.regions[0] if c.sym() is not None]
        return []

    def rec(n, path):
        for c in sym_children(n):
            p = path + [c.name]
            out.append(p)
            if len(p) < MAX_DEPTH:
                rec(c, p)

    for t in nodes:
        if not t.is_table():
            continue
        kids = sym_children(t)
        for x in kids:
            if not x.is_table():
                for y in kids:
                    out.append([x.name, y.name])
        rec(t, [])
    for n in nodes:
        if n.sym() is not None and n.parent is not None and not n.parent.is_table():
            out.append([n.name])
    seen, res = set(), []
    # short references first so that the cap does not drop the [func, sibling] / flat ones
    for p in sorted(out, key=lambda p: (len(p), p)):
        k = tuple(p)
        if k not in seen:
            seen.add(k)
            res.append(p)
    if len(res) > MAX_DERIVED:
        # keep a deterministic spread over lengths
        step = len(res) / MAX_DERIVED
        res = [res[int(i * step)] for i in range(MAX_DERIVED)]
    return res


# ----------------------------------------------------------------------------------------------
# IR builder
def build(root):
    """Builds the module; sets node.op; returns (module, starts) where starts is a list of
    (op, node) pairs covering every op: auxiliary ops (terminators, scf.if condition) are
    attached to the node whose nearest symbol table is theirs."""
    from xdsl.dialects import func, gpu, scf, test
    from xdsl.dialects.builtin import ModuleOp, StringAttr, i1
    from xdsl.ir import Block, Region

    starts = []

    def ops_of(kids):
        out = []
        for k in kids:
            out.extend(mk(k))
        return out

    def mk(n):
        pre = []
        if n.kind == "mod":
            attrs = {"sym_visibility": StringAttr(n.vis)} if n.vis is not None else {}
            op = ModuleOp(ops_of(n.regions[0]), attrs,
                          StringAttr(n.name) if n.name is not None else None)
        elif n.kind == "gmod":
            op = gpu.ModuleOp(StringAttr(n.name), Region(Block(ops_of(n.regions[0]))))
            if n.vis is not None:
                op.attributes["sym_visibility"] = StringAttr(n.vis)
        elif n.kind == "func":
            if n.regions:
                ret = func.ReturnOp()
                starts.append((ret, n))
                region = Region(Block(ops_of(n.regions[0]) + [ret]))
            else:
                region = Region()
            op = func.FuncOp(n.name, ((), ()), region, n.vis)
        elif n.kind == "test":
            regions = []
            for r in n.regions:
                term = test.TestTermOp()
                starts.append((term, n))
                regions.append(Region(Block(ops_of(r) + [term])))
            op = test.TestOp(regions=regions)
        else:
            cond = test.TestOp(result_types=[i1])
            starts.append((cond, n))
            pre.append(cond)
            y1, y2 = scf.YieldOp(), scf.YieldOp()
            starts.append((y1, n))
            starts.append((y2, n))
            op = scf.IfOp(cond.res[0], [], ops_of(n.regions[0]) + [y1], ops_of(n.regions[1]) + [y2])
        n.op = op
        starts.append((op, n))
        return pre + [op]

    (module,) = mk(root)
    return module, starts


# ----------------------------------------------------------------------------------------------
def _where(e):
    for fr in reversed(traceback.extract_tb(e.__traceback__)):
        if "/xdsl/" in fr.filename:
            return f"{os.path.basename(fr.filename)}:{fr.name}"
    return "?"


def _refstr(ref):
    return "::".join("@" + c for c in ref)


def _forms(ref):
    from xdsl.dialects.builtin import StringAttr, SymbolRefAttr
    if len(ref) == 1:
        return [("str", ref[0]), ("StringAttr", StringAttr(ref[0])), ("SymbolRefAttr", SymbolRefAttr(ref[0]))]
    return [("SymbolRefAttr", SymbolRefAttr(ref[0], ref[1:]))]


def run_one(h, recipe, label):
    from xdsl import traits
    from xdsl.utils.symbol_table import SymbolTable, SymbolTableCollection

    root, nodes = make_tree(recipe["tree"])
    tree = to_recipe(root)
    refs = [list(r) for r in recipe.get("refs", [])]
    for r in refs:
        if not r or not all(isinstance(c, str) and c for c in r):
            raise ValueError(f"bad reference {r!r}")
    if recipe.get("derive", False):
        have = {tuple(r) for r in refs}
        refs = refs + [r for r in derive_refs(nodes) if tuple(r) not in have]
    # dedupe, keep order
    seen, urefs = set(), []
    for r in refs:
        if tuple(r) not in seen:
            seen.add(tuple(r))
            urefs.append(r)
    refs = urefs
    ref_forms = [_forms(r) for r in refs]
    norm = {"tree": tree, "refs": refs, "derive": False}

    module, starts = build(root)
    module.verify()  # generator bug if this raises
    walked = list(module.walk())
    assert len(walked) == len(starts) and {id(o) for o in walked} == {id(o) for o, _ in starts}, \
        "builder bookkeeping does not cover every op of the module"
    node_of = {id(o): n for o, n in starts}
    starts = [(o, node_of[id(o)]) for o in walked]  # program order, module first

    ir_text = None

    def ir():
        nonlocal ir_text
        if ir_text is None:
            ir_text = str(module)
        return ir_text

    def opdesc(op):
        if op is None:
            return "None"
        if isinstance(op, list):
            return "[" + ", ".join(opdesc(o) for o in op) + "]"
        if isinstance(op, BaseException):
            return f"raised {type(op).__name__}: {op}"
        n = node_of.get(id(op))
        own = n is not None and n.op is op
        return (n.describe() if own else f"{op.name} (inside {n.describe()})") if n else repr(op)

    def report(check, form, reason, exp, got, start_i, ref, full=False):
        if isinstance(got, BaseException):
            cls = f"exception:{type(got).__name__}@{_where(got)}"
        elif got is None:
            cls = "none"
        elif exp is None:
            cls = "op"
        elif isinstance(got, list):
            cls = "wrong_chain"
        else:
            cls = "wrong_op"
        sig = {"check": check, "form": form, "expected": reason, "got": cls}
        if h.known_for(sig) is not None:
            h.mismatch(sig, None, "")  # counted as a known hit; skip rendering the detail
            return
        so, sn = starts[start_i]
        rec = norm if full else {"tree": tree, "refs": [ref], "derive": False}
        h.mismatch(sig, rec,
                   f"{check}({opdesc(so)}, {_refstr(ref)} as {form}): got {opdesc(got)}, "
                   f"expected {opdesc(exp)} ({reason}; start table {nearest_table(sn).describe()})\n{ir()}")

    def call(fn, *a, **kw):
        try:
            return fn(*a, **kw)
        except Exception as e:  # reported as a mismatch by the caller, never swallowed
            return e

    def same(got, exp):
        if isinstance(exp, list):
            return isinstance(got, list) and len(got) == len(exp) and all(
                g is e for g, e in zip(got, exp))
        return got is exp

    reasons = {}
    direct_near, direct_in = {}, {}  # (start_i, ref_i, form_i) -> result of the direct lookup
    expected = {}  # (start_i, ref_i) -> (exp_op, exp_chain, reason)
    n_lookups = 0

    # ---- direct APIs ---------------------------------------------------------------------------
    for si, (op, node) in enumerate(starts):
        tnode = nearest_table(node)
        got = call(SymbolTable.get_nearest_symbol_table, op)
        if got is not tnode.op:
            report("utils.get_nearest_symbol_table", "-", "nearest_table", tnode.op, got, si, ["-"])
        is_table = node.op is op and node.is_table()
        for ri, ref in enumerate(refs):
            chain, reason = resolve(tnode, ref)
            exp_chain = [c.op for c in chain] if chain is not None else None
            exp = exp_chain[-1] if exp_chain is not None else None
            expected[(si, ri)] = (exp, exp_chain, reason)
            reasons[reason] = reasons.get(reason, 0) + 1
            for fi, (form, attr) in enumerate(ref_forms[ri]):
                got = call(SymbolTable.lookup_nearest_symbol_from, op, attr)
                direct_near[(si, ri, fi)] = got
                n_lookups += 1
                if not same(got, exp):
                    report("utils.lookup_nearest_symbol_from", form, reason, exp, got, si, ref)
                got = call(traits.SymbolTable.lookup_symbol, op, attr)
                n_lookups += 1
                if not same(got, exp):
                    report("traits.lookup_symbol", form, reason, exp, got, si, ref)
                if is_table:
                    got = call(SymbolTable.lookup_symbol_in, op, attr)
                    direct_in[(si, ri, fi)] = got
                    n_lookups += 1
                    if not same(got, exp):
                        report("utils.lookup_symbol_in", form, reason, exp, got, si, ref)
                    got = call(SymbolTable.lookup_symbol_in, op, attr, all_symbols=True)
                    n_lookups += 1
                    if not same(got, exp_chain):
                        report("utils.lookup_symbol_in[all_symbols]", form, reason, exp_chain, got, si, ref)

    # ---- cached collection: repeated queries, different orders ----------------------------------
    pairs = [(si, ri) for si in range(len(starts)) for ri in range(len(refs))]
    c1, c2 = SymbolTableCollection(), SymbolTableCollection()
    plans = [
        ("pass1_natural", c1, pairs, 0),
        ("pass2_reversed_same_collection", c1, pairs[::-1], 1),
        ("pass3_fresh_ref_major_inner_first", c2,
         sorted(pairs, key=lambda p: (p[1], -p[0])), 2),
    ]
    for pname, coll, order, fsel in plans:
        for si, ri in order:
            op, node = starts[si]
            ref = refs[ri]
            exp, exp_chain, reason = expected[(si, ri)]
            forms = ref_forms[ri]
            fi = fsel % len(forms)
            form, attr = forms[fi]
            got = call(coll.lookup_nearest_symbol_from, op, attr)
            n_lookups += 1
            if not same(got, exp):
                report("collection.lookup_nearest_symbol_from", form, reason, exp, got, si, ref, full=True)
            direct = direct_near[(si, ri, fi)]
            if not (same(got, direct) or (isinstance(got, BaseException) and type(got) is type(direct))):
                report("cache_vs_direct.lookup_nearest_symbol_from", form, reason, direct, got, si, ref, full=True)
            if node.op is op and node.is_table():
                got = call(coll.lookup_symbol_in, op, attr)
                n_lookups += 1
                if not same(got, exp):
                    report("collection.lookup_symbol_in", form, reason, exp, got, si, ref, full=True)
                direct = direct_in[(si, ri, fi)]
                if not (same(got, direct) or (isinstance(got, BaseException) and type(got) is type(direct))):
                    report("cache_vs_direct.lookup_symbol_in", form, reason, direct, got, si, ref, full=True)
                got = call(coll.lookup_symbol_in, op, attr, all_symbols=True)
                n_lookups += 1
                if not same(got, exp_chain):
                    report("collection.lookup_symbol_in[all_symbols]", form, reason, exp_chain, got, si, ref, full=True)
    # the collection must only ever have built tables for symbol-table ops of this module
    table_ops = {id(n.op) for n in nodes if n.is_table()}
    for coll in (c1, c2):
        for t in coll.symbol_tables:
            if id(t) not in table_ops:
                h.mismatch({"check": "collection.tables", "got": "table_for_non_table_op"}, norm,
                           f"collection cached a SymbolTable for {opdesc(t)}\n{ir()}")

    nontrivial = any(reasons.get(k) for k in ("found_nested", "through_non_table", "private_nested"))
    for k in sorted(reasons):
        h.count("pairs_" + k, reasons[k])
    h.count("lookups", n_lookups)
    h.count("start_ops", len(starts))
    depth = max(_tdepth(n) for n in nodes)
    sample = None
    if nontrivial and len(h.samples) < 6 and len(ir()) < 1200:
        sample = {"recipe": norm if len(refs) <= 8 else {"tree": tree, "refs": refs[:8], "derive": True},
                  "ir": ir()}
    h.case(norm, nontrivial, label=f"{label}_table_depth{min(depth, 4)}", sample=sample)


def _tdepth(n):
    d = 0
    while n is not None:
        if n.is_table():
            d += 1
        n = n.parent
    return d


def replay(h, recipe):
    run_one(h, recipe, "replay")


# ----------------------------------------------------------------------------------------------
# generators
def core_shapes():
    """Distinct-by-construction enumeration of three-level shapes:
    module { X @a (vx) { Y @a|@b (vy) { func @c (vz) } } ; S @b (vs) ; test.op({test.op}) }"""
    for kx, vx, ky, vy, ny, vz, ks, vs in itertools.product(
            ("funcdef", "mod", "gmod"), VIS, ("funcdecl", "funcdef", "mod"), VIS, ("a", "b"), VIS,
            ("funcdecl", "mod"), VIS):
        z = ["func", "c", vz, None]
        if ky == "funcdecl":
            y = ["func", ny, vy, None]
        elif ky == "funcdef":
            y = ["func", ny, vy, [z]]
        else:
            y = ["mod", ny, vy, [z]]
        if kx == "funcdef":
            x = ["func", "a", vx, [y]]
        else:
            x = [kx, "a", vx, [y]]
        s = ["func", "b", vs, None] if ks == "funcdecl" else ["mod", "b", vs, [["func", "c", None, None]]]
        yield {"tree": ["mod", None, None, [x, s, ["test", [[["test", []]]]]]],
               "refs": [["a", ny, "c"], ["a", "a"], ["b", "c"], ["zz"], ["a", "zz"], ["c"]],
               "derive": True}


def tree_strategy(max_leaves):
    name = st.sampled_from(NAMES)
    vis = st.sampled_from([None, "private", "nested", "public", "private"])
    leaf = st.one_of(
        st.builds(lambda n, v: ["func", n, v, None], name, vis),
        st.builds(lambda n, v: ["func", n, v, []], name, vis),
        st.just(["test", []]),
        st.builds(lambda n, v: ["mod", n, v, []], name, vis),
    )

    def extend(node):
        kids = st.lists(node, min_size=1, max_size=4)
        return st.one_of(
            st.builds(lambda n, v, c: ["mod", n, v, c], st.one_of(name, name, st.none()), vis, kids),
            st.builds(lambda n, v, c: ["mod", n, v, c], name, vis, kids),
            st.builds(lambda n, v, c: ["gmod", n, v, c], name, vis, kids),
            st.builds(lambda n, v, c: ["func", n, v, c], name, vis, kids),
            st.builds(lambda c: ["test", [c]], kids),
            st.builds(lambda c, d: ["test", [c, d]], kids, st.lists(node, max_size=2)),
            st.builds(lambda c, d: ["if", c, d], kids, st.lists(node, max_size=2)),
        )

    node = st.recursive(leaf, extend, max_leaves=max_leaves)
    root = st.builds(lambda n, c: ["mod", n, None, c], st.one_of(st.none(), name),
                     st.lists(node, min_size=1, max_size=5))
    refs = st.lists(st.lists(st.sampled_from(NAMES + ["zz"]), min_size=1, max_size=4), max_size=6)
    return st.builds(lambda t, r: {"tree": t, "refs": r, "derive": True}, root, refs)


def checks(h):
    for i, rec in enumerate(core_shapes()):
        if i % h.nshards != h.shard:
            continue
        if h.quick and (i // h.nshards) % 4 != (h.seed % 4):
            continue  # quick tier: a seed-dependent quarter of the enumeration
        run_one(h, rec, "core")

    def body(rec):
        run_one(h, rec, "random")

    h.hyp("random_trees", tree_strategy(20), body, h.scale(40, 2500), 1)
    h.hyp("random_small_trees", tree_strategy(6), body, h.scale(40, 2500), 2)
