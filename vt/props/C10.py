"""C10 — IRDL operation verification matches the operation definition.

Recipe kinds
------------
{"kind": "def", "def": D, "instances": [I, ...]}
    D = {"operand": {"defs": [[kind, constr], ...], "opt": OPT},
         "result":  {"defs": [[kind, constr], ...], "opt": OPT},
         "region":  {"defs": [[kind, constr, single_block(0/1)], ...], "opt": OPT},
         "successor": {"defs": [[kind], ...], "opt": OPT},
         "props": [[mode, constr, default_idx|null], ...], "attrs": [[mode, constr, default_idx|null], ...]}
      kind in single/optional/variadic; OPT in none/attr_sized_prop/attr_sized_attr/same_size;
      constr in any/int/i32/T/U (props/attrs also arrN/arrM: ArrayAttr whose length is the int variable N/M);
      mode in req/opt/dflt/optdflt.
      Optional extra last element of a non-single operand/result def (3rd) or of any region def (4th): a LENGTH
      constraint ["N"] (IntVarConstraint N over AnyInt) | ["M"] (IntVarConstraint M over AtLeast(1)) |
      ["ge", k] | ["le", k] | ["eq", k], built as RangeOf(constr).of_length(...); for operands/results it constrains
      the segment length, for regions the number of entry-block arguments of every non-empty region of the def.
      Field names: operands o<j>, results r<j>, regions g<j>, successors s<j>, properties p<j>, attributes a<j>.
    I (arbitrary instance) =
        {"via": "create", "operand": [tidx...], "result": [tidx...], "region": [[[tidx...] per block] per region],
         "successor": [block idx...], "props": [[name, val]...], "attrs": [[name, val]...],
         "del_props": [name...], "del_attrs": [name...]}
      val = ["u", idx] (universe attribute) | ["d32", [ints]] | ["d64", [ints]] (dense arrays)
    I (constructor instance) =
        {"via": "build"|"init", "operand": [arg...], "result": [arg...], "region": [rarg...], "successor": [arg...],
         "props": [[name, val|null]...], "attrs": [[name, val|null]...]}
      arg = idx | null | [idx...];  rarg = {"b": [[tidx...]...]} | null | [{"b": ...}...]
{"kind": "corpus", "key": "<relpath>#<chunk>", "index": i, "op": name}
    the i-th op (walk order) of a verifying corpus chunk.

The oracle is the reference segmenter / constraint evaluator below; it never looks at xdsl objects for
generated instances (it reads the recipe), and only at list lengths, definition kinds and the decoded
segment-size array for corpus ops.
"""
from __future__ import annotations

import re

from hypothesis import strategies as st

ID = "C10"
SHARDS = {"quick": 16, "thorough": 16}
RULE = ("Hypothesis-generated IRDL operation definitions synthesised at run time (type() + irdl_op_definition): "
        "0-4 operand/result and 0-3 region/successor defs of kind single/optional/variadic, one segment option per "
        "construct (none / AttrSized*Segments as property / as attribute / SameVariadic*Size), 0-3 properties and "
        "attributes (required/optional/defaulted/optional-with-default), constraints from {AnyAttr, "
        "BaseAttr(IntegerType), EqAttrConstraint(i32), VarConstraint T over anything, VarConstraint U over integer "
        "types} on operands, results, region entry arguments, properties and attributes; single-block region defs. "
        "Definitions the frontend rejects (two non-single defs without option) are discarded. Per definition 3-8 "
        "instances: (i) Operation.create instances derived from a valid skeleton by 0-2 mutations (list length, "
        "segment array entry/shift/length/type/missing/wrong dictionary, element type, property dropped/wrong/"
        "unknown/deleted after creation, region block count/arguments); (ii) Cls.build(...)/Cls(...) instances from "
        "per-definition arguments satisfying the definition by construction. Oracle: independent reference "
        "segmenter (single=1, optional=0/1, variadic>=0; attr-sized: dense i32 array with one entry per def, "
        "kind-compatible, non-negative, summing to the list length; same-size: all non-single defs share one "
        "size, exact division; no option: the unique non-single def takes the rest) followed by constraint "
        "evaluation in declaration order with one variable context; op.verify() accepts <=> reference accepts; "
        "constructor-built instances verify, carry the reference segment sizes and the passed lists in order; every "
        "generated accessor returns exactly the reference segment (value / value-or-None / sequence) on instances "
        "that verify. Corpus: every IRDLOperation instance of every verifying .mlir chunk must be segmentable by "
        "the reference and its accessors must return the reference segments. Non-trivial: the definition has >=2 "
        "non-single defs of one construct or a segment option.")
ASSUMPTIONS = ["the reference segmenter and constraint evaluator (written from the property statement) are correct",
               "Operation.create/TestOp/Block/Region build the flat lists they are given",
               "DenseArrayBase.get_values() decodes the segment array correctly (used for corpus ops and to read "
               "back constructor-made arrays only)",
               "unknown properties are rejected and unknown attributes accepted (documented in the verifier's message)"]

CONSTRUCTS = ("operand", "result", "region", "successor")
KINDS = ("single", "optional", "variadic")
OPTS = ("none", "attr_sized_prop", "attr_sized_attr", "same_size")
CONSTRS = ("any", "int", "i32", "T", "U")
PROP_CONSTRS = CONSTRS + ("arrN", "arrM")
MODES = ("req", "opt", "dflt", "optdflt")
SEGNAME = {"operand": "operandSegmentSizes", "result": "resultSegmentSizes",
           "region": "regionSegmentSizes", "successor": "successorSegmentSizes"}
PREFIX = {"operand": "o", "result": "r", "region": "g", "successor": "s"}
NTYPES = 5          # universe indices 0..4 are types (0,1,2 integer types), 5..8 other attributes,
NUNIV = 12          # 9..11 ArrayAttr of length 0, 1, 2
ARR0 = 9
INTS = (0, 1, 2)
NBLOCKS = 3         # blocks of the region the instance is placed in (successor targets)


# ------------------------------------------------------------------------------------------------
# universe / real-object builders
_UNIV = None


def universe():
    global _UNIV
    if _UNIV is None:
        from xdsl.dialects.builtin import (IndexType, IntegerAttr, StringAttr, UnitAttr, f32, i1, i32,
                                           i64)
        from xdsl.dialects.builtin import ArrayAttr
        _UNIV = [i32, i64, i1, f32, IndexType(), StringAttr("s"), UnitAttr(), IntegerAttr(1, i32),
                 IntegerAttr(1, i64), ArrayAttr([]), ArrayAttr([i32]), ArrayAttr([i32, i64])]
    return _UNIV


def real_val(v):
    """val recipe -> Attribute."""
    from xdsl.dialects.builtin import DenseArrayBase, i32, i64
    tag, x = v
    if tag == "u":
        return universe()[x]
    if tag == "d32":
        return DenseArrayBase.from_list(i32, [int(i) for i in x])
    if tag == "d64":
        return DenseArrayBase.from_list(i64, [int(i) for i in x])
    raise ValueError(f"bad val {v!r}")


def real_constr(c):
    from xdsl.dialects.builtin import IntegerType, i32
    from xdsl.irdl import AnyAttr, BaseAttr, EqAttrConstraint, VarConstraint
    if c == "any":
        return AnyAttr()
    if c == "int":
        return BaseAttr(IntegerType)
    if c == "i32":
        return EqAttrConstraint(i32)
    if c == "T":
        return VarConstraint("T", AnyAttr())
    if c == "U":
        return VarConstraint("U", BaseAttr(IntegerType))
    if c in ("arrN", "arrM"):
        from xdsl.dialects.builtin import ArrayAttr
        from xdsl.irdl import RangeOf
        return ArrayAttr.constr(RangeOf(AnyAttr()).of_length(real_int_constr([c[-1]])))
    raise ValueError(f"bad constraint {c!r}")


def real_int_constr(spec):
    from xdsl.irdl import AnyInt, AtLeast, AtMost, EqIntConstraint, IntVarConstraint
    if spec[0] == "N":
        return IntVarConstraint("N", AnyInt())
    if spec[0] == "M":
        return IntVarConstraint("M", AtLeast(1))
    if spec[0] == "ge":
        return AtLeast(int(spec[1]))
    if spec[0] == "le":
        return AtMost(int(spec[1]))
    if spec[0] == "eq":
        return EqIntConstraint(int(spec[1]))
    raise ValueError(f"bad length constraint {spec!r}")


def len_spec(c, d):
    """Length-constraint spec of a def recipe entry, or None (old recipes have none)."""
    n = 4 if c == "region" else 3
    if c == "successor" or len(d) < n or d[n - 1] is None:
        return None
    return d[n - 1]


def def_constr(c, d):
    """Constraint object handed to operand_def/result_def/region_def(entry_args=...)."""
    spec = len_spec(c, d)
    if spec is None:
        return real_constr(d[1])
    from xdsl.irdl import RangeOf
    return RangeOf(real_constr(d[1])).of_length(real_int_constr(spec))


def int_sat(spec, n, ienv):
    """Reference evaluation of a length constraint on length n with the shared int context ienv
    (declaration order, bound on first use; 0 is a value like any other). -> why | None"""
    if spec is None:
        return None
    k = spec[0]
    if k in ("N", "M"):
        if k in ienv:
            return None if ienv[k] == n else "length_variable_mismatch_" + k
        if k == "M" and n < 1:
            return "length_variable_base_M"
        ienv[k] = n
        return None
    if k == "ge":
        return None if n >= spec[1] else "length_lt_min"
    if k == "le":
        return None if n <= spec[1] else "length_gt_max"
    if k == "eq":
        return None if n == spec[1] else "length_ne_exact"
    raise ValueError(f"bad length constraint {spec!r}")


def check_def(D):
    """Validate the shape of a definition recipe (malformed recipes only arise while shrinking)."""
    for c in CONSTRUCTS:
        if D[c]["opt"] not in OPTS:
            raise ValueError("opt")
        for d in D[c]["defs"]:
            if d[0] not in KINDS:
                raise ValueError("kind")
            if c != "successor" and d[1] not in CONSTRS:
                raise ValueError("constr")
            if c == "region" and d[2] not in (0, 1):
                raise ValueError("single_block")
            spec = len_spec(c, d)
            if spec is not None:
                if c != "region" and d[0] == "single":
                    raise ValueError("length constraint on a single operand/result def")
                if spec[0] not in ("N", "M", "ge", "le", "eq") or (
                        spec[0] in ("ge", "le", "eq") and not isinstance(spec[1], int)):
                    raise ValueError("length spec")
    for key in ("props", "attrs"):
        for m, c, dv in D[key]:
            if m not in MODES or c not in PROP_CONSTRS:
                raise ValueError("prop")
            if (m in ("dflt", "optdflt")) != (dv is not None):
                raise ValueError("default")
            if dv is not None and not 0 <= dv < NUNIV:
                raise ValueError("default idx")


def synth(D):
    """Definition recipe -> IRDL operation class (may raise PyRDLOpDefinitionError)."""
    from xdsl import irdl
    from xdsl.irdl import IRDLOperation, irdl_op_definition, traits_def
    from xdsl.irdl import operations as O
    from xdsl.traits import IsTerminator
    ns: dict = {"name": "c10.op"}
    mk = {"operand": {"single": irdl.operand_def, "optional": irdl.opt_operand_def,
                      "variadic": irdl.var_operand_def},
          "result": {"single": irdl.result_def, "optional": irdl.opt_result_def,
                     "variadic": irdl.var_result_def},
          "region": {"single": irdl.region_def, "optional": irdl.opt_region_def,
                     "variadic": irdl.var_region_def},
          "successor": {"single": irdl.successor_def, "optional": irdl.opt_successor_def,
                        "variadic": irdl.var_successor_def}}
    for c in ("operand", "result"):
        for j, d in enumerate(D[c]["defs"]):
            ns[f"{PREFIX[c]}{j}"] = mk[c][d[0]](def_constr(c, d))
    for j, d in enumerate(D["region"]["defs"]):
        ns[f"g{j}"] = mk["region"][d[0]]("single_block" if d[2] else None, entry_args=def_constr("region", d))
    for j, d in enumerate(D["successor"]["defs"]):
        ns[f"s{j}"] = mk["successor"][d[0]]()
    for key, pre, req, opt in (("props", "p", irdl.prop_def, irdl.opt_prop_def),
                               ("attrs", "a", irdl.attr_def, irdl.opt_attr_def)):
        for j, (m, c, dv) in enumerate(D[key]):
            default = None if dv is None else universe()[dv]
            fn = opt if m in ("opt", "optdflt") else req
            ns[f"{pre}{j}"] = fn(real_constr(c), default) if default is not None else fn(real_constr(c))
    options = []
    optcls = {"operand": (O.AttrSizedOperandSegments, O.SameVariadicOperandSize),
              "result": (O.AttrSizedResultSegments, O.SameVariadicResultSize),
              "region": (O.AttrSizedRegionSegments, O.SameVariadicRegionSize),
              "successor": (O.AttrSizedSuccessorSegments, O.SameVariadicSuccessorSize)}
    for c in CONSTRUCTS:
        o = D[c]["opt"]
        if o == "attr_sized_prop":
            options.append(optcls[c][0](as_property=True))
        elif o == "attr_sized_attr":
            options.append(optcls[c][0]())
        elif o == "same_size":
            options.append(optcls[c][1]())
    if options:
        ns["irdl_options"] = tuple(options)
    # every generated op is a terminator so that it can sit at the end of a block of a multi-block region
    # (needed for successors) without tripping the generic, non-IRDL placement checks of Operation.verify
    ns["traits"] = traits_def(IsTerminator())
    return irdl_op_definition(type("C10GenOp", (IRDLOperation,), ns))


def nonsingle(D, c):
    return sum(1 for d in D[c]["defs"] if d[0] != "single")


def nvar_class(D, c):
    n = nonsingle(D, c)
    return str(n) if n < 2 else "2+"


def def_nontrivial(D):
    return any(D[c]["opt"] != "none" or nonsingle(D, c) >= 2 for c in CONSTRUCTS)


def frontend_must_reject(D):
    return any(D[c]["opt"] == "none" and nonsingle(D, c) >= 2 for c in CONSTRUCTS)


# ------------------------------------------------------------------------------------------------
# reference: segmentation
def ref_split(kinds, opt, n, seg):
    """-> (sizes, None) or (None, why). seg: None (absent) | ("d32", ints) | (other tag, ...)."""
    nd = len(kinds)
    nv = sum(1 for k in kinds if k != "single")
    if opt in ("attr_sized_prop", "attr_sized_attr"):
        if seg is None:
            return None, "missing_segment_sizes"
        if seg[0] != "d32":
            return None, "segment_sizes_wrong_type"
        sizes = list(seg[1])
        if len(sizes) != nd:
            return None, "wrong_length"
        for k, s in zip(kinds, sizes):
            if s < 0:
                return None, "negative_size"
            if k == "single" and s != 1:
                return None, "single_ne_1"
            if k == "optional" and s > 1:
                return None, "optional_gt_1"
        if sum(sizes) != n:
            return None, "sizes_do_not_sum"
        return sizes, None
    if nv == 0:
        return ([1] * nd, None) if n == nd else (None, "count_mismatch")
    if opt == "same_size":
        rest = n - (nd - nv)
        if rest < 0:
            return None, "too_few"
        if rest % nv:
            return None, "same_size_no_exact_split"
        k = rest // nv
        if k > 1 and "optional" in kinds:
            return None, "optional_gt_1"
        return [1 if kd == "single" else k for kd in kinds], None
    if nv > 1:
        raise AssertionError("no option and several non-single defs: definition should have been rejected")
    k = n - (nd - 1)
    if k < 0:
        return None, "too_few"
    if k > 1 and "optional" in kinds:
        return None, "too_many"
    return [1 if kd == "single" else k for kd in kinds], None


def effective_dicts(D, I):
    """Properties / attributes the op carries when verify runs (recipe level)."""
    out = []
    for key, delkey, pre in (("props", "del_props", "p"), ("attrs", "del_attrs", "a")):
        d = {}
        for name, v in I[key]:
            if v is not None:
                d[name] = v
        for j, (m, c, dv) in enumerate(D[key]):
            if m == "dflt" and f"{pre}{j}" not in d:     # documented: defaults are filled in at construction
                d[f"{pre}{j}"] = ["u", dv]
        for name in I.get(delkey, []):
            d.pop(name, None)
        out.append(d)
    return out


def seg_value(D, c, props, attrs):
    o = D[c]["opt"]
    if o == "attr_sized_prop":
        v = props.get(SEGNAME[c])
    elif o == "attr_sized_attr":
        v = attrs.get(SEGNAME[c])
    else:
        return None
    if v is None:
        return None
    return (v[0], v[1])


def reference(D, I):
    """Flat instance -> {"sizes": {construct: sizes|None}, "reasons": [(construct, option, why)]}."""
    props, attrs = effective_dicts(D, I)
    sizes, reasons = {}, []
    for c in CONSTRUCTS:
        kinds = [d[0] for d in D[c]["defs"]]
        s, why = ref_split(kinds, D[c]["opt"], len(I[c]), seg_value(D, c, props, attrs))
        sizes[c] = s
        if why:
            reasons.append((c, D[c]["opt"], why))
    if reasons:
        return {"sizes": sizes, "reasons": reasons, "props": props, "attrs": attrs}
    env: dict = {}
    ienv: dict = {}      # shared integer (length) variables
    first: list = []     # first constraint failure (later ones may be consequences)
    struct: list = []    # failures that do not depend on the variable context

    def length(spec, n, construct):
        if first:
            return
        why = int_sat(spec, n, ienv)
        if why:
            first.append((construct, D[construct]["opt"] if construct in CONSTRUCTS else "-", why))

    def sat(constr, idx, construct):
        if first:
            return
        why = None
        if constr in ("arrN", "arrM"):
            if idx < ARR0:
                why = "not_array"
            else:
                length([constr[-1]], idx - ARR0, construct)
        elif constr == "int":
            why = None if idx in INTS else "not_integer_type"
        elif constr == "i32":
            why = None if idx == 0 else "not_i32"
        elif constr in ("T", "U"):
            if constr in env:
                why = None if env[constr] == idx else "variable_mismatch_" + constr
            elif constr == "U" and idx not in INTS:
                why = "variable_base_U"
            else:
                env[constr] = idx
        if why:
            first.append((construct, D[construct]["opt"] if construct in CONSTRUCTS else "-", why))

    for c in ("operand", "result"):
        off = 0
        for d, s in zip(D[c]["defs"], sizes[c]):
            length(len_spec(c, d), s, c)       # the segment length (0 for an absent optional) is checked first
            for idx in I[c][off:off + s]:
                sat(d[1], idx, c)
            off += s
    off = 0
    for d, s in zip(D["region"]["defs"], sizes["region"]):
        for blocks in I["region"][off:off + s]:
            if d[2] and len(blocks) != 1:
                struct.append(("region", D["region"]["opt"], "not_single_block"))
            if blocks:
                length(len_spec("region", d), len(blocks[0]), "region")
                for idx in blocks[0]:
                    sat(d[1], idx, "region")
        off += s
    for key, pre, have, cname in (("props", "p", props, "prop"), ("attrs", "a", attrs, "attr")):
        declared = set()
        for j, (m, cn, dv) in enumerate(D[key]):
            name = f"{pre}{j}"
            declared.add(name)
            if name not in have:
                if m in ("req", "dflt"):
                    struct.append((cname, "-", "missing_required"))
                continue
            v = have[name]
            if v[0] != "u":
                raise ValueError("declared properties/attributes only take universe values in recipes")
            sat(cn, v[1], cname)
        if key == "props":
            for c in CONSTRUCTS:
                if D[c]["opt"] == "attr_sized_prop":
                    declared.add(SEGNAME[c])
            for name in have:
                if name not in declared:
                    struct.append(("prop", "-", "unknown_property"))
    return {"sizes": sizes, "reasons": struct + first, "props": props, "attrs": attrs}


# ------------------------------------------------------------------------------------------------
# constructor arguments -> flat instance (reference view)
class NotSatisfying(Exception):
    pass


def args_to_flat(D, I):
    """Per-definition constructor arguments -> flat create-style instance with the segment arrays the
    constructor must produce. Raises NotSatisfying when the arguments do not satisfy the definition."""
    flat = {"via": "create", "del_props": [], "del_attrs": []}
    sizes = {}
    for c in CONSTRUCTS:
        defs = D[c]["defs"]
        args = I[c]
        if len(args) != len(defs):
            raise NotSatisfying("arity")
        out, ss = [], []
        for d, a in zip(defs, args):
            if c == "region":
                if isinstance(a, dict):
                    piece = [a["b"]]
                    form = "one"
                elif a is None:
                    piece, form = [], "none"
                else:
                    piece, form = [x["b"] for x in a], "list"
            else:
                if isinstance(a, bool):
                    raise NotSatisfying("bool")
                if isinstance(a, int):
                    piece, form = [a], "one"
                elif a is None:
                    piece, form = [], "none"
                else:
                    piece, form = list(a), "list"
            k = d[0]
            if k == "single" and form != "one":
                raise NotSatisfying("single needs one value")
            if k == "optional" and (len(piece) > 1):
                raise NotSatisfying("optional > 1")
            if k == "variadic" and form != "list":
                raise NotSatisfying("variadic needs a list")
            out.extend(piece)
            ss.append(len(piece))
        if D[c]["opt"] == "same_size":
            vs = [s for d, s in zip(defs, ss) if d[0] != "single"]
            if any(s != vs[0] for s in vs[1:]):
                raise NotSatisfying("same size")
        flat[c] = out
        sizes[c] = ss
    for key in ("props", "attrs"):
        flat[key] = [[n, v] for n, v in I[key] if v is not None]
        if any(n in SEGNAME.values() for n, _ in flat[key]):
            raise NotSatisfying("caller supplies segment sizes")
    for c in CONSTRUCTS:
        if D[c]["opt"] == "attr_sized_prop":
            flat["props"].append([SEGNAME[c], ["d32", sizes[c]]])
        elif D[c]["opt"] == "attr_sized_attr":
            flat["attrs"].append([SEGNAME[c], ["d32", sizes[c]]])
    ref = reference(D, flat)
    if ref["reasons"]:
        raise NotSatisfying(str(ref["reasons"][0]))
    if ref["sizes"] != sizes:
        raise AssertionError(f"reference sizes {ref['sizes']} differ from argument sizes {sizes}")
    return flat, ref


# ------------------------------------------------------------------------------------------------
# real side
def mk_region(blocks):
    from xdsl.dialects.test import TestTermOp
    from xdsl.ir import Block, Region
    u = universe()
    # every block ends in a terminator so that the generic block checks hold whatever the block count
    return Region([Block([TestTermOp.create()], arg_types=[u[i] for i in bl]) for bl in blocks])


def mk_values(idxs):
    from xdsl.dialects.test import TestOp
    u = universe()
    for i in idxs:
        if not 0 <= i < NTYPES:
            raise ValueError("operand type index")
    return list(TestOp.create(result_types=[u[i] for i in idxs]).results)


def place(op):
    """Put op at the end of the first block of a fresh 3-block region; returns the blocks."""
    from xdsl.ir import Block, Region
    blocks = [Block() for _ in range(NBLOCKS)]
    Region(blocks)
    return blocks


def crash_info(e):
    """(construct, innermost xdsl frame) of a non-diagnostic exception. The construct is read from the
    accessor descriptor on the stack (BaseAccessor / BaseAttrAccessor carry it), if there is one."""
    tb = e.__traceback__
    construct, at = "unknown", "?"
    while tb is not None:
        f = tb.tb_frame
        if "/xdsl/" in f.f_code.co_filename:
            at = f"{f.f_code.co_filename.split('/xdsl/')[-1]}:{f.f_code.co_qualname}"
            c = getattr(f.f_locals.get("self"), "construct", None)
            if c is not None and hasattr(c, "name"):
                construct = str(c.name).lower()
        tb = tb.tb_next
    return construct, at


def run_verify(op):
    """-> ("ok", "", None) | ("reject", msg, None) | ("crash:<Exc>", msg, (construct, at))"""
    from xdsl.utils.exceptions import DiagnosticException, VerifyException
    from vt.run import quiet
    try:
        with quiet():
            op.verify()
        return "ok", "", None
    except (VerifyException, DiagnosticException) as e:
        return "reject", str(e), None
    except Exception as e:  # any other exception is itself the observation (reported as crash:<Exc>)
        return f"crash:{type(e).__name__}", f"{type(e).__name__}: {e}", crash_info(e)


def guess_construct(msg):
    m = re.search(r"(operand|result|region|successor|propert|attribute)", msg)
    if not m:
        return "unknown"
    return {"propert": "prop", "attribute": "attr"}.get(m.group(1), m.group(1))


def msg_class(msg):
    s = msg.split("Operation does not verify: ")[-1].strip().split("\n")[0]
    s = re.sub(r"'[^']*'", "'_'", s)
    s = re.sub(r"-?[0-9]+", "N", s)
    return s[:60]


def build_create(cls, I):
    from xdsl.ir import Block, Region
    blocks = [Block() for _ in range(NBLOCKS)]
    Region(blocks)
    for b in I["successor"]:
        if not 0 <= b < NBLOCKS:
            raise ValueError("successor index")
    u = universe()
    for i in I["result"]:
        if not 0 <= i < NTYPES:
            raise ValueError("result type index")
    op = cls.create(operands=mk_values(I["operand"]), result_types=[u[i] for i in I["result"]],
                    properties={n: real_val(v) for n, v in I["props"] if v is not None},
                    attributes={n: real_val(v) for n, v in I["attrs"] if v is not None},
                    successors=[blocks[b] for b in I["successor"]],
                    regions=[mk_region(bl) for bl in I["region"]])
    for n in I.get("del_props", []):
        op.properties.pop(n, None)
    for n in I.get("del_attrs", []):
        op.attributes.pop(n, None)
    blocks[0].add_op(op)
    return op


def build_ctor(cls, D, I):
    """Call the generated constructor. -> (op, given) where given[c] is the flat list of passed objects."""
    from xdsl.ir import Block, Region
    blocks = [Block() for _ in range(NBLOCKS)]
    Region(blocks)
    u = universe()
    given = {c: [] for c in CONSTRUCTS}
    kw = {}
    # operands: one producer op for all values
    flat_idx = []
    for a in I["operand"]:
        flat_idx.extend([a] if isinstance(a, int) else ([] if a is None else a))
    vals = mk_values(flat_idx)
    pos = 0
    args = []
    for a in I["operand"]:
        if a is None:
            args.append(None)
        elif isinstance(a, int):
            args.append(vals[pos])
            given["operand"].append(vals[pos])
            pos += 1
        else:
            args.append(vals[pos:pos + len(a)])
            given["operand"].extend(vals[pos:pos + len(a)])
            pos += len(a)
    kw["operands"] = args
    args = []
    for a in I["result"]:
        if a is None:
            args.append(None)
        elif isinstance(a, int):
            args.append(u[a])
            given["result"].append(u[a])
        else:
            args.append([u[i] for i in a])
            given["result"].extend(u[i] for i in a)
    kw["result_types"] = args
    args = []
    for a in I["successor"]:
        if a is None:
            args.append(None)
        elif isinstance(a, int):
            args.append(blocks[a])
            given["successor"].append(blocks[a])
        else:
            args.append([blocks[i] for i in a])
            given["successor"].extend(blocks[i] for i in a)
    kw["successors"] = args
    args = []
    for a in I["region"]:
        if a is None:
            args.append(None)
        elif isinstance(a, dict):
            r = mk_region(a["b"])
            args.append(r)
            given["region"].append(r)
        else:
            rs = [mk_region(x["b"]) for x in a]
            args.append(rs)
            given["region"].extend(rs)
    kw["regions"] = args
    kw["properties"] = {n: (None if v is None else real_val(v)) for n, v in I["props"]}
    kw["attributes"] = {n: (None if v is None else real_val(v)) for n, v in I["attrs"]}
    op = cls.build(**kw) if I["via"] == "build" else cls(**kw)
    blocks[0].add_op(op)
    return op, given


def op_lists(op):
    return {"operand": op.operands, "result": op.results, "region": op.regions, "successor": op.successors}


def check_accessors(h, D, cls, op, ref, recipe, source="generated"):
    """On an instance that verified and that the reference accepts: every accessor == reference segment."""
    from collections.abc import Sequence
    from xdsl.ir import Block, Region, SSAValue
    lists = op_lists(op)
    for c in CONSTRUCTS:
        off = 0
        for j, (d, s) in enumerate(zip(D[c]["defs"], ref["sizes"][c])):
            name = f"{PREFIX[c]}{j}"
            exp = list(lists[c][off:off + s])
            off += s
            sig = {"check": "accessor", "construct": c, "option": D[c]["opt"], "kind": d[0],
                   "nvar": nvar_class(D, c)}
            try:
                got = getattr(op, name)
            except Exception as e:  # the exception is the observation
                h.mismatch({**sig, "dir": f"crash:{type(e).__name__}", "why": "valid", "at": crash_info(e)[1]},
                           recipe, f"{name}: {type(e).__name__}: {e}")
                continue
            ok = True
            if d[0] == "single":
                ok = got is exp[0]
            elif d[0] == "optional":
                ok = (got is exp[0]) if exp else (got is None)
            else:
                ok = (isinstance(got, Sequence) and not isinstance(got, (SSAValue, Region, Block))
                      and len(got) == len(exp) and all(a is b for a, b in zip(got, exp)))
            h.count("accessor_checked")
            if not ok:
                h.mismatch({**sig, "dir": "wrong_segment", "why": "valid"}, recipe,
                           f"accessor {name} ({d[0]}, sizes {ref['sizes'][c]}, option {D[c]['opt']}) returned "
                           f"{got!r:.200}, expected segment at offset {off - s} length {s}")
    u = universe()
    for key, pre, have in (("props", "p", ref["props"]), ("attrs", "a", ref["attrs"])):
        real = op.properties if key == "props" else op.attributes
        for j, (m, cn, dv) in enumerate(D[key]):
            name = f"{pre}{j}"
            sig = {"check": "accessor", "construct": key[:-1], "option": "-", "kind": m}
            try:
                got = getattr(op, name)
            except Exception as e:
                h.mismatch({**sig, "dir": f"crash:{type(e).__name__}", "why": "valid", "at": crash_info(e)[1]},
                           recipe, f"{name}: {type(e).__name__}: {e}")
                continue
            if name in have:
                exp = real[name]
            elif m == "optdflt":
                exp = u[dv]
            else:
                exp = None
            if not (got is exp or (got is not None and exp is not None and got == exp)):
                h.mismatch({**sig, "dir": "wrong_value", "why": "valid"}, recipe,
                           f"accessor {name} ({m}) returned {got!r:.100}, expected {exp!r:.100}")


def run_instance(h, D, cls, I, label, strict):
    recipe = {"kind": "def", "def": D, "instances": [I]}
    nontriv = def_nontrivial(D)
    via = I["via"]
    optset = "+".join(sorted({D[c]["opt"] for c in CONSTRUCTS} - {"none"})) or "none"
    if via == "create":
        ref = reference(D, I)
        op = build_create(cls, I)
        verdict, msg, info = run_verify(op)
        accept = not ref["reasons"]
        h.case(recipe, nontriv, label=f"{label}create:{'accept' if accept else 'reject'}")
        for c, o, why in ref["reasons"][:1]:
            h.count(f"why:{why}")
        if verdict == "ok" and not accept:
            for c, o, why in ref["reasons"]:
                h.mismatch({"check": "verify_vs_reference", "construct": c, "option": o,
                            "dir": "accepts_invalid", "why": why,
                            "nvar": nvar_class(D, c) if c in CONSTRUCTS else "-"}, recipe,
                           f"verify() accepted; reference rejects: {c} {why} (all reasons {ref['reasons']})")
        elif verdict == "reject" and accept:
            c = guess_construct(msg_class(msg))
            h.mismatch({"check": "verify_vs_reference", "construct": c,
                        "option": D[c]["opt"] if c in CONSTRUCTS else "-", "dir": "rejects_valid",
                        "why": msg_class(msg), "nvar": nvar_class(D, c) if c in CONSTRUCTS else "-"}, recipe,
                       f"verify() rejected a valid instance (reference sizes {ref['sizes']}): {msg[:300]}")
        elif verdict.startswith("crash"):
            c, at = info
            mine = [w for cc, _, w in ref["reasons"] if cc == c]
            h.mismatch({"check": "verify_vs_reference", "construct": c,
                        "option": D[c]["opt"] if c in CONSTRUCTS else "-", "dir": verdict,
                        "why": mine[0] if mine else "valid",
                        "nvar": nvar_class(D, c) if c in CONSTRUCTS else "-", "at": at}, recipe,
                       f"verify() raised {msg[:300]} at {at}; reference: "
                       f"{'accepts' if accept else ref['reasons']}")
        if verdict == "ok" and accept:
            check_accessors(h, D, cls, op, ref, recipe)
        return
    if via not in ("build", "init"):
        raise ValueError(f"bad via {via!r}")
    try:
        flat, ref = args_to_flat(D, I)
    except NotSatisfying as e:
        if strict:
            raise AssertionError(f"generator produced constructor arguments that do not satisfy the definition: "
                                 f"{e} {recipe}")
        h.count("ctor_args_not_satisfying(shrunk/replayed)")
        return
    h.case(recipe, nontriv, label=f"{label}{via}")
    sig0 = {"check": "constructor", "option": optset}
    try:
        op, given = build_ctor(cls, D, I)
    except Exception as e:  # constructor must accept satisfying arguments; the exception is the observation
        h.mismatch({**sig0, "construct": guess_construct(str(e)), "dir": f"crash:{type(e).__name__}",
                    "why": "constructor_raised", "at": crash_info(e)[1]}, recipe,
                   f"constructor raised {type(e).__name__}: {str(e)[:300]} at {crash_info(e)[1]}")
        return
    # lists in order, segment arrays as the reference computed them
    lists = op_lists(op)
    for c in CONSTRUCTS:
        got = [x.type for x in lists[c]] if c == "result" else list(lists[c])
        same = len(got) == len(given[c]) and all(
            (a == b) if c == "result" else (a is b) for a, b in zip(got, given[c]))
        if not same:
            h.mismatch({**sig0, "construct": c, "option": D[c]["opt"], "dir": "wrong_list",
                        "why": "flat_list_differs"}, recipe,
                       f"{c}s of the built op differ from the concatenated arguments")
        o = D[c]["opt"]
        if o in ("attr_sized_prop", "attr_sized_attr"):
            from xdsl.dialects.builtin import DenseArrayBase, i32
            cont = op.properties if o == "attr_sized_prop" else op.attributes
            a = cont.get(SEGNAME[c])
            okseg = isinstance(a, DenseArrayBase) and a.elt_type == i32 and \
                list(a.get_values()) == ref["sizes"][c]
            if not okseg:
                h.mismatch({**sig0, "construct": c, "option": o, "dir": "wrong_segment_sizes",
                            "why": "segment_array_differs"}, recipe,
                           f"{SEGNAME[c]} = {a} but the argument sizes are {ref['sizes'][c]}")
    verdict, msg, info = run_verify(op)
    if verdict != "ok":
        c, at = info if info else (guess_construct(msg_class(msg)), "-")
        h.mismatch({**sig0, "construct": c, "option": D[c]["opt"] if c in CONSTRUCTS else optset,
                    "dir": "rejects_valid" if verdict == "reject" else verdict,
                    "why": msg_class(msg) if verdict == "reject" else "valid",
                    "nvar": nvar_class(D, c) if c in CONSTRUCTS else "-", "at": at}, recipe,
                   f"constructor-built op does not verify: {msg[:300]} (at {at})")
        return
    check_accessors(h, D, cls, op, ref, recipe)


def run_def(h, r, label="", strict=False):
    from xdsl.utils.exceptions import PyRDLOpDefinitionError
    D = r["def"]
    check_def(D)
    must_reject = frontend_must_reject(D)
    try:
        cls = synth(D)
    except PyRDLOpDefinitionError as e:
        if must_reject:
            h.discard("definition_rejected:two_non_single_defs_without_option")
            return
        h.mismatch({"check": "definition", "dir": "rejects_valid", "why": msg_class(str(e))},
                   {"kind": "def", "def": D, "instances": []},
                   f"irdl_op_definition rejected a well-formed definition: {e}")
        return
    if must_reject:
        h.mismatch({"check": "definition", "dir": "accepts_invalid", "why": "two_non_single_defs_without_option"},
                   {"kind": "def", "def": D, "instances": []},
                   "irdl_op_definition accepted a definition with several non-single defs and no segment option")
        return
    h.count("definitions_accepted")
    if any(D[c]["opt"] == "same_size" and D[c]["defs"] and nonsingle(D, c) == 0 for c in CONSTRUCTS):
        h.count("definitions_same_size_without_variadic(steered_down,F-C10-4)")
    if def_nontrivial(D):
        h.count("definitions_nontrivial")
    for I in r["instances"]:
        run_instance(h, D, cls, I, label, strict)


# ------------------------------------------------------------------------------------------------
# corpus
def corpus_def_view(op):
    """IRDL definition of a corpus op -> definition view usable by ref_split, or None if out of scope."""
    from xdsl.irdl import operations as O
    od = op.get_irdl_definition()
    view = {}
    for c, defs, acls, scls in (
            ("operand", od.operands, O.AttrSizedOperandSegments, O.SameVariadicOperandSize),
            ("result", od.results, O.AttrSizedResultSegments, O.SameVariadicResultSize),
            ("region", od.regions, O.AttrSizedRegionSegments, O.SameVariadicRegionSize),
            ("successor", od.successors, O.AttrSizedSuccessorSegments, O.SameVariadicSuccessorSize)):
        kinds = ["optional" if isinstance(d, O.OptionalDef) else "variadic" if isinstance(d, O.VariadicDef)
                 else "single" for _, d in defs]
        a = [o for o in od.options if isinstance(o, acls)]
        s = [o for o in od.options if isinstance(o, scls)]
        if (a and s) or len(a) > 1:
            return None
        opt = "none"
        if a:
            opt = "attr_sized_prop" if a[0].as_property else "attr_sized_attr"
        elif s:
            opt = "same_size"
        view[c] = {"names": [n for n, _ in defs], "kinds": kinds, "opt": opt}
    return view


def check_corpus_op(h, key, index, op):
    from collections.abc import Sequence
    from xdsl.dialects.builtin import DenseArrayBase, i32
    from xdsl.ir import Block, Region, SSAValue
    view = corpus_def_view(op)
    recipe = {"kind": "corpus", "key": key, "index": index, "op": op.name}
    if view is None:
        h.count("corpus_op_with_both_options(skipped)")
        return
    nontriv = any(v["opt"] != "none" or sum(k != "single" for k in v["kinds"]) >= 2 for v in view.values())
    h.case(recipe, nontriv, label="corpus_op")
    lists = op_lists(op)
    for c in CONSTRUCTS:
        v = view[c]
        seg = None
        if v["opt"] in ("attr_sized_prop", "attr_sized_attr"):
            cont = op.properties if v["opt"] == "attr_sized_prop" else op.attributes
            a = cont.get(SEGNAME[c])
            if a is not None:
                seg = ("d32", [int(x) for x in a.get_values()]) if (
                    isinstance(a, DenseArrayBase) and a.elt_type == i32) else ("other", None)
        nv = sum(k != "single" for k in v["kinds"])
        if v["opt"] == "none" and nv > 1:
            h.mismatch({"check": "definition", "dir": "accepts_invalid",
                        "why": "two_non_single_defs_without_option", "source": "corpus", "op": op.name},
                       recipe, f"{op.name}: several non-single {c} defs without option")
            continue
        sizes, why = ref_split(v["kinds"], v["opt"], len(lists[c]), seg)
        nvs = str(nv) if nv < 2 else "2+"
        if why:
            h.mismatch({"check": "verify_vs_reference", "construct": c, "option": v["opt"],
                        "dir": "accepts_invalid", "why": why, "nvar": nvs, "source": "corpus"}, recipe,
                       f"{op.name} verified in the corpus but its {c}s ({len(lists[c])}) cannot be split into "
                       f"{v['kinds']} with option {v['opt']} sizes {seg}: {why}")
            continue
        if v["opt"] != "none" or nv:
            h.count(f"corpus_split:{c}:{v['opt']}")
        off = 0
        for name, k, s in zip(v["names"], v["kinds"], sizes):
            exp = list(lists[c][off:off + s])
            off += s
            sig = {"check": "accessor", "construct": c, "option": v["opt"], "kind": k, "nvar": nvs,
                   "source": "corpus"}
            try:
                got = getattr(op, name)
            except Exception as e:  # the exception is the observation
                h.mismatch({**sig, "dir": f"crash:{type(e).__name__}", "why": "valid", "at": crash_info(e)[1]},
                           recipe, f"{op.name}.{name}: {type(e).__name__}: {e}")
                continue
            if k == "single":
                ok = got is exp[0]
            elif k == "optional":
                ok = (got is exp[0]) if exp else (got is None)
            else:
                ok = (isinstance(got, Sequence) and not isinstance(got, (SSAValue, Region, Block))
                      and len(got) == len(exp) and all(x is y for x, y in zip(got, exp)))
            if not ok:
                h.mismatch({**sig, "dir": "wrong_segment", "why": "valid"}, recipe,
                           f"{op.name}.{name} ({k}) returned {got!r:.200}, expected offset {off - s} length {s} "
                           f"of {len(lists[c])} {c}s (sizes {sizes})")


def run_corpus(h):
    from xdsl.irdl import IRDLOperation
    from vt.corpus import verified_modules
    for key, _text, m in verified_modules(h.shard, h.nshards):
        h.count("corpus_modules")
        for i, op in enumerate(m.walk()):
            if isinstance(op, IRDLOperation):
                check_corpus_op(h, key, i, op)


def replay_corpus(h, r):
    from xdsl.irdl import IRDLOperation
    from vt.corpus import chunks, parse_chunk
    for rel, idx, text in chunks():
        if f"{rel}#{idx}" == r["key"]:
            m = parse_chunk(text)
            if m is None:
                h.count("replay_corpus_chunk_no_longer_verifies")
                return
            for i, op in enumerate(m.walk()):
                if i == r["index"] and isinstance(op, IRDLOperation):
                    check_corpus_op(h, r["key"], i, op)
            return
    h.count("replay_corpus_chunk_missing")


def replay(h, recipe):
    if recipe.get("kind") == "corpus":
        replay_corpus(h, recipe)
    else:
        run_def(h, recipe, label="replay:")


# ------------------------------------------------------------------------------------------------
# strategies
def _constr_default(draw, c):
    if c == "any":
        return draw(st.integers(0, NUNIV - 1))
    if c in ("int", "U"):
        return draw(st.integers(0, 2))
    if c == "i32":
        return 0
    if c in ("arrN", "arrM"):
        return ARR0 + draw(st.integers(1 if c == "arrM" else 0, 2))
    return draw(st.integers(0, NTYPES - 1))


LEN_POOL = [["N"]] * 5 + [["M"]] * 2 + [["ge", 1], ["le", 1], ["eq", 0], ["eq", 1], ["eq", 2]]
LEN_POOL_SHARED = [["N"]] * 8 + [["M"]] * 2 + [["ge", 1], ["eq", 0]]


@st.composite
def def_strategy(draw):
    D = {}
    # 0: no length constraints (the original generator), 1: some, 2: many defs sharing the int variable N
    lenmode = draw(st.sampled_from([0, 0, 1, 1, 2, 2]))
    for c in CONSTRUCTS:
        if c in ("operand", "result"):
            n = draw(st.sampled_from([0, 1, 1, 2, 2, 2, 3, 3, 4]))
        else:
            n = draw(st.sampled_from([0, 0, 0, 0, 1, 2, 2, 3]))
        defs = []
        for _ in range(n):
            k = draw(st.sampled_from(["single", "single", "optional", "variadic", "variadic"]))
            if c == "successor":
                defs.append([k])
            else:
                cn = draw(st.sampled_from(["any", "any", "int", "i32", "T", "T", "U"]))
                d = [k, cn, draw(st.sampled_from([0, 0, 1]))] if c == "region" else [k, cn]
                if lenmode and (c == "region" or k != "single") and draw(
                        st.sampled_from([True, False, False] if lenmode == 1 else [True, True, False])):
                    d.append(list(draw(st.sampled_from(LEN_POOL if lenmode == 1 else LEN_POOL_SHARED))))
                defs.append(d)
        nns = sum(1 for d in defs if d[0] != "single")
        if nns >= 2:
            opt = draw(st.sampled_from(["attr_sized_prop"] * 8 + ["attr_sized_attr"] * 8 + ["same_size"] * 8
                                       + ["none"]))
        elif nns == 1:
            opt = draw(st.sampled_from(["none"] * 6 + ["attr_sized_prop"] * 2 + ["attr_sized_attr"] * 2
                                       + ["same_size"] * 2))
        elif n:
            # same-size without any variadic def is steered down (known ZeroDivisionError in the accessors,
            # F-C10-4; every instance of such a definition crashes in verify and would mask the rest)
            opt = draw(st.sampled_from(["none"] * 24 + ["attr_sized_prop"] * 3 + ["attr_sized_attr"] * 3
                                       + ["same_size"]))
        else:
            opt = draw(st.sampled_from(["none"] * 30 + ["attr_sized_prop", "attr_sized_attr", "same_size"]))
        D[c] = {"defs": defs, "opt": opt}
    for key in ("props", "attrs"):
        out = []
        for _ in range(draw(st.sampled_from([0, 0, 1, 1, 2, 3]))):
            m = draw(st.sampled_from(MODES))
            cn = draw(st.sampled_from(["any", "int", "i32", "T", "U"] + (
                ["arrN", "arrN", "arrM"] if lenmode else [])))
            out.append([m, cn, _constr_default(draw, cn) if m in ("dflt", "optdflt") else None])
        D[key] = out
    return D


def _skeleton(draw, D):
    """A valid instance: sizes per def, element values satisfying the constraints, properties, attributes."""
    tv = draw(st.integers(0, NTYPES - 1))
    uv = draw(st.integers(0, 2))
    # integer (length) variables: value 0 is as likely as the others; when an optional def uses the variable
    # only 0/1 can be satisfied. `consistent` False draws every use independently from 0..2 so that all
    # equal / unequal combinations (including 0 first, then non-zero) are produced on valid segmentations.
    uses = {"N": [], "M": []}
    for c in ("operand", "result"):
        for d in D[c]["defs"]:
            sp = len_spec(c, d)
            if sp is not None and sp[0] in uses:
                uses[sp[0]].append(d[0])
    nv = draw(st.sampled_from([0, 1] if "optional" in uses["N"] else [0, 0, 1, 2]))
    mv = 1 if "optional" in uses["M"] else draw(st.integers(1, 2))
    consistent = draw(st.sampled_from([True, True, False]))

    def want(spec):
        if spec is None:
            return None
        if spec[0] in ("N", "M"):
            return (nv if spec[0] == "N" else mv) if consistent else draw(st.integers(0, 2))
        if spec[0] == "ge":
            return draw(st.integers(spec[1], max(spec[1], 3)))
        if spec[0] == "le":
            return draw(st.integers(0, max(spec[1], 0)))
        return spec[1]

    def pick(cn, wide=False):
        if cn in ("arrN", "arrM"):
            return ARR0 + min(2, max(0, want([cn[-1]])))
        if cn == "any":
            return draw(st.integers(0, (NUNIV if wide else NTYPES) - 1))
        if cn == "int":
            return draw(st.integers(0, 2))
        if cn == "i32":
            return 0
        return tv if cn == "T" else uv

    sizes = {}
    for c in CONSTRUCTS:
        kinds = [d[0] for d in D[c]["defs"]]
        wants = [None if (c in ("region", "successor") or d[0] == "single") else want(len_spec(c, d))
                 for d in D[c]["defs"]]
        if D[c]["opt"] == "same_size":
            k = next((w for w in wants if w is not None), None)
            if k is None:
                k = draw(st.integers(0, 1 if "optional" in kinds else 2))
            elif "optional" in kinds:
                k = min(k, 1)
            sizes[c] = [1 if kd == "single" else k for kd in kinds]
        else:
            sizes[c] = [1 if kd == "single"
                        else (min(w, 1) if kd == "optional" else w) if w is not None
                        else draw(st.integers(0, 1)) if kd == "optional"
                        else draw(st.sampled_from([0, 1, 1, 2, 3])) for kd, w in zip(kinds, wants)]
    pieces = {}
    for c in ("operand", "result"):
        pieces[c] = [[pick(d[1]) for _ in range(s)] for d, s in zip(D[c]["defs"], sizes[c])]
    pieces["region"] = []
    for d, s in zip(D["region"]["defs"], sizes["region"]):
        regs = []
        for _ in range(s):
            nb = 1 if d[2] else draw(st.sampled_from([0, 1, 1, 2]))
            blocks = []
            for b in range(nb):
                w = want(len_spec("region", d)) if b == 0 else None
                na = w if w is not None else draw(st.sampled_from([0, 0, 1, 2]))
                blocks.append([pick(d[1]) for _ in range(na)])
            regs.append(blocks)
        pieces["region"].append(regs)
    pieces["successor"] = [[draw(st.integers(0, NBLOCKS - 1)) for _ in range(s)] for s in sizes["successor"]]
    dicts = {}
    for key, pre in (("props", "p"), ("attrs", "a")):
        out = []
        for j, (m, cn, dv) in enumerate(D[key]):
            present = True if m == "req" else draw(st.booleans())
            if not present and m == "dflt" and cn in ("T", "U") and dv != (tv if cn == "T" else uv):
                present = True      # the default would bind the variable to another value
            if present:
                out.append([f"{pre}{j}", ["u", pick(cn, wide=True)]])
        dicts[key] = out
    return sizes, pieces, dicts, tv


def _mutate(draw, D, I):
    m = draw(st.sampled_from(["len", "len", "seg", "seg", "seg", "type", "prop", "prop", "region"]))
    attr_sized = [c for c in CONSTRUCTS if D[c]["opt"].startswith("attr_sized")]
    if m == "seg" and not attr_sized:
        m = "len"
    if m == "len":
        c = draw(st.sampled_from(CONSTRUCTS))
        lst = I[c]
        if lst and draw(st.booleans()):
            lst.pop(draw(st.integers(0, len(lst) - 1)))
        else:
            pos = draw(st.integers(0, len(lst)))
            if c == "region":
                lst.insert(pos, [[]] if draw(st.booleans()) else [])
            elif c == "successor":
                lst.insert(pos, draw(st.integers(0, NBLOCKS - 1)))
            else:
                lst.insert(pos, draw(st.integers(0, NTYPES - 1)))
    elif m == "seg":
        c = draw(st.sampled_from(attr_sized))
        key, other = ("props", "attrs") if D[c]["opt"] == "attr_sized_prop" else ("attrs", "props")
        ent = next((e for e in I[key] if e[0] == SEGNAME[c]), None)
        how = draw(st.sampled_from(["entry", "entry", "shift", "shift", "length", "d64", "univ", "remove",
                                    "move", "both"]))
        if ent is None or ent[1][0] != "d32":
            return
        arr = ent[1][1]
        if how == "entry" and arr:
            arr[draw(st.integers(0, len(arr) - 1))] = draw(st.sampled_from([-2, -1, 0, 1, 2, 3, 5]))
        elif how == "shift" and len(arr) >= 2:
            i = draw(st.integers(0, len(arr) - 1))
            j = draw(st.integers(0, len(arr) - 2))
            j = j + 1 if j >= i else j
            dlt = draw(st.sampled_from([1, 1, 2, 3]))
            arr[i] += dlt
            arr[j] -= dlt
        elif how == "length":
            if arr and draw(st.booleans()):
                arr.pop()
            else:
                arr.append(draw(st.sampled_from([0, 0, 1])))
        elif how == "d64":
            ent[1][0] = "d64"
        elif how == "univ":
            ent[1] = ["u", draw(st.integers(0, NUNIV - 1))]
        elif how == "remove":
            I[key].remove(ent)
        elif how == "move":
            I[key].remove(ent)
            I[other].append(ent)
        elif how == "both":
            I[other].append([ent[0], ["d32", list(arr)]])
    elif m == "type":
        c = draw(st.sampled_from(["operand", "result", "region"]))
        if c == "region":
            spots = [(r, b, a) for r, reg in enumerate(I[c]) for b, bl in enumerate(reg) for a in range(len(bl))]
            if spots:
                r, b, a = draw(st.sampled_from(spots))
                I[c][r][b][a] = draw(st.integers(0, NTYPES - 1))
        elif I[c]:
            I[c][draw(st.integers(0, len(I[c]) - 1))] = draw(st.integers(0, NTYPES - 1))
    elif m == "prop":
        key, pre = draw(st.sampled_from([("props", "p"), ("attrs", "a")]))
        how = draw(st.sampled_from(["drop", "wrong", "wrong", "unknown", "delete", "add_declared"]))
        declared = [f"{pre}{j}" for j in range(len(D[key]))]
        mine = [e for e in I[key] if e[0] in declared]
        if how == "drop" and mine:
            I[key].remove(draw(st.sampled_from(mine)))
        elif how == "wrong" and mine:
            draw(st.sampled_from(mine))[1] = ["u", draw(st.integers(0, NUNIV - 1))]
        elif how == "unknown":
            I[key].append(["zz", ["u", draw(st.integers(0, NUNIV - 1))]])
        elif how == "delete" and declared:
            I["del_" + key].append(draw(st.sampled_from(declared)))
        elif how == "add_declared" and declared:
            name = draw(st.sampled_from(declared))
            if all(e[0] != name for e in I[key]):
                I[key].append([name, ["u", draw(st.integers(0, NUNIV - 1))]])
    elif m == "region":
        if I["region"]:
            r = draw(st.integers(0, len(I["region"]) - 1))
            nb = draw(st.sampled_from([0, 1, 2, 2]))
            I["region"][r] = [[draw(st.integers(0, NTYPES - 1)) for _ in range(draw(st.integers(0, 2)))]
                              for _ in range(nb)]


def _instance(draw, D):
    sizes, pieces, dicts, tv = _skeleton(draw, D)
    via = draw(st.sampled_from(["create"] * 7 + ["build", "build", "init"]))
    flat = {"via": "create", "del_props": [], "del_attrs": []}
    for c in CONSTRUCTS:
        flat[c] = [x for piece in pieces[c] for x in piece]
    flat["props"] = [list(e) for e in dicts["props"]]
    flat["attrs"] = [list(e) for e in dicts["attrs"]]
    for c in CONSTRUCTS:
        if D[c]["opt"] == "attr_sized_prop":
            flat["props"].append([SEGNAME[c], ["d32", list(sizes[c])]])
        elif D[c]["opt"] == "attr_sized_attr":
            flat["attrs"].append([SEGNAME[c], ["d32", list(sizes[c])]])
    if via != "create" and reference(D, flat)["reasons"]:
        # the skeleton deliberately violates a length constraint (or cannot satisfy it): the constructor check
        # only takes satisfying arguments, so this instance goes through Operation.create instead
        via = "create"
    if via == "create":
        I = flat
        for _ in range(draw(st.sampled_from([0, 0, 0, 1, 1, 1, 1, 2, 2]))):
            _mutate(draw, D, I)
        return I
    I = {"via": via}
    for c in CONSTRUCTS:
        args = []
        for d, piece in zip(D[c]["defs"], pieces[c]):
            wrap = (lambda x: {"b": x}) if c == "region" else (lambda x: x)
            if d[0] == "single":
                args.append(wrap(piece[0]))
            elif d[0] == "optional":
                if piece:
                    args.append(wrap(piece[0]) if draw(st.booleans()) else [wrap(piece[0])])
                else:
                    args.append(None if draw(st.booleans()) else [])
            else:
                args.append([wrap(x) for x in piece])
        I[c] = args
    for key, pre in (("props", "p"), ("attrs", "a")):
        out = list(dicts[key])
        have = {e[0] for e in out}
        for j, (m, cn, dv) in enumerate(D[key]):
            if f"{pre}{j}" not in have and draw(st.booleans()):
                out.append([f"{pre}{j}", None])     # explicit None = absent
        I[key] = out
    return I


@st.composite
def recipe_strategy(draw):
    D = draw(def_strategy())
    if frontend_must_reject(D):
        return {"kind": "def", "def": D, "instances": []}
    n = draw(st.integers(3, 8))
    return {"kind": "def", "def": D, "instances": [_instance(draw, D) for _ in range(n)]}


def checks(h):
    def body(r):
        run_def(h, r, strict=not h._shrinking)

    h.hyp("generated_definitions", recipe_strategy(), body, h.scale(300, 8000), 1)
    run_corpus(h)
