"""C01 — IR edits keep the op/block/region tree and use-def chains consistent.

Recipe: {"init": <irgen module recipe>, "steps": [[action, a, b, c, d], ...]}
A step interpreter (the model-based state machine) applies public IR-mutation calls to targets
chosen from the live pools (index modulo pool size).  Documented preconditions are guards: a step
whose guard cannot be met is a no-op.  If a call nevertheless raises, the history ends there
(several APIs raise after partially mutating; the property speaks about successful edits only).
After every successful step `vt.invariants.check` runs over every live root.
"""
from __future__ import annotations

from hypothesis import strategies as st

from vt import invariants, irgen

ID = "C01"
SHARDS = {"quick": 16, "thorough": 16}
RULE = ("Hypothesis-generated histories: an irgen module (nested regions, multi-block CFGs, graph-region "
        "forward refs) followed by up to 40 (thorough 80) steps drawn from ~45 public mutation calls of "
        "Block/Region/Operation/SSAValue, Rewriter, PatternRewriter and Builder, targets picked from the "
        "live pools; oracle = whole-universe structural + use-def invariant after every successful step. "
        "Non-trivial: >=3 successful edits including at least one split/inline/move/replace/clone.")
ASSUMPTIONS = ["the invariant walker (vt/invariants.py) states exactly the C01 invariants",
               "guards encode documented preconditions (detached before insert, no ancestor cycles, "
               "inline source without predecessors, arg_values supplied for used block args)"]

STRUCTURAL = {"split_before", "inline_block", "move_blocks", "move_blocks_before", "replace_op",
              "clone_into", "clone_op", "inline_region", "move_region_contents", "pr_replace",
              "pr_inline_block", "pr_inline_region", "replace_value_new_type", "pr_replace_value_new_type"}


class Machine:
    def __init__(self, init_recipe):
        built = irgen.build(init_recipe)
        self.roots = [built.module]
        self.erased = []
        self.log = []
        self.counter = 0

    # ---- pools (deterministic order) -------------------------------------------------------
    def scan(self):
        from xdsl.ir import Block, Operation, Region
        ops, blocks, regions = [], [], []

        def v_op(o):
            ops.append(o)
            for r in o.regions:
                v_region(r)

        def v_block(b):
            blocks.append(b)
            for o in b.ops:
                v_op(o)

        def v_region(r):
            regions.append(r)
            for b in r.blocks:
                v_block(b)
        for root in self.roots:
            if isinstance(root, Operation):
                v_op(root)
            elif isinstance(root, Block):
                v_block(root)
            else:
                v_region(root)
        values = []
        for b in blocks:
            values.extend(b.args)
        for o in ops:
            values.extend(o.results)
        return ops, blocks, regions, values

    def unroot(self, x):
        self.roots = [r for r in self.roots if r is not x]

    def new_op(self, values, a, b, c, term=False):
        from xdsl.dialects.test import TestOp, TestTermOp
        ts = irgen.types()
        nres = a % 3
        nopr = b % 3
        operands = [values[(c + 7 * i) % len(values)] for i in range(nopr)] if values else []
        rt = [ts[(a + i) % len(ts)] for i in range(nres)]
        self.counter += 1
        cls = TestTermOp if term else TestOp
        return cls.create(operands=operands, result_types=rt)

    # ---- one step -----------------------------------------------------------------------------
    def step(self, action, a, b, c, d):
        """Returns the action name if an edit was attempted and succeeded, None if the guard failed.
        Exceptions propagate (the history ends)."""
        from xdsl.builder import Builder
        from xdsl.ir import Block, Operation, Region
        from xdsl.pattern_rewriter import PatternRewriter
        from xdsl.rewriter import BlockInsertPoint, InsertPoint, Rewriter

        ops, blocks, regions, values = self.scan()
        module = self.roots[0]
        attached = [o for o in ops if o.parent is not None]
        root_ops = [r for r in self.roots[1:] if isinstance(r, Operation)]
        root_blocks = [r for r in self.roots if isinstance(r, Block)]
        root_regions = [r for r in self.roots if isinstance(r, Region)]
        ts = irgen.types()

        def pick(pool, k):
            return pool[k % len(pool)] if pool else None

        def has_uses(o):
            return any(r.first_use is not None for r in o.results)

        def nested_used_outside(node):
            """Does something outside `node` use a value defined inside it (or a block inside)?"""
            inner_ops = set()
            walk = node.walk() if not isinstance(node, Operation) else node.walk()
            for o in walk:
                inner_ops.add(id(o))
            for o in (node.walk()):
                for r in o.results:
                    for u in r.uses:
                        if id(u.operation) not in inner_ops:
                            return True
                for reg in o.regions:
                    for bl in reg.blocks:
                        for ar in bl.args:
                            for u in ar.uses:
                                if id(u.operation) not in inner_ops:
                                    return True
            return False

        name = ACTIONS[action % len(ACTIONS)]

        if name == "new_op":
            self.roots.append(self.new_op(values, a, b, c))
        elif name == "new_block":
            self.roots.append(Block(arg_types=[ts[(a + i) % len(ts)] for i in range(b % 3)]))
        elif name == "add_op":
            op, blk = pick(root_ops, a), pick(blocks, b)
            if op is None or blk is None or op.is_ancestor(blk):
                return None
            blk.add_op(op)
            self.unroot(op)
        elif name == "add_ops":
            blk = pick(blocks, b)
            sel = [o for i, o in enumerate(root_ops) if (a >> i) & 1][:3]
            if blk is None or not sel or any(o.is_ancestor(blk) for o in sel):
                return None
            blk.add_ops(sel)
            for o in sel:
                self.unroot(o)
        elif name in ("insert_op_before", "insert_op_after", "rw_insert_op", "builder_insert",
                      "insert_ops_before", "insert_ops_after"):
            op, ex = pick(root_ops, a), pick(attached, b)
            if op is None or ex is None or op.is_ancestor(ex):
                return None
            blk = ex.parent
            if name == "insert_op_before":
                blk.insert_op_before(op, ex)
            elif name == "insert_op_after":
                blk.insert_op_after(op, ex)
            elif name == "insert_ops_before":
                blk.insert_ops_before([op], ex)
            elif name == "insert_ops_after":
                blk.insert_ops_after([op], ex)
            elif name == "rw_insert_op":
                ip = [InsertPoint.before(ex), InsertPoint.after(ex), InsertPoint.at_start(blk),
                      InsertPoint.at_end(blk)][c % 4]
                Rewriter.insert_op(op, ip)
            else:
                Builder(InsertPoint.before(ex) if c % 2 else InsertPoint.at_end(blk)).insert(op)
            self.unroot(op)
        elif name in ("detach_op", "op_detach"):
            op = pick([o for o in attached if o is not module], a)
            if op is None:
                return None
            if name == "detach_op":
                op.parent.detach_op(op)
            else:
                op.detach()
            self.roots.append(op)
        elif name in ("erase_op", "rw_erase_op", "op_erase_detached"):
            pool = root_ops if name == "op_erase_detached" else [o for o in attached if o is not module]
            op = pick(pool, a)
            if op is None:
                return None
            safe = not has_uses(op)
            if not safe and b % 2:
                return None
            if nested_used_outside(op) and safe:
                # nested values used from outside: erasing would leave users of values whose
                # owner is gone; only the unsafe variant is meaningful there -> skip
                return None
            if name == "erase_op":
                op.parent.erase_op(op, safe_erase=safe)
            elif name == "rw_erase_op":
                Rewriter.erase_op(op, safe_erase=safe)
            else:
                op.erase(safe_erase=safe)
                self.unroot(op)
            self.erased.append(op)
        elif name == "set_operand":
            cand = [o for o in ops if len(o.operands) > 0]
            op, v = pick(cand, a), pick(values, b)
            if op is None or v is None:
                return None
            op.operands[c % len(op.operands)] = v
        elif name == "set_operands":
            op = pick(ops, a)
            if op is None or not values:
                return None
            op.operands = [values[(b + 5 * i) % len(values)] for i in range(c % 4)]
        elif name in ("set_successor", "set_successors"):
            terms = [o for o in attached if o.name == "test.termop"]
            op, blk = pick(terms, a), pick(blocks, b)
            if op is None or blk is None:
                return None
            if name == "set_successor":
                if not len(op.successors):
                    return None
                op.successors[c % len(op.successors)] = blk
            else:
                op.successors = [blocks[(b + 3 * i) % len(blocks)] for i in range(c % 3)]
        elif name in ("rauw", "ruwi", "pr_rauw", "pr_ruwi"):
            v1, v2 = pick(values, a), pick(values, b)
            if v1 is None or v2 is None:
                return None
            if name.startswith("pr_"):
                anchor = pick(attached, c)
                if anchor is None:
                    return None
                rw = PatternRewriter(anchor)
                if name == "pr_rauw":
                    rw.replace_all_uses_with(v1, v2)
                else:
                    rw.replace_uses_with_if(v1, v2, lambda u: (u.index + d) % 2 == 0)
            elif name == "rauw":
                v1.replace_all_uses_with(v2)
            else:
                v1.replace_uses_with_if(v2, lambda u: (u.index + d) % 2 == 0)
        elif name == "value_erase":
            v = pick(values, a)
            if v is None:
                return None
            v.erase(safe_erase=v.first_use is None)
        elif name in ("insert_arg", "pr_insert_arg"):
            blk = pick(blocks, a)
            if blk is None:
                return None
            idx = b % (len(blk.args) + 1)
            if name == "insert_arg":
                blk.insert_arg(ts[c % len(ts)], idx)
            else:
                anchor = pick(attached, d)
                if anchor is None:
                    return None
                PatternRewriter(anchor).insert_block_argument(blk, idx, ts[c % len(ts)])
        elif name in ("erase_arg", "pr_erase_arg"):
            cand = [bl for bl in blocks if bl.args]
            blk = pick(cand, a)
            if blk is None:
                return None
            arg = blk.args[b % len(blk.args)]
            safe = arg.first_use is None
            if name == "erase_arg":
                blk.erase_arg(arg, safe_erase=safe)
            else:
                anchor = pick(attached, d)
                if anchor is None:
                    return None
                PatternRewriter(anchor).erase_block_argument(arg, safe_erase=safe)
        elif name == "split_before":
            cand = [o for o in attached if o.parent.parent is not None]
            op = pick(cand, a)
            if op is None:
                return None
            op.parent.split_before(op, arg_types=[ts[(b + i) % len(ts)] for i in range(c % 2)])
        elif name in ("add_block", "insert_block_before", "insert_block_after", "insert_block_idx",
                      "rw_insert_block", "builder_create_block"):
            reg = pick(regions, b)
            if reg is None:
                return None
            if name == "builder_create_block":
                tgt = pick(list(reg.blocks), c)
                ip = BlockInsertPoint.at_end(reg) if tgt is None or d % 2 else BlockInsertPoint.before(tgt)
                anchor = pick(attached, a)
                if anchor is None:
                    return None
                Builder(InsertPoint.before(anchor)).create_block(ip, [ts[d % len(ts)]])
            else:
                blk = pick(root_blocks, a)
                if blk is None or blk.is_ancestor(reg):
                    return None
                tgt = pick(list(reg.blocks), c)
                if name == "add_block" or tgt is None:
                    reg.add_block(blk)
                elif name == "insert_block_before":
                    reg.insert_block_before(blk, tgt)
                elif name == "insert_block_after":
                    reg.insert_block_after(blk, tgt)
                elif name == "insert_block_idx":
                    reg.insert_block(blk, c % (len(reg.blocks) + 1))
                else:
                    ip = [BlockInsertPoint.before(tgt), BlockInsertPoint.after(tgt),
                          BlockInsertPoint.at_start(reg), BlockInsertPoint.at_end(reg)][d % 4]
                    Rewriter.insert_block(blk, ip)
                self.unroot(blk)
        elif name == "detach_block":
            cand = [bl for bl in blocks if bl.parent is not None]
            blk = pick(cand, a)
            if blk is None:
                return None
            if b % 2:
                blk.parent.detach_block(blk)
            else:
                blk.parent.detach_block(blk.parent.get_block_index(blk))
            self.roots.append(blk)
        elif name == "erase_block":
            cand = [bl for bl in blocks if bl.parent is not None and bl.first_use is None]
            blk = pick(cand, a)
            if blk is None:
                return None
            outside = False
            inner = {id(o) for o in blk.walk()}
            for o in blk.walk():
                for r in o.results:
                    outside |= any(id(u.operation) not in inner for u in r.uses)
                for reg in o.regions:
                    for bl in reg.blocks:
                        for ar in bl.args:
                            outside |= any(id(u.operation) not in inner for u in ar.uses)
            for ar in blk.args:
                outside |= any(id(u.operation) not in inner for u in ar.uses)
            if outside:
                return None
            erased_ops = list(blk.ops)
            blk.parent.erase_block(blk, safe_erase=True)
            self.erased.extend(erased_ops)
        elif name in ("move_blocks", "move_blocks_before", "inline_region", "pr_inline_region",
                      "move_region_contents", "pr_move_region_contents"):
            src = pick([r for r in regions if r.first_block is not None], a)
            if src is None:
                return None
            if name in ("move_region_contents", "pr_move_region_contents"):
                if name.startswith("pr_"):
                    anchor = pick(attached, b)
                    if anchor is None:
                        return None
                    new = PatternRewriter(anchor).move_region_contents_to_new_regions(src)
                else:
                    new = Rewriter.move_region_contents_to_new_regions(src)
                self.roots.append(new)
            else:
                dst = pick([r for r in regions if r is not src and not src.is_ancestor(r)], b)
                if dst is None:
                    return None
                tgt = pick(list(dst.blocks), c)
                if name == "move_blocks" or tgt is None:
                    src.move_blocks(dst)
                elif name == "move_blocks_before":
                    src.move_blocks_before(tgt)
                else:
                    ip = BlockInsertPoint.before(tgt) if d % 2 else BlockInsertPoint.at_end(dst)
                    if name == "inline_region":
                        Rewriter.inline_region(src, ip)
                    else:
                        anchor = pick(attached, d)
                        if anchor is None:
                            return None
                        PatternRewriter(anchor).inline_region(src, ip)
        elif name in ("inline_block", "pr_inline_block"):
            cand = [bl for bl in blocks if bl.first_use is None]
            src, dst = pick(cand, a), pick(blocks, b)
            if src is None or dst is None or src is dst or src.is_ancestor(dst):
                return None
            if src.args and not values:
                return None
            argv = [v for v in values if not isinstance(v.owner, Block) or v.owner is not src]
            if src.args and not argv:
                return None
            arg_values = [argv[(c + 3 * i) % len(argv)] for i in range(len(src.args))]
            before = pick(list(dst.ops), d)
            ip = InsertPoint(dst, before if (c % 3) else None)
            if name == "inline_block":
                Rewriter.inline_block(src, ip, arg_values)
            else:
                anchor = pick([o for o in attached if not src.is_ancestor(o)], d)
                if anchor is None:
                    return None
                PatternRewriter(anchor).inline_block(src, ip, arg_values)
            self.unroot(src)
        elif name in ("replace_op", "pr_replace"):
            cand = [o for o in attached if o is not module]
            op = pick(cand, a)
            if op is None:
                return None
            if nested_used_outside(op) and not has_uses(op):
                return None
            safe = True  # all results get replaced
            if any(id(u.operation) != id(op) and op.is_ancestor(u.operation)
                   for r in op.results for u in r.uses):
                return None  # a nested op uses the result of the op being replaced
            from xdsl.dialects.test import TestOp
            nvals = [v for v in values if v not in op.results]
            operands = [nvals[(c + 7 * i) % len(nvals)] for i in range(b % 3)] if nvals else []
            new = TestOp.create(operands=operands, result_types=[r.type for r in op.results])
            if name == "replace_op":
                Rewriter.replace_op(op, new, safe_erase=safe)
            else:
                PatternRewriter(op).replace(op, new, safe_erase=safe)
            self.erased.append(op)
        elif name in ("replace_value_new_type", "pr_replace_value_new_type"):
            v = pick(values, a)
            if v is None:
                return None
            if name == "replace_value_new_type":
                Rewriter.replace_value_with_new_type(v, ts[b % len(ts)])
            else:
                anchor = pick(attached, c)
                if anchor is None:
                    return None
                PatternRewriter(anchor).replace_value_with_new_type(v, ts[b % len(ts)])
        elif name == "add_region":
            op = pick(ops, a)
            if op is None:
                return None
            if root_regions and b % 2:
                reg = pick(root_regions, b)
                if reg.is_ancestor(op):
                    return None
                self.unroot(reg)
            else:
                reg = Region()
            op.add_region(reg)
        elif name == "detach_region":
            cand = [o for o in ops if o.regions and o is not module]
            op = pick(cand, a)
            if op is None:
                return None
            i = b % len(op.regions)
            reg = op.detach_region(i if c % 2 else op.regions[i])
            self.roots.append(reg)
        elif name in ("clone_op", "clone_into"):
            if name == "clone_op":
                op = pick([o for o in ops if o is not module], a)
                if op is None:
                    return None
                self.roots.append(op.clone() if b % 2 else op.clone_without_regions())
            else:
                src = pick(regions, a)
                dst = pick([r for r in regions if r is not src and not src.is_ancestor(r)
                            and r.first_block is None], b)
                if src is None:
                    return None
                if dst is None:
                    dst = Region()
                    self.roots.append(dst)
                src.clone_into(dst)
        else:
            raise AssertionError(name)
        return name


ACTIONS = [
    "new_op", "new_op", "new_block", "add_op", "add_ops", "insert_op_before", "insert_op_after",
    "insert_ops_before", "insert_ops_after", "rw_insert_op", "builder_insert", "detach_op", "op_detach",
    "erase_op", "rw_erase_op", "op_erase_detached", "set_operand", "set_operands", "set_successor",
    "set_successors", "rauw", "ruwi", "pr_rauw", "pr_ruwi", "value_erase", "insert_arg", "pr_insert_arg",
    "erase_arg", "pr_erase_arg", "split_before", "add_block", "insert_block_before", "insert_block_after",
    "insert_block_idx", "rw_insert_block", "builder_create_block", "detach_block", "erase_block",
    "move_blocks", "move_blocks_before", "inline_region", "pr_inline_region", "move_region_contents",
    "pr_move_region_contents", "inline_block", "pr_inline_block", "replace_op", "pr_replace",
    "replace_value_new_type", "pr_replace_value_new_type", "add_region", "detach_region", "clone_op",
    "clone_into",
]


def run_history(h, recipe, label):
    m = Machine(recipe["init"])
    errs = invariants.check(m.roots)
    if errs:  # the initial IR is itself built through the public API (create / add_op / add_region)
        h.case(recipe, True, label=label)
        h.mismatch({"check": "invariant", "code": errs[0][0], "after": "build"}, recipe,
                   "initial IR built through the public constructors: " + "; ".join(f"{c}: {t}" for c, t in errs[:4]))
        return
    done = []
    structural = 0
    for i, st_ in enumerate(recipe["steps"]):
        action, a, b, c, d = st_
        try:
            name = m.step(action, a, b, c, d)
        except (ValueError, AssertionError, IndexError, KeyError) as e:  # call raised: history ends
            h.count("raised_" + ACTIONS[action % len(ACTIONS)])
            h.discard("history_ended_by_raise:" + type(e).__name__)
            break
        if name is None:
            h.count("guard_noop")
            continue
        done.append(name)
        h.count("act_" + name)
        if name in STRUCTURAL:
            structural += 1
        errs = invariants.check(m.roots, m.erased)
        if errs:
            code, msg = errs[0]
            h.case(recipe, True, label=label)
            h.mismatch({"check": "invariant", "code": code, "after": name}, recipe,
                       f"after step {i} ({name}), history {done}: " + "; ".join(f"{c}: {t}" for c, t in errs[:4]))
            return
    h.case(recipe, len(done) >= 3 and structural >= 1, label=label,
           sample={"init_ops": irgen.features(recipe["init"])["ops"], "edits": done})


def replay(h, recipe):
    run_history(h, recipe, "replay")


def checks(h):
    nsteps = 40 if h.quick else 80
    step = st.tuples(st.integers(0, len(ACTIONS) - 1), st.integers(0, 63), st.integers(0, 63),
                     st.integers(0, 63), st.integers(0, 7)).map(list)
    strat = st.fixed_dictionaries({
        "init": irgen.module_recipes(depth=2, max_ops=3, max_blocks=3),
        "steps": st.lists(step, min_size=3, max_size=nsteps),
    })
    h.hyp("histories", strat, lambda r: run_history(h, r, "history"), h.scale(60, 900), 1)
