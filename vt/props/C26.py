"""C26 — Affine expression algebra preserves values.

Recipes (plain JSON):
  tree  ::= ["dim", i] | ["sym", i] | ["const", c]
          | [op, tree, tree]      op in add, sub, mulx            (expr OP expr)
          | [op, tree, c]         op in add_const, sub_const, mul, floordiv, ceildiv, mod   (c > 0 for the last 3)
          | [op, c, tree]         op in radd_const, rsub_const, rmul_const   (Python reflected operators)
          | ["neg", tree]
        an op may carry a suffix that selects the public construction route:
          (none) Python operator with an int constant, ":c" operator with an AffineConstantExpr,
          ":b" AffineExpr.binary(kind, lhs, rhs), ":k" the AffineBinaryOpExpr/... constructors
  {"kind": "map",     "nd", "ns", "results": [tree...], "drop": [bool...], "via": "ctor"|"callable"}
  {"kind": "compose", "outer": {"nd","ns","results"}, "inner": {"nd","ns","results"}}
  {"kind": "replace", "src": {"nd","ns","results"}, "new_dims": [tree...], "new_syms": [tree...], "rnd", "rns"}
  {"kind": "perm",    "nd", "results": [tree...]}          (symbol-less)
  {"kind": "flat",    "nd", "ns", "coeffs": [int...], "locals": [tree...]}

Oracle: an evaluator over the recipe tree (never over the xDSL object), vectorised over every point
of the box [-B, B]^(dims+syms), B = 6 for <= 3 variables, 3 for 4, 2 for 5.
"""
from __future__ import annotations

import functools
import io
import itertools

from hypothesis import strategies as st

ID = "C26"
SHARDS = {"quick": 16, "thorough": 16}
RULE = ("Hypothesis-generated expression trees (<=3 dims, <=2 symbols; +, - in both operand orders and "
        "through __radd__/__rsub__/__rmul__, * const, floordiv/ceildiv/mod by positive constants, "
        "negation, nested div/mod; every node built through one of four public routes: operator with "
        "int, operator with AffineConstantExpr, AffineExpr.binary, direct constructors) and maps of "
        "1-3 results. Oracle: own evaluator on the recipe tree (floor / ceiling / non-negative "
        "remainder) compared on EVERY point of the box [-6,6]^n (n<=3; [-3,3]^4; [-2,2]^5) with: "
        "expr.eval, AffineMap.eval, simplify (fresh flattener, shared flattener over the results of a "
        "map, simplify twice), AffineExpr.compose / replace_dims_and_symbols, AffineMap.compose / "
        "replace_dims_and_symbols (reference = inner values substituted into outer), simplify of the "
        "composed result, str(map)/Printer -> affine_map<> attribute parser / parse_affine_map, "
        "affine.load custom syntax (minimal parentheses) -> parse_affine_map_of_ssa_ids, drop_dims of "
        "unused dims, drop_results, inverse_permutation, inverse_and_broadcast_projected_permutation, "
        "apply_permutation, identity/minor_identity/transpose/constant/point maps, from_flat_form. "
        "Non-trivial: some tree of the recipe has depth >= 3 and a floordiv/ceildiv/mod below an "
        "add/sub/mul/neg node (for compose/replace also: a div/mod in the outer map over a non-leaf "
        "inner expression). `int - expr` (known finding F-C26-1) is left out of the main search by "
        "construction and probed by the *_with_rsub sub-checks with a fixed quota.")
ASSUMPTIONS = [
    "Python integer //, % (floor division, non-negative remainder for a positive divisor) are the "
    "documented semantics of floordiv/mod (flattener docstrings: c*q <= expr <= c*q + c - 1); "
    "ceildiv c = (expr + c - 1) floordiv c",
    "agreement on the finite box is taken as agreement of values (no symbolic proof)",
    "NotImplementedError (semi-affine forms) is a documented limitation, not a violation",
    "any other exception raised from inside xdsl by one of the listed operations on a valid input, or "
    "by eval of its result, counts as not preserving the value",
    "structurally equal expressions (dataclass ==) evaluate equally, so a re-parsed / dropped map "
    "that is == to an already compared one is not evaluated again",
    "operand convention of affine.load map operands: dims first, then symbols (as lower-affine reads them)",
]

EE = ("add", "sub", "mulx")
EC = ("add_const", "sub_const", "mul", "floordiv", "ceildiv", "mod")
CE = ("radd_const", "rsub_const", "rmul_const")
DIVMOD = ("floordiv", "ceildiv", "mod")
ADDMUL = ("add", "sub", "mulx", "add_const", "sub_const", "mul", "radd_const", "rsub_const",
          "rmul_const", "neg")


def base(op: str) -> str:
    return op.partition(":")[0]


# ----------------------------------------------------------------------------------------------
# reference semantics (on the recipe)
def _floordiv(a: int, c: int) -> int:
    assert c > 0
    q = a // c
    assert c * q <= a <= c * q + c - 1
    return q


def _ceildiv(a: int, c: int) -> int:
    assert c > 0
    q = (a + c - 1) // c
    assert c * (q - 1) < a <= c * q
    return q


def _mod(a: int, c: int) -> int:
    assert c > 0
    r = a - c * _floordiv(a, c)
    assert 0 <= r < c
    return r


def ref(t, D, S, n):
    """Column of reference values of tree t; D/S are the columns of the dims/symbols."""
    b = base(t[0])
    if b == "dim":
        return D[t[1]]
    if b == "sym":
        return S[t[1]]
    if b == "const":
        return [t[1]] * n
    if b == "neg":
        return [-x for x in ref(t[1], D, S, n)]
    if b in EE:
        l, r = ref(t[1], D, S, n), ref(t[2], D, S, n)
        if b == "add":
            return [x + y for x, y in zip(l, r)]
        if b == "sub":
            return [x - y for x, y in zip(l, r)]
        return [x * y for x, y in zip(l, r)]
    if b in EC:
        e, c = ref(t[1], D, S, n), t[2]
        if b == "add_const":
            return [x + c for x in e]
        if b == "sub_const":
            return [x - c for x in e]
        if b == "mul":
            return [x * c for x in e]
        if b == "floordiv":
            return [_floordiv(x, c) for x in e]
        if b == "ceildiv":
            return [_ceildiv(x, c) for x in e]
        return [_mod(x, c) for x in e]
    if b in CE:
        c, e = t[1], ref(t[2], D, S, n)
        if b == "radd_const":
            return [c + x for x in e]
        if b == "rsub_const":
            return [c - x for x in e]
        return [c * x for x in e]
    raise AssertionError(f"bad recipe node {t!r}")


def children(t):
    b = base(t[0])
    if b in ("dim", "sym", "const"):
        return []
    if b == "neg":
        return [t[1]]
    if b in EE:
        return [t[1], t[2]]
    if b in EC:
        return [t[1]]
    if b in CE:
        return [t[2]]
    raise AssertionError(f"bad recipe node {t!r}")


def subtrees(t):
    """post-order: children before parents"""
    for c in children(t):
        yield from subtrees(c)
    yield t


def depth(t) -> int:
    return 1 + max((depth(c) for c in children(t)), default=0)


def ops_of(t) -> set:
    return {base(s[0]) for s in subtrees(t)}


def tree_nontrivial(t) -> bool:
    if depth(t) < 3:
        return False
    for s in subtrees(t):
        if base(s[0]) in ADDMUL:
            for c in children(s):
                if ops_of(c) & set(DIVMOD):
                    return True
    return False


def nested_divmod(t) -> bool:
    for s in subtrees(t):
        if base(s[0]) in DIVMOD and ops_of(s[1]) & set(DIVMOD):
            return True
    return False


def used(t, what: str) -> set:
    return {s[1] for s in subtrees(t) if s[0].startswith(what)}


# ----------------------------------------------------------------------------------------------
# building the real objects
def build(t):
    from xdsl.ir.affine import (AffineBinaryOpExpr, AffineBinaryOpKind, AffineConstantExpr,
                                AffineDimExpr, AffineExpr, AffineSymExpr)
    K = AffineBinaryOpKind
    b, _, sfx = t[0].partition(":")
    if b == "dim":
        return AffineDimExpr(t[1]) if sfx == "k" else AffineExpr.dimension(t[1])
    if b == "sym":
        return AffineSymExpr(t[1]) if sfx == "k" else AffineExpr.symbol(t[1])
    if b == "const":
        return AffineConstantExpr(t[1]) if sfx == "k" else AffineExpr.constant(t[1])
    if b == "neg":
        return -build(t[1])

    def combine(kind, l, r, c_int, const_on_left):
        """l, r are AffineExpr; c_int is the int constant (or None) replacing one side for the
        plain-operator route."""
        if sfx == "b":
            return AffineExpr.binary(kind, l, r)
        if sfx == "k":
            return AffineBinaryOpExpr(kind, l, r)
        if sfx == "":
            if c_int is not None:
                if const_on_left:
                    l = c_int
                else:
                    r = c_int
        elif sfx != "c":
            raise AssertionError(f"bad suffix in {t[0]!r}")
        if kind == K.Add:
            return l + r
        if kind == K.Mul:
            return l * r
        if kind == K.FloorDiv:
            return l // r
        if kind == K.CeilDiv:
            return l.ceil_div(r)
        if kind == K.Mod:
            return l % r
        raise AssertionError(kind)

    if b in EE:
        l, r = build(t[1]), build(t[2])
        if b == "sub":
            assert sfx == ""
            return l - r
        return combine(K.Add if b == "add" else K.Mul, l, r, None, False)
    if b in EC:
        e, c = build(t[1]), t[2]
        C = AffineConstantExpr(c)
        if b == "sub_const":
            assert sfx in ("", "c")
            return e - (c if sfx == "" else C)
        kind = {"add_const": K.Add, "mul": K.Mul, "floordiv": K.FloorDiv, "ceildiv": K.CeilDiv,
                "mod": K.Mod}[b]
        return combine(kind, e, C, c, False)
    if b in CE:
        c, e = t[1], build(t[2])
        C = AffineConstantExpr(c)
        if b == "rsub_const":
            assert sfx in ("", "c")
            return (c if sfx == "" else C) - e
        return combine(K.Add if b == "radd_const" else K.Mul, C, e, c, True)
    raise AssertionError(f"bad recipe node {t!r}")


_CALLABLES = [
    lambda f: (lambda: f()),
    lambda f: (lambda a: f(a)),
    lambda f: (lambda a, b: f(a, b)),
    lambda f: (lambda a, b, c: f(a, b, c)),
    lambda f: (lambda a, b, c, d: f(a, b, c, d)),
    lambda f: (lambda a, b, c, d, e: f(a, b, c, d, e)),
]


def build_map(m, via="ctor"):
    from xdsl.ir.affine import AffineMap
    exprs = tuple(build(t) for t in m["results"])
    if via == "callable":
        # from_callable hands out AffineExpr.dimension/symbol objects; the trees are built from
        # equal (frozen dataclass) objects, so returning the prebuilt results is the same map.
        nd, ns = m["nd"], m["ns"]
        f = _CALLABLES[nd + ns](lambda *a: exprs)
        return AffineMap.from_callable(f, dim_symbol_split=(nd, ns))
    return AffineMap(m["nd"], m["ns"], exprs)


# ----------------------------------------------------------------------------------------------
# evaluation box
_BOX: dict = {}


def box(nd: int, ns: int):
    """(pts, D, S, n): pts = list of (dims tuple, syms tuple); D/S = columns."""
    key = (nd, ns)
    if key not in _BOX:
        nv = nd + ns
        B = 6 if nv <= 3 else (3 if nv == 4 else 2)
        assert nv <= 5
        flat = list(itertools.product(range(-B, B + 1), repeat=nv))
        cols = [list(c) for c in zip(*flat)] if nv else []
        pts = [(p[:nd], p[nd:]) for p in flat]
        _BOX[key] = (pts, cols[:nd], cols[nd:], len(flat))
    return _BOX[key]


def xeval(expr, pts):
    return [expr.eval(d, s) for d, s in pts]


def first_diff(got, exp, pts):
    for g, e, p in zip(got, exp, pts):
        if g != e:
            return f"at dims={list(p[0])} syms={list(p[1])}: got {g} expected {e}"
    return "?"


def exc_sig(e: BaseException) -> dict:
    import traceback
    where = "?"
    for fr in reversed(traceback.extract_tb(e.__traceback__)):
        if "/xdsl/" in fr.filename:
            where = fr.filename.split("/xdsl/", 1)[1] + ":" + fr.name
            break
    return {"exc": type(e).__name__, "where": where}


class Out:
    """collects (sig, detail) pairs + discards of one case"""

    def __init__(self):
        self.mis: list = []
        self.discards: list = []
        self.counts: list = []

    def add(self, sig, detail):
        self.mis.append((sig, detail))


CUT_ERRORS = (AssertionError, ValueError, IndexError, TypeError, ZeroDivisionError, AttributeError,
              KeyError, OverflowError)


class stage:
    """`with stage(out, sig, what) as st:` around calls into the code under test with VALID inputs.
    NotImplementedError -> discard; an exception of CUT_ERRORS raised from inside an xdsl frame ->
    mismatch (the transformed object has no value at all); anything else (a bug of this check)
    propagates and becomes a harness error."""

    def __init__(self, out: Out, sig: dict, what: str = ""):
        self.out, self.sig, self.what, self.failed = out, sig, what, False

    def __enter__(self):
        return self

    def __exit__(self, et, ev, tb):
        import traceback
        if et is None:
            return False
        if issubclass(et, NotImplementedError):
            self.out.discards.append(f"{self.sig['check']}_not_implemented")
            self.failed = True
            return True
        if issubclass(et, CUT_ERRORS):
            frames = traceback.extract_tb(tb)
            if frames and "/xdsl/" in frames[-1].filename:
                self.out.add({**self.sig, "kind": "exception", **exc_sig(ev)},
                             f"{self.what} raised {ev!r}")
                self.failed = True
                return True
        return False


# ----------------------------------------------------------------------------------------------
# sub-oracles
def check_build(out: Out, trees, nd, ns) -> list | None:
    """Builds every tree and compares expr.eval with the reference on the whole box.
    Returns [(expr, refcol)] or None when the case cannot go on (discard / build mismatch)."""
    pts, D, S, n = box(nd, ns)
    res = []
    ok = True
    for t in trees:
        try:
            e = build(t)
        except NotImplementedError:
            out.discards.append("build_semi_affine_not_implemented")
            return None
        exp = ref(t, D, S, n)
        with stage(out, {"check": "build_eval", "op": "any", "route": "any"},
                   f"evaluating {e} built from {t!r}") as stg:
            got = xeval(e, pts)
        if stg.failed:
            return None
        if got != exp:
            ok = False
            # localise: first (post-order) subtree whose own build disagrees
            culprit, cd = t, first_diff(got, exp, pts)
            for s in subtrees(t):
                es = build(s)
                xs = ref(s, D, S, n)
                try:
                    gs = xeval(es, pts)
                except CUT_ERRORS as ex:
                    gs = [repr(ex)] * n
                if gs != xs:
                    culprit, cd = s, f"{s!r} built as {es}: " + first_diff(gs, xs, pts)
                    break
            cb, _, csfx = culprit[0].partition(":")
            out.add({"check": "build_eval", "op": cb,
                     "route": {"": "operator_int", "c": "operator_constexpr", "b": "binary",
                               "k": "constructor"}[csfx]},
                    f"minimal failing subtree {cd}; whole tree {t!r} built as {e}")
        res.append((e, exp))
    return res if ok else None


def check_simplify(out: Out, name, exprs_refs, nd, ns, trees=None):
    """simplify with a fresh flattener per expression, a second simplify of the result, and one
    flattener shared by all expressions (documented use for the results of one map)."""
    from xdsl.ir.affine.affine_expr import SimpleAffineExprFlattener
    pts, D, S, n = box(nd, ns)

    def run(kind, fn, exp, idx):
        fsig = {"check": "simplify", "flattener": "shared" if kind == "shared_flattener" else "fresh"}
        try:
            with stage(out, fsig, f"[{name}/{kind}] on {exprs_refs[idx][0]}") as stg:
                s = fn()
                got = xeval(s, pts)
        except RecursionError:
            out.discards.append(f"{kind}_recursion")
            return None
        if stg.failed:
            if out.discards and out.discards[-1] == "simplify_not_implemented":
                out.discards[-1] = f"{kind}_not_implemented"
            return None
        if got != exp:
            src = exprs_refs[idx][0]
            out.add({"check": "simplify", "flattener": "shared" if kind == "shared_flattener" else "fresh",
                     "kind": "value", "root": minimal_simplify_failure(src, nd, ns, pts)},
                    f"[{name}/{kind}] {src}  ->  {s}: " + first_diff(got, exp, pts) +
                    (f" (recipe {trees[idx]!r})" if trees else ""))
        return s

    for i, (e, exp) in enumerate(exprs_refs):
        s1 = run("simplify", lambda: e.simplify(nd, ns), exp, i)
        if s1 is not None and s1 != e:
            out.counts.append("simplify_changed")
            run("simplify_twice", lambda: s1.simplify(nd, ns), exp, i)
    if len(exprs_refs) > 1:
        fl = SimpleAffineExprFlattener(nd, ns)
        for i, (e, exp) in enumerate(exprs_refs):
            if not e.is_pure_affine():
                out.discards.append("shared_flattener_semi_affine")
                break
            r = run("shared_flattener", lambda: fl.simplify(e), exp, i)
            if r is None:
                break


def minimal_simplify_failure(expr, nd, ns, pts) -> str:
    """kind of the root of the first (post-order) sub-expression whose own simplification changes
    its value: the root-cause class of a simplify mismatch"""
    from xdsl.ir.affine import AffineBinaryOpExpr
    done = []
    for sub in expr.post_order():
        if not isinstance(sub, AffineBinaryOpExpr) or any(sub is d or sub == d for d in done):
            continue
        done.append(sub)
        try:
            s = sub.simplify(nd, ns)
        except (NotImplementedError, AssertionError, ValueError, IndexError, TypeError):
            continue
        try:
            differs = xeval(s, pts) != xeval(sub, pts)
        except CUT_ERRORS:
            differs = True
        if differs:
            return sub.kind.name
    return expr.kind.name if isinstance(expr, AffineBinaryOpExpr) else type(expr).__name__


_CTX = None


def ctx():
    global _CTX
    if _CTX is None:
        from xdsl.context import Context
        from xdsl.dialects import affine, test
        from xdsl.dialects.builtin import Builtin
        _CTX = Context()
        _CTX.load_dialect(Builtin)
        _CTX.load_dialect(affine.Affine)
        _CTX.load_dialect(test.Test)
    return _CTX


def check_print_parse(out: Out, amap, refs, nd, ns):
    """str / Printer -> parser; the re-parsed map must have the same signature and values."""
    from xdsl.dialects.builtin import AffineMapAttr
    from xdsl.parser import Parser
    from xdsl.printer import Printer
    from xdsl.utils.exceptions import ParseError
    pts, D, S, n = box(nd, ns)
    buf = io.StringIO()
    with stage(out, {"check": "print_parse", "route": "printer_attr"}, f"printing {amap!r}") as stg:
        Printer(buf).print_attribute(AffineMapAttr(amap))
        str(amap)
    if stg.failed:
        return
    routes = [
        ("printer_attr", buf.getvalue(), lambda p: p.parse_attribute().data),
        ("str_attr", f"affine_map<{amap}>", lambda p: p.parse_attribute().data),
        ("str_parse_affine_map", str(amap), lambda p: p.parse_affine_map()),
    ]
    seen = []
    for route, text, fn in routes:
        try:
            with stage(out, {"check": "print_parse", "route": route}, f"parsing {text!r}") as stg:
                m2 = fn(Parser(ctx(), text))
        except ParseError as ex:
            out.add({"check": "print_parse", "route": route, "kind": "parse_error"},
                    f"printed text {text!r} does not parse: {ex}")
            continue
        if stg.failed:
            continue
        if (m2.num_dims, m2.num_symbols, len(m2.results)) != (nd, ns, len(refs)):
            out.add({"check": "print_parse", "route": route, "kind": "shape"},
                    f"{text!r} re-parsed as {m2}")
            continue
        if m2 == amap or any(m2 == s for s in seen):
            out.counts.append("reparse_structurally_equal")
            continue  # same structure => same eval, already compared
        seen.append(m2)
        out.counts.append("reparse_structurally_different_evaluated")
        with stage(out, {"check": "print_parse", "route": route}, f"evaluating {m2} re-parsed from {text!r}") as stg:
            got = [m2.eval(d, s) for d, s in pts]
        if stg.failed:
            continue
        exp = list(zip(*refs)) if refs else [()] * n
        if got != exp:
            out.add({"check": "print_parse", "route": route, "kind": "value"},
                    f"{text!r} re-parsed as {m2}: " + first_diff(got, exp, pts))


def check_ssa_ids(out: Out, amap, trees, refs, nd, ns):
    """affine.load prints its map over SSA operands with minimal parentheses; the parser rebuilds a
    symbol-only map over the operands it meets. Values must agree under the operand binding."""
    from xdsl.dialects import affine, test
    from xdsl.dialects.builtin import AffineMapAttr, IndexType, MemRefType, ModuleOp, i32
    from xdsl.parser import Parser
    from xdsl.printer import Printer
    from xdsl.utils.exceptions import ParseError
    pts, D, S, n = box(nd, ns)
    nv = nd + ns
    rank = max(1, len(trees))
    src = test.TestOp(result_types=[MemRefType(i32, [4] * rank)] + [IndexType()] * nv)
    ld = affine.LoadOp(src.results[0], src.results[1:], AffineMapAttr(amap))
    mod = ModuleOp([src, ld])
    buf = io.StringIO()
    with stage(out, {"check": "print_parse_ssa_ids"}, f"printing affine.load with map {amap}") as stg:
        Printer(buf).print_op(mod)
    if stg.failed:
        return
    text = buf.getvalue()
    try:
        with stage(out, {"check": "print_parse_ssa_ids"}, f"parsing\n{text}\n") as stg:
            mod2 = Parser(ctx(), text).parse_module()
    except ParseError as ex:
        out.add({"check": "print_parse_ssa_ids", "kind": "parse_error"},
                f"printed text does not parse: {ex}\n{text}")
        return
    if stg.failed:
        return
    ops = list(mod2.body.block.ops)
    ld2 = ops[1]
    assert isinstance(ld2, affine.LoadOp)
    m2 = ld2.map.data
    idx = []
    for v in ld2.indices:
        assert v.owner is ops[0]
        idx.append(v.index - 1)
    if m2.num_dims != 0 or m2.num_symbols != len(idx) or len(m2.results) != len(trees):
        out.add({"check": "print_parse_ssa_ids", "kind": "shape"}, f"{text} re-parsed as {m2}")
        return
    flat = [d + s for d, s in pts]
    with stage(out, {"check": "print_parse_ssa_ids"}, f"evaluating {m2} re-parsed from\n{text}\n") as stg:
        got = [m2.eval((), tuple(p[i] for i in idx)) for p in flat]
    exp = list(zip(*refs)) if refs else [()] * n
    if stg.failed or got == exp:
        return
    # classify: is the difference exactly "symbol p printed as operand p instead of operand nd+p"?
    cls = "value"
    if nd > 0 and ns > 0:
        allc = D + S
        S_alt = [allc[p] for p in range(ns)]
        alt = [ref(t, D, S_alt, n) for t in trees]
        if got == list(zip(*alt)):
            cls = "symbol_p_printed_as_operand_p"
    out.add({"check": "print_parse_ssa_ids", "kind": cls},
            f"map {amap} printed as\n{text}\nre-parsed as {m2} over operands {idx}: "
            + first_diff(got, exp, pts))


def check_drop(out: Out, amap, trees, refs, nd, ns, drop):
    """drop_dims of dims that no result uses (MLIR compressDims precondition) and drop_results."""
    pts, D, S, n = box(nd, ns)
    used_d = set()
    for t in trees:
        used_d |= used(t, "dim")
    mask = [bool(drop[i % len(drop)]) and i not in used_d for i in range(nd)] if drop else [False] * nd
    with stage(out, {"check": "drop_dims"}, f"({amap}).drop_dims({mask})"):
        _drop_dims(out, amap, trees, refs, nd, ns, mask)
    if trees and drop:
        rmask = [bool(drop[(i + 1) % len(drop)]) for i in range(len(trees))]
        with stage(out, {"check": "drop_results"}, f"({amap}).drop_results({rmask})"):
            _drop_results(out, amap, trees, refs, nd, ns, rmask)


def _drop_dims(out, amap, trees, refs, nd, ns, mask):
    pts, D, S, n = box(nd, ns)
    m2 = amap.drop_dims(mask) if nd else None
    if m2 is not None:
        keep = [i for i in range(nd) if not mask[i]]
        if m2.num_dims != len(keep) or m2.num_symbols != ns or len(m2.results) != len(trees):
            out.add({"check": "drop_dims", "kind": "shape"}, f"{amap}.drop_dims({mask}) = {m2}")
        elif m2 == amap:
            pass  # nothing dropped, structurally the same map: values already compared
        else:
            got = [m2.eval(tuple(d[i] for i in keep), s) for d, s in pts]
            exp = list(zip(*refs))
            if got != exp:
                out.add({"check": "drop_dims", "kind": "value"},
                        f"{amap}.drop_dims({mask}) = {m2}: " + first_diff(got, exp, pts))
        if any(mask):
            out.counts.append("drop_dims_dropped")


def _drop_results(out, amap, trees, refs, nd, ns, rmask):
    pts, D, S, n = box(nd, ns)
    m3 = amap.drop_results(rmask)
    keepr = [i for i in range(len(trees)) if not rmask[i]]
    if (m3.num_dims, m3.num_symbols, len(m3.results)) != (nd, ns, len(keepr)):
        out.add({"check": "drop_results", "kind": "shape"}, f"{amap}.drop_results({rmask}) = {m3}")
    elif m3.results == tuple(amap.results[i] for i in keepr):
        pass  # exactly the kept result expressions, whose values are already compared
    else:
        got = [m3.eval(d, s) for d, s in pts]
        exp = list(zip(*[refs[i] for i in keepr])) if keepr else [()] * n
        if got != exp:
            out.add({"check": "drop_results", "kind": "value"},
                    f"{amap}.drop_results({rmask}) = {m3}: " + first_diff(got, exp, pts))


# ----------------------------------------------------------------------------------------------
# case kinds
def case_map(out: Out, r):
    nd, ns, trees = r["nd"], r["ns"], r["results"]
    pts, D, S, n = box(nd, ns)
    br = check_build(out, trees, nd, ns)
    if br is None:
        return
    refs = [x for _, x in br]
    with stage(out, {"check": "map_eval", "via": r.get("via", "ctor")}, f"map of {trees!r}") as stg:
        amap = build_map(r, r.get("via", "ctor"))
        if (amap.num_dims, amap.num_symbols, len(amap.results)) != (nd, ns, len(trees)):
            out.add({"check": "map_build", "kind": "shape", "via": r.get("via", "ctor")}, f"{amap}")
            return
        got = [amap.eval(d, s) for d, s in pts]
    if stg.failed:
        return
    exp = list(zip(*refs)) if refs else [()] * n
    if got != exp:
        out.add({"check": "map_eval", "via": r.get("via", "ctor")},
                f"{amap}: " + first_diff(got, exp, pts))
    check_simplify(out, "simplify", br, nd, ns, trees)
    check_print_parse(out, amap, refs, nd, ns)
    check_ssa_ids(out, amap, trees, refs, nd, ns)
    check_drop(out, amap, trees, refs, nd, ns, r.get("drop") or [])


def case_compose(out: Out, r):
    from xdsl.ir.affine import AffineMap
    o, i = r["outer"], r["inner"]
    assert o["nd"] == len(i["results"]), "generator: outer dims must equal inner results"
    # both maps are checked on their own first (build defects must not be blamed on compose)
    bo = check_build(out, o["results"], o["nd"], o["ns"])
    bi = check_build(out, i["results"], i["nd"], i["ns"])
    if bo is None or bi is None:
        return
    mo, mi = build_map(o), build_map(i)
    # --- AffineMap.compose: dims of inner, symbols = outer's then inner's
    nd, ns = i["nd"], o["ns"] + i["ns"]
    pts, D, S, n = box(nd, ns)
    inner_cols = [ref(t, D, S[o["ns"]:], n) for t in i["results"]]
    exp_cols = [ref(t, inner_cols, S[:o["ns"]], n) for t in o["results"]]
    mc = got = None
    with stage(out, {"check": "map_compose"}, f"({mo}).compose({mi})") as stg:
        mc = mo.compose(mi)
        got = [mc.eval(d, s) for d, s in pts]
    if not stg.failed:
        if (mc.num_dims, mc.num_symbols, len(mc.results)) != (nd, ns, len(o["results"])):
            out.add({"check": "map_compose", "kind": "shape"}, f"({mo}).compose({mi}) = {mc}")
        else:
            exp = list(zip(*exp_cols)) if exp_cols else [()] * n
            if got != exp:
                out.add({"check": "map_compose", "kind": "value"},
                        f"({mo}).compose({mi}) = {mc}: " + first_diff(got, exp, pts))
            else:
                check_simplify(out, "simplify_after_compose", list(zip(mc.results, exp_cols)), nd, ns)
                check_print_parse(out, mc, exp_cols, nd, ns)
    # --- AffineExpr.compose: dims replaced by the map's results, symbols shared and untouched
    ns2 = max(o["ns"], i["ns"])
    nd2 = i["nd"]
    pts, D, S, n = box(nd2, ns2)
    inner_cols = [ref(t, D, S, n) for t in i["results"]]
    mi2 = AffineMap(nd2, ns2, mi.results)
    for (e, _), t in zip(bo, o["results"]):
        exp = ref(t, inner_cols, S, n)
        with stage(out, {"check": "expr_compose"}, f"({e}).compose({mi2})") as stg:
            ec = e.compose(mi2)
            got = xeval(ec, pts)
        if stg.failed:
            continue
        if got != exp:
            out.add({"check": "expr_compose", "kind": "value"},
                    f"({e}).compose({mi2}) = {ec}: " + first_diff(got, exp, pts))


def case_replace(out: Out, r):
    src = r["src"]
    nd, ns, rnd, rns = src["nd"], src["ns"], r["rnd"], r["rns"]
    new_dims, new_syms = r["new_dims"], r["new_syms"]
    assert len(new_dims) == nd and len(new_syms) in (0, ns)
    assert new_syms or rns >= ns, "generator: untouched symbols must exist in the result space"
    bs = check_build(out, src["results"], nd, ns)
    bd = check_build(out, new_dims, rnd, rns)
    by = check_build(out, new_syms, rnd, rns)
    if bs is None or bd is None or by is None:
        return
    pts, D, S, n = box(rnd, rns)
    dcols = [x for _, x in bd]
    scols = [x for _, x in by] if new_syms else S[:ns]
    exp_cols = [ref(t, dcols, scols, n) for t in src["results"]]
    nde, nse = [e for e, _ in bd], [e for e, _ in by]
    ms = build_map(src)
    with stage(out, {"check": "map_replace"},
               f"({ms}).replace_dims_and_symbols({[str(x) for x in nde]}, {[str(x) for x in nse]})") as stg:
        mr = ms.replace_dims_and_symbols(nde, nse, rnd, rns)
        got = [mr.eval(d, s) for d, s in pts]
    if stg.failed:
        return
    if (mr.num_dims, mr.num_symbols, len(mr.results)) != (rnd, rns, len(src["results"])):
        out.add({"check": "map_replace", "kind": "shape"}, f"{mr}")
        return
    exp = list(zip(*exp_cols)) if exp_cols else [()] * n
    if got != exp:
        out.add({"check": "map_replace", "kind": "value"},
                f"({ms}).replace_dims_and_symbols({[str(x) for x in nde]}, {[str(x) for x in nse]}) "
                f"= {mr}: " + first_diff(got, exp, pts))
        return
    for (e, _), x in zip(bs, exp_cols):
        with stage(out, {"check": "expr_replace"}, f"({e}).replace_dims_and_symbols(...)") as stg:
            er = e.replace_dims_and_symbols(nde, nse)
            gx = xeval(er, pts)
        if stg.failed:
            continue
        if gx != x:
            out.add({"check": "expr_replace", "kind": "value"},
                    f"({e}).replace_dims_and_symbols(...) = {er}: " + first_diff(gx, x, pts))
    check_simplify(out, "simplify_after_replace", list(zip(mr.results, exp_cols)), rnd, rns)
    check_print_parse(out, mr, exp_cols, rnd, rns)


def case_perm(out: Out, r):
    nd, trees = r["nd"], r["results"]
    br = check_build(out, trees, nd, 0)
    if br is None:
        return
    with stage(out, {"check": "permutation_api"}, f"permutation APIs on map of {trees!r}"):
        _case_perm(out, r, br)


def _case_perm(out: Out, r, br):
    from xdsl.ir.affine import AffineMap
    nd, trees = r["nd"], r["results"]
    m = AffineMap(nd, 0, tuple(e for e, _ in br))
    pts, D, S, n = box(nd, 0)
    from xdsl.ir.affine import AffineConstantExpr, AffineDimExpr
    # classification of the INPUT map (what its results are), not of any answer: operators fold
    # e.g. d0 + 0 to the bare d0, so the recipe tree alone does not tell
    bare = [e.position if isinstance(e, AffineDimExpr) else None for e, _ in br]
    zero = [isinstance(e, AffineConstantExpr) and e.value == 0 for e, _ in br]
    # inverse_permutation: defined iff every dim occurs as a bare result; inv(m(x)) == x
    inv = m.inverse_permutation()
    invertible = all(i in bare for i in range(nd))
    if (inv is not None) != invertible:
        out.add({"check": "inverse_permutation", "kind": "definedness"},
                f"{m}.inverse_permutation() = {inv}, every dim is a bare result: {invertible}")
    elif inv is not None:
        if inv.num_dims != len(trees) or inv.num_symbols != 0 or len(inv.results) != nd:
            out.add({"check": "inverse_permutation", "kind": "shape"}, f"{m} -> {inv}")
        else:
            for d, s in pts:
                y = m.eval(d, s)
                if tuple(inv.eval(y, ())) != tuple(d):
                    out.add({"check": "inverse_permutation", "kind": "value"},
                            f"{m} inverse {inv}: x={d} m(x)={y} inv(m(x))={inv.eval(y, ())}")
                    break
            # documented: the FIRST codomain dimension of each domain dim is selected
            first = [bare.index(i) for i in range(nd)]
            if [x.position if isinstance(x, AffineDimExpr) else None for x in inv.results] != first:
                out.add({"check": "inverse_permutation", "kind": "not_first"}, f"{m} -> {inv}")
    # projected permutations (distinct bare dims, optional zeros)
    dims_only = [b for b in bare if b is not None]
    is_pp = (len(trees) <= nd and len(set(dims_only)) == len(dims_only)
             and all(b is not None or z for b, z in zip(bare, zero)))
    no_zero = is_pp and all(b is not None for b in bare)
    if m.is_projected_permutation(allow_zero_in_results=True) != is_pp or \
            m.is_projected_permutation() != no_zero:
        out.add({"check": "is_projected_permutation", "kind": "value"},
                f"{m}: got {m.is_projected_permutation(True)}/{m.is_projected_permutation()} "
                f"expected {is_pp}/{no_zero}")
        return
    if no_zero:
        out.counts.append("projected_permutation")
        for d, s in pts[:: max(1, n // 200)]:
            if tuple(m.apply_permutation(list(d))) != tuple(d[b] for b in bare):
                out.add({"check": "apply_permutation", "kind": "value"}, f"{m} on {d}")
                break
    if is_pp:
        ib = m.inverse_and_broadcast_projected_permutation()
        nres = len(trees)
        if ib.num_dims != nres or ib.num_symbols != 0 or len(ib.results) != nd:
            out.add({"check": "inverse_and_broadcast", "kind": "shape"}, f"{m} -> {ib}")
        else:
            ypts, _, _, _ = box(nres, 0)
            for y, _s in ypts:
                x = ib.eval(y, ())
                back = m.eval(x, ())
                exp = tuple(y[k] if bare[k] is not None else 0 for k in range(nres))
                unused_zero = all(x[j] == 0 for j in range(nd) if j not in dims_only)
                if tuple(back) != exp or not unused_zero:
                    out.add({"check": "inverse_and_broadcast", "kind": "value"},
                            f"{m} -> {ib}: y={y} ib(y)={x} m(ib(y))={back}")
                    break


def case_flat(out: Out, r):
    from xdsl.ir.affine import AffineExpr
    nd, ns, coeffs, locs = r["nd"], r["ns"], r["coeffs"], r["locals"]
    assert len(coeffs) == nd + ns + len(locs) + 1
    bl = check_build(out, locs, nd, ns)
    if bl is None:
        return
    pts, D, S, n = box(nd, ns)
    cols = D + S + [x for _, x in bl]
    exp = [sum(c * col[k] for c, col in zip(coeffs[:-1], cols)) + coeffs[-1] for k in range(n)]
    with stage(out, {"check": "from_flat_form"}, f"from_flat_form({coeffs}, {nd}, {ns}, ...)") as stg:
        e = AffineExpr.from_flat_form(coeffs, nd, ns, [x for x, _ in bl])
        got = xeval(e, pts)
    if stg.failed:
        return
    if got != exp:
        out.add({"check": "from_flat_form", "kind": "value"},
                f"from_flat_form({coeffs}, {nd}, {ns}, {[str(x) for x, _ in bl]}) = {e}: "
                + first_diff(got, exp, pts))
        return
    check_simplify(out, "simplify_after_flat", [(e, exp)], nd, ns)


def case_fixed(out: Out, r):
    """constructor maps with a documented meaning"""
    with stage(out, {"check": "fixed_maps", "what": r["what"]}, f"{r!r}"):
        _case_fixed(out, r)


def _case_fixed(out: Out, r):
    from xdsl.ir.affine import AffineMap
    k = r["what"]
    if k == "identity":
        nd, ns = r["nd"], r["ns"]
        m = AffineMap.identity(nd, ns)
        pts, _, _, _ = box(nd, ns)
        bad = next((p for p in pts if tuple(m.eval(*p)) != tuple(p[0]) + tuple(p[1])), None)
    elif k == "minor_identity":
        nd, nr = r["nd"], r["nr"]
        m = AffineMap.minor_identity(nd, nr)
        pts, _, _, _ = box(nd, 0)
        bad = next((p for p in pts if tuple(m.eval(*p)) != tuple(p[0][nd - nr:])), None)
        if bad is None and not m.is_minor_identity():
            bad = "is_minor_identity false"
    elif k == "transpose":
        m = AffineMap.transpose_map()
        pts, _, _, _ = box(2, 0)
        bad = next((p for p in pts if tuple(m.eval(*p)) != (p[0][1], p[0][0])), None)
    elif k == "point":
        m = AffineMap.point_map(*r["values"])
        bad = None if tuple(m.eval((), ())) == tuple(r["values"]) else "point"
        if len(r["values"]) == 1 and AffineMap.constant_map(r["values"][0]) != m:
            bad = "constant_map"
    else:
        raise AssertionError(k)
    if bad is not None:
        out.add({"check": "fixed_maps", "what": k}, f"{m}: {bad}")


KINDS = {"map": case_map, "compose": case_compose, "replace": case_replace, "perm": case_perm,
         "flat": case_flat, "fixed": case_fixed}


def all_trees(r):
    k = r["kind"]
    if k == "map" or k == "perm":
        return list(r["results"])
    if k == "compose":
        return list(r["outer"]["results"]) + list(r["inner"]["results"])
    if k == "replace":
        return list(r["src"]["results"]) + list(r["new_dims"]) + list(r["new_syms"])
    if k == "flat":
        return list(r["locals"])
    return []


def recipe_nontrivial(r) -> bool:
    trees = all_trees(r)
    if any(tree_nontrivial(t) for t in trees):
        return True
    if r["kind"] == "compose":  # div/mod of the outer map applied to a non-leaf inner result
        return (any(ops_of(t) & set(DIVMOD) for t in r["outer"]["results"])
                and any(depth(t) >= 2 for t in r["inner"]["results"]))
    if r["kind"] == "replace":
        return (any(ops_of(t) & set(DIVMOD) for t in r["src"]["results"])
                and any(depth(t) >= 2 for t in r["new_dims"] + r["new_syms"]))
    return False


def render(r) -> str:
    try:
        return " ; ".join(str(build(t)) for t in all_trees(r))[:600]
    except NotImplementedError:
        return "<semi-affine, not buildable>"


def run_case(h, r, label=None):
    out = Out()
    KINDS[r["kind"]](out, r)
    nt = recipe_nontrivial(r)
    h.case(r, nt, label=label or r["kind"], sample={"recipe": r, "exprs": render(r)} if nt else None)
    ops = set()
    for t in all_trees(r):
        ops |= {s[0] for s in subtrees(t)}
    for o in sorted(ops):
        if base(o) not in ("dim", "sym", "const"):
            h.count("op_" + o)
    trees = all_trees(r)
    if trees:
        dmax = max(depth(t) for t in trees)
        h.count("depth_%s" % (dmax if dmax < 6 else "ge6"))
        if any(nested_divmod(t) for t in trees):
            h.count("nested_divmod")
        if any(len(used(t, "dim") | {("s", x) for x in used(t, "sym")}) >= 2 for t in trees):
            h.count("tree_with_ge2_variables")
    for c in out.counts:
        h.count(c)
    for d in out.discards:
        h.discard(d)
    for sig, detail in out.mis:
        h.mismatch(sig, r, detail)


def replay(h, recipe):
    run_case(h, recipe, "replay")


# ----------------------------------------------------------------------------------------------
# strategies
@functools.lru_cache(maxsize=None)
def tree_st(nd, ns, with_rsub=False, max_leaves=6, semi=True):
    leaves = []
    if nd:
        leaves += [st.tuples(st.sampled_from(["dim", "dim", "dim:k"]), st.integers(0, nd - 1))] * 3
    if ns:
        leaves += [st.tuples(st.sampled_from(["sym", "sym", "sym:k"]), st.integers(0, ns - 1))] * 2
    leaves.append(st.tuples(st.sampled_from(["const", "const:k"]), st.integers(-5, 5)))
    atom = st.one_of(*leaves).map(list)
    var = st.one_of(*leaves[:-1]).map(list) if len(leaves) > 1 else atom
    coef = st.one_of(st.integers(-4, 4), st.integers(-12, 12))
    pos = st.one_of(st.integers(1, 6), st.integers(2, 4), st.integers(1, 16))

    def sf(name, sfx):
        return st.sampled_from([name + s for s in sfx])

    # linear combinations  k1*x1 (+|-) k2*x2 ... (+ c)  as base material: div/mod of sums over
    # several variables is what the flattener has to get right
    four_ = ("", ":c", ":b", ":k")
    mulop = st.sampled_from(["mul" + x for x in four_] + ["rmul_const" + x for x in four_[:3]] + ["one"])
    addop = st.sampled_from(["add", "add", "add:b", "add:k", "sub"])
    cop = st.sampled_from(["add_const" + x for x in four_] + ["radd_const" + x for x in four_]
                          + ["sub_const", "sub_const:c", "none", "none", "none"])

    def make_lin(terms, c_op, c):
        t = None
        for leaf_, k, mop, aop in terms:
            if mop == "one":
                term = leaf_
            elif mop.startswith("rmul"):
                term = [mop, k, leaf_]
            else:
                term = [mop, leaf_, k]
            t = term if t is None else [aop, t, term]
        if c_op == "none":
            return t
        return [c_op, c, t] if c_op.startswith("radd") else [c_op, t, c]

    lin = st.builds(make_lin,
                    st.lists(st.tuples(st.one_of(var, var, var, atom), st.integers(-4, 4), mulop, addop).map(list),
                             min_size=1, max_size=3),
                    cop, st.integers(-7, 7))
    leaf = st.one_of(atom, lin, lin)

    def extend(ch):
        four = ("", ":c", ":b", ":k")
        alts = [
            st.tuples(sf("add", ("", "", ":b", ":k")), ch, ch),
            st.tuples(st.just("sub"), ch, ch),
            st.tuples(sf("add_const", four), ch, coef),
            st.tuples(sf("sub_const", ("", ":c")), ch, coef),
            st.tuples(sf("radd_const", four), coef, ch),
            st.tuples(sf("rsub_const", ("", ":c") if with_rsub else (":c",)), coef, ch),
            st.tuples(sf("mul", four), ch, coef),
            st.tuples(sf("rmul_const", four), coef, ch),
            st.tuples(st.just("neg"), ch),
            st.tuples(sf("floordiv", four), ch, pos),
            st.tuples(sf("ceildiv", four), ch, pos),
            st.tuples(sf("mod", four), ch, pos),
            st.tuples(sf("floordiv", four), ch, pos),
            st.tuples(sf("ceildiv", four), ch, pos),
            st.tuples(sf("mod", four), ch, pos),
            st.tuples(sf("mul", four), ch, coef),
        ]
        if semi:
            # product of two sub-expressions: affine only when one side folds to a constant
            alts.append(st.tuples(sf("mulx", ("", ":b", ":k")), ch,
                                  st.tuples(st.just("const"), st.integers(-3, 3)).map(list)))
        return st.one_of(*alts).map(list)

    return st.recursive(leaf, extend, max_leaves=max_leaves)


SPACES_SMALL = [(1, 0), (2, 0), (2, 0), (1, 1), (1, 1), (0, 1), (2, 1), (2, 1), (3, 0), (3, 0), (1, 2), (0, 2)]
SPACES_BIG = [(3, 1), (2, 2), (3, 2), (0, 0)]


def space_st(big=True):
    return st.one_of(st.sampled_from(SPACES_SMALL), st.sampled_from(SPACES_SMALL),
                     st.sampled_from(SPACES_SMALL + SPACES_BIG if big else SPACES_SMALL))


def map_recipe_st(with_rsub):
    @functools.lru_cache(maxsize=None)
    def mk(sp):
        nd, ns = sp
        return st.fixed_dictionaries({
            "kind": st.just("map"), "nd": st.just(nd), "ns": st.just(ns),
            "results": st.lists(tree_st(nd, ns, with_rsub), min_size=1, max_size=3),
            "drop": st.lists(st.booleans(), min_size=1, max_size=3),
            "via": st.sampled_from(["ctor", "ctor", "callable"]),
        })
    return space_st().flatmap(mk)


def semi_recipe_st():
    """a few genuinely semi-affine products: only to measure that they are rejected, not mangled"""
    def mk(sp):
        nd, ns = sp
        t = tree_st(nd, ns, False, max_leaves=3, semi=False)
        prod = st.tuples(st.sampled_from(["mulx", "mulx:b", "mulx:k"]), t, t).map(list)
        return st.fixed_dictionaries({
            "kind": st.just("map"), "nd": st.just(nd), "ns": st.just(ns),
            "results": st.lists(prod, min_size=1, max_size=2),
            "drop": st.just([False]), "via": st.just("ctor")})
    return st.sampled_from([(1, 1), (2, 0), (2, 1)]).flatmap(mk)


def compose_recipe_st(with_rsub):
    # variables of the composed map: inner dims + outer symbols + inner symbols <= 4
    shapes = [(nr, ndi, nso, nsi) for nr in (1, 2, 3) for ndi in (0, 1, 2, 3) for nso in (0, 1, 2)
              for nsi in (0, 1, 2) if ndi + nso + nsi <= (3 if nr > 1 else 4) and ndi + nsi >= 1]

    @functools.lru_cache(maxsize=None)
    def mk(sh):
        nr, ndi, nso, nsi = sh
        return st.fixed_dictionaries({
            "kind": st.just("compose"),
            "outer": st.fixed_dictionaries({
                "nd": st.just(nr), "ns": st.just(nso),
                "results": st.lists(tree_st(nr, nso, with_rsub, 5), min_size=1, max_size=2)}),
            "inner": st.fixed_dictionaries({
                "nd": st.just(ndi), "ns": st.just(nsi),
                "results": st.lists(tree_st(ndi, nsi, with_rsub, 4), min_size=nr, max_size=nr)}),
        })
    return st.sampled_from(shapes).flatmap(mk)


def replace_recipe_st(with_rsub):
    shapes = []
    for nd in (0, 1, 2, 3):
        for ns in (0, 1, 2):
            if nd + ns == 0:
                continue
            for rnd in (0, 1, 2, 3):
                for rns in (0, 1, 2):
                    if 1 <= rnd + rns <= 3:
                        for full in (True, False):
                            if full or (ns > 0 and rns >= ns):
                                shapes.append((nd, ns, rnd, rns, full))

    @functools.lru_cache(maxsize=None)
    def mk(sh):
        nd, ns, rnd, rns, full = sh
        k = ns if full else 0
        return st.fixed_dictionaries({
            "kind": st.just("replace"),
            "src": st.fixed_dictionaries({
                "nd": st.just(nd), "ns": st.just(ns),
                "results": st.lists(tree_st(nd, ns, with_rsub, 5), min_size=1, max_size=2)}),
            "new_dims": st.lists(tree_st(rnd, rns, with_rsub, 3), min_size=nd, max_size=nd),
            "new_syms": st.lists(tree_st(rnd, rns, with_rsub, 3), min_size=k, max_size=k),
            "rnd": st.just(rnd), "rns": st.just(rns),
        })
    return st.sampled_from(shapes).flatmap(mk)


def perm_recipe_st():
    def mk(nd):
        bare = st.tuples(st.just("dim"), st.integers(0, nd - 1)).map(list)
        zero = st.just(["const", 0])
        other = tree_st(nd, 0, False, 3, semi=False)
        return st.fixed_dictionaries({
            "kind": st.just("perm"), "nd": st.just(nd),
            "results": st.one_of(
                st.permutations(list(range(nd))).flatmap(
                    lambda p: st.lists(st.one_of(zero, other, bare), max_size=2).map(
                        lambda extra: [["dim", i] for i in p] + extra)),
                st.lists(st.one_of(bare, bare, bare, zero, other), min_size=0, max_size=nd + 2),
                st.lists(st.one_of(bare, bare, zero), min_size=0, max_size=nd),
            )})
    return st.integers(1, 3).flatmap(mk)


def flat_recipe_st():
    def mk(sp):
        nd, ns = sp
        return st.lists(tree_st(nd, ns, False, 4), min_size=0, max_size=2).flatmap(
            lambda locs: st.fixed_dictionaries({
                "kind": st.just("flat"), "nd": st.just(nd), "ns": st.just(ns),
                "coeffs": st.lists(st.integers(-4, 4), min_size=nd + ns + len(locs) + 1,
                                   max_size=nd + ns + len(locs) + 1),
                "locals": st.just(locs)}))
    return st.sampled_from(SPACES_SMALL).flatmap(mk)


def checks(h):
    # deterministic constructor maps (tiny; shard 0 only)
    if h.shard == 0:
        fixed = [{"kind": "fixed", "what": "identity", "nd": a, "ns": b}
                 for a in range(4) for b in range(3) if a + b <= 3]
        fixed += [{"kind": "fixed", "what": "minor_identity", "nd": a, "nr": b}
                  for a in range(4) for b in range(a + 1)]
        fixed += [{"kind": "fixed", "what": "transpose"}]
        fixed += [{"kind": "fixed", "what": "point", "values": v} for v in ([], [3], [-2, 7], [0, 0, 1])]
        for r in fixed:
            run_case(h, r, "fixed")

    def body(r):
        run_case(h, r)

    def body_main(r):
        h.exclude("F-C26-1:int_minus_expr(__rsub__) not generated in the main search")
        run_case(h, r)

    # main search: `int - expr` (known finding F-C26-1) is steered around by construction ...
    h.hyp("map", map_recipe_st(False), body_main, h.scale(260, 5200), 1)
    h.hyp("compose", compose_recipe_st(False), body_main, h.scale(100, 2000), 2)
    h.hyp("replace", replace_recipe_st(False), body_main, h.scale(80, 1600), 3)
    h.hyp("flat", flat_recipe_st(), body, h.scale(40, 700), 4)
    h.hyp("perm", perm_recipe_st(), body, h.scale(60, 900), 5)
    h.hyp("semi_affine", semi_recipe_st(), body, h.scale(10, 100), 6)
    # ... and probed with a fixed quota so that the KNOWN-FINDING line stays honest
    h.hyp("map_with_rsub", map_recipe_st(True), body, h.scale(30, 500), 7)
    h.hyp("compose_with_rsub", compose_recipe_st(True), body, h.scale(10, 160), 8)
