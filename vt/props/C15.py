"""C15 -- The interpreter computes MLIR semantics for arithmetic and control flow.

Two sub-checks, both against the independent reference evaluator vt.refsem:

(a) "op": every arith operation (and cmpi/cmpf predicate) of the dialect in a one-op function
    `func @f(args) { %r = op args ; return %r }`, run through `Interpreter.call_op("f", args)`:
    exhaustive operand tuples for i1..i4 (thorough: ..i6), boundary x boundary plus Hypothesis-random
    operands for i8/i16/i32/i64/index (index at 32 and 64 bits), specials x specials plus random for f32/f64.
    Operations without an interpreter implementation (InterpretationError "Could not find interpretation
    function ..." / "not implemented") are out of scope: discarded and counted.
(b) "program": progen multi-operation func/arith/cf/scf programs (sub-language = what the interpreter
    implements, found by probing), run through Interpreter.call_op vs refsem.run_function on input vectors
    derived from recipe data.  On a wrong final result the interpreter run is repeated with a Listener and the
    FIRST operation whose output disagrees with refsem on the interpreter's own inputs gives the signature.

Inputs are handed to the interpreter in its canonical form: integers as signed two's complement values
(`IntegerType.normalized_value`: "ambiguous values will always be negative"), floats as Python floats that
are representable in the type.  Results are compared as BIT PATTERNS of the result type (True, 1 and -1 are
the same i1) and must lie in xDSL's own documented signless range [-2^(w-1), 2^w)
(xdsl.utils.comparisons.signless_value_range).  Inputs on which refsem yields POISON / UB are excluded.

(b') "recursive": progen.recursive_recipes -- bounded (depth <= 7) direct and mutual recursion in multi-block cf
    form and scf.if form; every activation reads values it defined BEFORE the recursive call AFTER it returns.
(c) "index_width": ONE module, two Interpreter instances with index_bitwidth 64 then 32 (and 32 then 64) in one
    process, same logical operands (wrap-around, slt, index_cast to i64, muli), each compared with refsem at
    the matching width (a fixed table plus generated index/i64 programs).

Recipes:
  {"kind": "index_width", "order": [64, 32], ...progen recipe..., optional "vecs": [[signed ints]]}
  {"kind": "op", "op": "arith.addi", "pred": int | "-", "ty": "i8", "to": null | "i32", "ib": 32|64,
   "args": [unsigned bit patterns / float bit patterns]}
  {"kind": "program", ...progen recipe...}
"""
from __future__ import annotations

import itertools
import math

from hypothesis import strategies as st

from vt import progen, refsem
from vt.run import quiet

ID = "C15"
SHARDS = {"quick": 16, "thorough": 16}
RULE = ("(a) one-op functions for every arith op / cmpi, cmpf predicate run through Interpreter.call_op: exhaustive "
        "operand tuples for i1..i4 (thorough i1..i6), 21+ boundary values squared and Hypothesis-random operands "
        "for i8,i16,i32,i64 and index (index_bitwidth 32 and 64), 46 special bit patterns squared and random "
        "floats for f32,f64, constants at boundary values; ops the interpreter does not implement are discarded. "
        "(b) progen func/arith/scf/cf programs restricted to the interpreter-implemented ops (probed), 4 input "
        "vectors each, index_bitwidth 32 and 64; a second campaign steers around the known defects (signed "
        "predicates only, no shli, no f32) so that they do not mask anything behind them. Oracle: vt.refsem; "
        "inputs in the interpreter's canonical signed form; results compared as bit patterns of the result type "
        "and against xDSL's signless range [-2^(w-1), 2^w); inputs on which refsem yields POISON/UB (also for an "
        "unused intermediate) are excluded and counted. A wrong program result is attributed to the first op "
        "that disagrees with refsem on the interpreter's own operands, else to the control-flow op where the two "
        "execution traces diverge. (b') recursive programs (progen.recursive_recipes): direct/mutual recursion "
        "bounded by a clamped counter, cf three-block and scf.if forms, values defined before the recursive call "
        "read after it. (c) one module run on two Interpreter instances with index_bitwidth 64/32 in both orders "
        "in one process (table of wrap-around/slt/index_cast/muli operands + generated index/i64 programs), each "
        "compared with refsem at the matching width. Non-trivial: an integer operand/result has its top bit set, a float "
        "operand/result is NaN/inf/-0.0/subnormal or the exact result needs rounding; programs: same over "
        "arguments and results, or a loop body executed at least once; recursive: at least one recursive call; "
        "index_width: the reference results differ between the two widths.")
ASSUMPTIONS = ["vt.refsem implements the MLIR arith/scf/cf/func semantics (self-test table of 188 hand-computed cases "
               "is run once per process)",
               "the interpreter's canonical input form for signless integers is the signed value "
               "(IntegerType.normalized_value); i1 true is -1",
               "operations the interpreter reports as not implemented are out of scope"]

INT_BIN = ["addi", "subi", "muli", "divsi", "divui", "remsi", "remui", "floordivsi", "ceildivsi", "ceildivui",
           "andi", "ori", "xori", "shli", "shrsi", "shrui", "minsi", "maxsi", "minui", "maxui"]
INT_BIN2 = ["addui_extended", "mulsi_extended", "mului_extended"]
FLOAT_BIN = ["addf", "subf", "mulf", "divf", "minimumf", "maximumf", "minnumf", "maxnumf"]
WIDE = ["i8", "i16", "i32", "i64"]
FLOATS = ["f32", "f64"]

_state: dict = {}


def _init():
    if "init" not in _state:
        refsem.selftest()
        _state["init"] = True
        _state["entries"] = {}


# ---------------------------------------------------------------------------------------------
# helpers: value forms, classes
# ---------------------------------------------------------------------------------------------

def _is_f(t):
    return t in ("f32", "f64", "f16")


def width_class(ty: str) -> str:
    if _is_f(ty):
        return ty
    if ty == "index":
        return "index"
    w = int(ty[1:])
    return "i1" if w == 1 else "narrow" if w < 8 else "i8..i64"


def pred_name(op: str, pred):
    if pred == "-" or pred is None:
        return "-"
    return (refsem.CMPI if op == "arith.cmpi" else refsem.CMPF)[int(pred)]


def to_interp(v, ty, ib):
    """refsem form -> the interpreter's canonical form."""
    if _is_f(ty):
        return float(v)
    return refsem.to_signed(int(v), refsem.int_width(ty, ib))


def _float_special(x: float, ty: str) -> bool:
    if x != x or x in (math.inf, -math.inf):
        return True
    if x == 0.0:
        return math.copysign(1.0, x) < 0
    tiny = {"f32": 1.1754943508222875e-38, "f64": 2.2250738585072014e-308, "f16": 6.103515625e-05}[ty]
    return abs(x) < tiny


def _top_bit(v, ty, ib) -> bool:
    w = refsem.int_width(ty, ib)
    return bool((int(v) >> (w - 1)) & 1)


def _signless_range(w):
    from xdsl.utils.comparisons import signless_value_range
    return signless_value_range(w)


def check_value(got, exp, ty, ib):
    """Compare one interpreter result with the refsem value.  Returns None or (kind, diag)."""
    if _is_f(ty):
        if isinstance(got, bool) or not isinstance(got, (int, float)):
            return "wrong_type", type(got).__name__
        g = float(got)
        if refsem.values_equal(g, exp):
            return None
        try:
            diag = "unrounded" if refsem.values_equal(refsem.round_float(g, ty), exp) else "-"
        except refsem.UnsupportedOp:
            diag = "-"
        return "wrong_value", diag
    if not isinstance(got, int):
        return "wrong_type", type(got).__name__
    w = refsem.int_width(ty, ib)
    g = int(got)
    if (g & ((1 << w) - 1)) != exp:
        return "wrong_value", "-"
    lo, hi = _signless_range(w)
    if not (lo <= g < hi):
        return "out_of_range", "pattern_ok"
    return None


def _cmpi_diag(pred, args, ty, ib, got):
    """Is a wrong unsigned comparison explained by comparing the signed values?"""
    name = refsem.CMPI[pred]
    if name[0] != "u":
        return "-"
    w = refsem.int_width(ty, ib)
    a, b = refsem.to_signed(args[0], w), refsem.to_signed(args[1], w)
    signed = {"ult": a < b, "ule": a <= b, "ugt": a > b, "uge": a >= b}[name]
    return "signed_compare" if bool(got) == signed else "-"


NOT_IMPL = ("Could not find interpretation function", "not implemented", "mot implemented")


def _not_implemented(e) -> bool:
    from xdsl.utils.exceptions import InterpretationError
    return isinstance(e, InterpretationError) and any(s in str(e) for s in NOT_IMPL)


def new_interpreter(module, ib):
    from xdsl.interpreter import Interpreter
    from xdsl.interpreters.arith import ArithFunctions
    from xdsl.interpreters.cf import CfFunctions
    from xdsl.interpreters.func import FuncFunctions
    from xdsl.interpreters.scf import ScfFunctions
    it = Interpreter(module, index_bitwidth=ib)
    it.register_implementations(FuncFunctions())
    it.register_implementations(ArithFunctions())
    it.register_implementations(ScfFunctions())
    it.register_implementations(CfFunctions())
    return it


# ---------------------------------------------------------------------------------------------
# (a) one-op functions
# ---------------------------------------------------------------------------------------------

def op_signature(cfg):
    """(operand type names, result type names) of a one-op config."""
    op, ty, to = cfg["op"][6:], cfg["ty"], cfg.get("to")
    if op in INT_BIN or op in FLOAT_BIN:
        return [ty, ty], [ty]
    if op == "addui_extended":
        return [ty, ty], [ty, "i1"]
    if op in INT_BIN2:
        return [ty, ty], [ty, ty]
    if op in ("cmpi", "cmpf"):
        return [ty, ty], ["i1"]
    if op == "select":
        return ["i1", ty, ty], [ty]
    if op == "negf":
        return [ty], [ty]
    if op == "constant":
        return [], [ty]
    return [ty], [to]       # casts


def build_op_module(cfg):
    from xdsl.dialects import arith, builtin, func
    from xdsl.ir import Block, Region
    op, ty, to = cfg["op"][6:], cfg["ty"], cfg.get("to")
    in_tys, out_tys = op_signature(cfg)
    blk = Block(arg_types=[progen.xtype(t) for t in in_tys])
    a = blk.args
    if op in ("cmpi", "cmpf"):
        o = getattr(arith, "CmpiOp" if op == "cmpi" else "CmpfOp")(a[0], a[1], int(cfg["pred"]))
    elif op == "select":
        o = arith.SelectOp(a[0], a[1], a[2])
    elif op == "negf":
        o = arith.NegfOp(a[0])
    elif op == "constant":
        v = cfg["value"]
        if _is_f(ty):
            o = arith.ConstantOp(builtin.FloatAttr(refsem.bits_to_float(v, ty), progen.xtype(ty)))
        else:
            o = arith.ConstantOp(builtin.IntegerAttr(refsem.to_signed(v, refsem.int_width(ty, cfg["ib"])),
                                                     progen.xtype(ty)))
    elif op in INT_BIN or op in INT_BIN2 or op in FLOAT_BIN:
        o = progen._arith_cls(op)(a[0], a[1])
    else:
        o = progen._arith_cls(op)(a[0], progen.xtype(to))
    blk.add_op(o)
    blk.add_op(func.ReturnOp(*o.results))
    f = func.FuncOp("f", ([progen.xtype(t) for t in in_tys], [progen.xtype(t) for t in out_tys]), Region(blk))
    m = builtin.ModuleOp([f])
    m.verify()
    return m, o


def cfg_key(cfg):
    return (cfg["op"], cfg.get("pred", "-"), cfg["ty"], cfg.get("to"), cfg["ib"], cfg.get("value"))


def get_entry(cfg):
    _init()
    k = cfg_key(cfg)
    e = _state["entries"].get(k)
    if e is None:
        m, o = build_op_module(cfg)
        in_tys, out_tys = op_signature(cfg)
        attrs = {}
        if cfg["op"] in ("arith.cmpi", "arith.cmpf"):
            attrs = {"pred": int(cfg["pred"])}
        elif cfg["op"] == "arith.constant":
            attrs = {"value": refsem.bits_to_float(cfg["value"], cfg["ty"]) if _is_f(cfg["ty"]) else cfg["value"]}
        e = {"module": m, "op": o, "interp": new_interpreter(m, cfg["ib"]), "in": in_tys, "out": out_tys,
             "attrs": attrs, "unsupported": None}
        _state["entries"][k] = e
    return e


def base_sig(check, op, pred, ty, kind, diag="-"):
    return {"check": check, "op": op, "pred": pred_name(op, pred), "width_class": width_class(ty),
            "kind": kind, "diag": diag}


def decode_args(cfg, raw):
    """Recipe args (bit patterns) -> refsem-form operand values."""
    e_in = op_signature(cfg)[0]
    out = []
    for v, t in zip(raw, e_in):
        if _is_f(t):
            out.append(refsem.bits_to_float(int(v), t))
        else:
            out.append(int(v) & ((1 << refsem.int_width(t, cfg["ib"])) - 1))
    if len(out) != len(e_in):
        raise ValueError("wrong number of operands in op recipe")
    return out


def run_op_case(h, cfg, raw_args, label, distinct=False):
    """One operand tuple of one one-op config."""
    from xdsl.utils.exceptions import InterpretationError
    ent = get_entry(cfg)
    op, ty, ib = cfg["op"], cfg["ty"], cfg["ib"]
    if ent["unsupported"]:
        h.discard("not_implemented:" + op)
        return
    args = decode_args(cfg, raw_args)
    exp = refsem.arith_eval(op, tuple(args), ent["in"], ent["out"], ent["attrs"], ib)
    if any(x is refsem.POISON or isinstance(x, str) for x in exp):
        h.exclude("poison:" + op[6:])
        return
    iargs = tuple(to_interp(v, t, ib) for v, t in zip(args, ent["in"]))
    recipe = {"kind": "op", "op": op, "pred": cfg.get("pred", "-"), "ty": ty, "to": cfg.get("to"), "ib": ib,
              "args": [int(x) for x in raw_args]}
    if cfg.get("value") is not None:
        recipe["value"] = cfg["value"]
    crash = None
    try:
        got = ent["interp"].call_op("f", iargs)
    except InterpretationError as e:
        if _not_implemented(e):
            ent["unsupported"] = str(e)[:120]
            h.discard("not_implemented:" + op)
            return
        crash = e
    except Exception as e:      # any other exception on an input MLIR defines: reported, not swallowed
        crash = e
    # non-trivial?
    nt = False
    for v, t in zip(list(args) + list(exp), ent["in"] + ent["out"]):
        if _is_f(t):
            nt = nt or _float_special(v, t)
        else:
            nt = nt or _top_bit(v, t, ib)
    if not nt and _is_f(ent["out"][0]) and op[6:] in ("addf", "subf", "mulf", "divf") and ent["out"][0] != "f64":
        exact = {"addf": lambda a, b: a + b, "subf": lambda a, b: a - b, "mulf": lambda a, b: a * b,
                 "divf": lambda a, b: a / b if b else math.nan}[op[6:]](*args)
        nt = not refsem.values_equal(exact, exp[0])
    h.case(recipe, nt, label=label, distinct=distinct)
    if crash is not None:
        ent["interp"] = new_interpreter(ent["module"], ib)      # scopes may be left pushed
        h.mismatch(base_sig("op", op, cfg.get("pred", "-"), ty, "crash:" + type(crash).__name__), recipe,
                   f"{op} {pred_name(op, cfg.get('pred', '-'))} : {ty} on {iargs} raised {crash!r:.300}")
        return
    if len(got) != len(exp):
        h.mismatch(base_sig("op", op, cfg.get("pred", "-"), ty, "result_count"), recipe, f"{got!r} vs {exp!r}")
        return
    for g, x, t in zip(got, exp, ent["out"]):
        bad = check_value(g, x, t, ib)
        if bad is None:
            continue
        kind, diag = bad
        if op == "arith.cmpi" and kind == "wrong_value":
            diag = _cmpi_diag(int(cfg["pred"]), args, ty, ib, g)
        xs = refsem.to_signed(x, refsem.int_width(t, ib)) if not _is_f(t) else x
        h.mismatch(base_sig("op", op, cfg.get("pred", "-"), ty, kind, diag), recipe,
                   f"{op} {pred_name(op, cfg.get('pred', '-'))} : {ty}"
                   f"{' -> ' + cfg['to'] if cfg.get('to') else ''} (index_bitwidth={ib}) on {iargs}: "
                   f"interpreter {g!r}, MLIR semantics {xs!r} (bit pattern {x!r})")
        return


def int_types_narrow(h):
    return [f"i{w}" for w in range(1, (4 if h.quick else 6) + 1)]


def op_configs(narrow, wide=True, floats=True):
    """All one-op configs, in a fixed order.  Each: (cfg, list of operand domains) where a domain is a list of
    recipe-form values (bit patterns)."""
    out = []

    def ints(ty, ib):
        w = refsem.int_width(ty, ib)
        if w <= 6:
            return list(range(1 << w))
        return [v & ((1 << w) - 1) for v in progen.boundary_ints(ty, ib)]

    int_tys = [(t, 64) for t in narrow]
    if wide:
        int_tys += [(t, 64) for t in WIDE] + [("index", 64), ("index", 32)]
    for ty, ib in int_tys:
        d = ints(ty, ib)
        for op in INT_BIN + INT_BIN2:
            if op == "addui_extended" and ty == "index":
                continue
            out.append(({"op": "arith." + op, "pred": "-", "ty": ty, "to": None, "ib": ib}, [d, d]))
        for p in range(10):
            out.append(({"op": "arith.cmpi", "pred": p, "ty": ty, "to": None, "ib": ib}, [d, d]))
        sel = d if len(d) <= 16 else d[:12]
        out.append(({"op": "arith.select", "pred": "-", "ty": ty, "to": None, "ib": ib}, [[0, 1], sel, sel]))
    # integer casts
    plain = [t for t, _ in int_tys if t != "index"]
    for f in plain:
        for t in plain:
            wf, wt = int(f[1:]), int(t[1:])
            if wf < wt:
                for op in ("extsi", "extui"):
                    out.append(({"op": "arith." + op, "pred": "-", "ty": f, "to": t, "ib": 64}, [ints(f, 64)]))
            elif wf > wt:
                out.append(({"op": "arith.trunci", "pred": "-", "ty": f, "to": t, "ib": 64}, [ints(f, 64)]))
    for ib in (64, 32):
        for t in plain:
            out.append(({"op": "arith.index_cast", "pred": "-", "ty": t, "to": "index", "ib": ib}, [ints(t, ib)]))
            out.append(({"op": "arith.index_cast", "pred": "-", "ty": "index", "to": t, "ib": ib},
                        [ints("index", ib)]))
    # integer constants
    for ty, ib in int_tys:
        for v in ints(ty, ib)[:24]:
            out.append(({"op": "arith.constant", "pred": "-", "ty": ty, "to": None, "ib": ib, "value": v}, []))
    if floats:
        for ty in FLOATS:
            d = progen.boundary_float_bits(ty)
            for op in FLOAT_BIN:
                out.append(({"op": "arith." + op, "pred": "-", "ty": ty, "to": None, "ib": 64}, [d, d]))
            for p in range(16):
                out.append(({"op": "arith.cmpf", "pred": p, "ty": ty, "to": None, "ib": 64}, [d, d]))
            out.append(({"op": "arith.negf", "pred": "-", "ty": ty, "to": None, "ib": 64}, [d]))
            out.append(({"op": "arith.select", "pred": "-", "ty": ty, "to": None, "ib": 64}, [[0, 1], d[:10], d[:10]]))
            for v in d:
                out.append(({"op": "arith.constant", "pred": "-", "ty": ty, "to": None, "ib": 64, "value": v}, []))
            for it in ["i1", "i8", "i32", "i64"]:
                for op in ("sitofp", "uitofp"):
                    out.append(({"op": "arith." + op, "pred": "-", "ty": it, "to": ty, "ib": 64}, [ints(it, 64)]))
                for op in ("fptosi", "fptoui"):
                    out.append(({"op": "arith." + op, "pred": "-", "ty": ty, "to": it, "ib": 64}, [d]))
            it = "i32" if ty == "f32" else "i64"
            out.append(({"op": "arith.bitcast", "pred": "-", "ty": ty, "to": it, "ib": 64}, [d]))
            out.append(({"op": "arith.bitcast", "pred": "-", "ty": it, "to": ty, "ib": 64}, [d]))
        out.append(({"op": "arith.extf", "pred": "-", "ty": "f32", "to": "f64", "ib": 64},
                    [progen.boundary_float_bits("f32")]))
        out.append(({"op": "arith.truncf", "pred": "-", "ty": "f64", "to": "f32", "ib": 64},
                    [progen.boundary_float_bits("f64")]))
    return out


def enumerate_ops(h):
    cfgs = op_configs(int_types_narrow(h))
    for i, (cfg, doms) in enumerate(cfgs):
        if i % h.nshards != h.shard:
            continue
        wc = width_class(cfg["ty"])
        label = "op_exhaustive" if wc in ("i1", "narrow") else "op_boundary"
        ent = get_entry(cfg)
        for tup in itertools.product(*doms):
            if ent["unsupported"]:
                break
            run_op_case(h, cfg, list(tup), label, distinct=True)
        if ent["unsupported"]:
            h.discard("not_implemented_config:" + cfg["op"])
            h.count("config_not_implemented")
        else:
            h.count("config_checked")
            h.count("config_checked:" + cfg["op"][6:])


def implemented_wide_configs():
    """Configs over wide/float types whose op the interpreter implements (probe with one operand tuple)."""
    if "wide_cfgs" in _state:
        return _state["wide_cfgs"]
    from xdsl.utils.exceptions import InterpretationError
    out = []
    for cfg, doms in op_configs([], wide=True, floats=True):
        if cfg["op"] == "arith.constant":
            continue
        ent = get_entry(cfg)
        if ent["unsupported"] is None and "probed" not in ent:
            ent["probed"] = True
            args = decode_args(cfg, [d[1 % len(d)] for d in doms])
            try:
                ent["interp"].call_op("f", tuple(to_interp(v, t, cfg["ib"]) for v, t in zip(args, ent["in"])))
            except InterpretationError as e:
                if _not_implemented(e):
                    ent["unsupported"] = str(e)[:120]
                ent["interp"] = new_interpreter(ent["module"], cfg["ib"])
            except Exception:
                ent["interp"] = new_interpreter(ent["module"], cfg["ib"])
        if not ent["unsupported"]:
            out.append(cfg)
    _state["wide_cfgs"] = out
    return out


def random_op_recipes():
    cfgs = implemented_wide_configs()

    def with_args(cfg):
        in_tys = op_signature(cfg)[0]
        doms = []
        for t in in_tys:
            if _is_f(t):
                w = int(t[1:])
                doms.append(st.one_of(st.sampled_from(progen.boundary_float_bits(t)),
                                      st.floats(width=w, allow_nan=True, allow_infinity=True).map(
                                          lambda x, t=t: refsem.float_to_bits(x, t)),
                                      st.integers(0, (1 << w) - 1)))
            else:
                w = refsem.int_width(t, cfg["ib"])
                bs = [v & ((1 << w) - 1) for v in progen.boundary_ints(t, cfg["ib"])]
                doms.append(st.one_of(st.sampled_from(bs), st.integers(0, (1 << w) - 1),
                                      st.integers(0, min(w, 64) + 2)))
        return st.tuples(*doms).map(lambda a: {"kind": "op", "op": cfg["op"], "pred": cfg.get("pred", "-"),
                                                "ty": cfg["ty"], "to": cfg.get("to"), "ib": cfg["ib"],
                                                "args": list(a)})
    return st.sampled_from(cfgs).flatmap(with_args)


def run_op_recipe(h, r, label):
    cfg = {"op": r["op"], "pred": r.get("pred", "-"), "ty": r["ty"], "to": r.get("to"),
           "ib": 32 if r.get("ib") == 32 else 64}
    if r.get("value") is not None:
        cfg["value"] = r["value"]
    run_op_case(h, cfg, r.get("args") or [], label)


# ---------------------------------------------------------------------------------------------
# (b) programs
# ---------------------------------------------------------------------------------------------

CANDIDATE_OPS = {
    "constant": {"op": "const", "t": "i32", "v": 5},
    "cmpi": {"op": "cmpi", "t": "i32", "p": 2, "a": 0, "b": 1},
    "cmpf": {"op": "cmpf", "t": "f64", "p": 1, "a": 0, "b": 1},
    "select": {"op": "select", "t": "i32", "c": 0, "a": 0, "b": 1},
    "negf": {"op": "negf", "t": "f64", "a": 0},
    "extsi": {"op": "extsi", "from": "i32", "to": "i64", "a": 0},
    "extui": {"op": "extui", "from": "i32", "to": "i64", "a": 0},
    "trunci": {"op": "trunci", "from": "i32", "to": "i8", "a": 0},
    "index_cast": {"op": "index_cast", "from": "i32", "to": "index", "a": 0},
    "sitofp": {"op": "sitofp", "from": "i32", "to": "f64", "a": 0},
    "uitofp": {"op": "uitofp", "from": "i32", "to": "f64", "a": 0},
    "fptosi": {"op": "fptosi", "from": "f64", "to": "i32", "a": 0},
    "fptoui": {"op": "fptoui", "from": "f64", "to": "i32", "a": 0},
    "extf": {"op": "extf", "from": "f32", "to": "f64", "a": 0},
    "truncf": {"op": "truncf", "from": "f64", "to": "f32", "a": 0},
    "bitcast": {"op": "bitcast", "from": "f32", "to": "i32", "a": 0},
    "scf.if": {"op": "if", "c": 0, "res": ["i32"], "then": [], "ty": [0], "else": [], "ey": [1]},
    "scf.for": {"op": "for", "t": "i32", "lb": {"c": 0}, "ub": {"c": 3}, "step": {"c": 1}, "iters": [["i32", 0]],
                "body": [], "y": [0]},
    "scf.while": {"op": "while", "t": "i32", "n": {"c": 2}, "iters": [], "body": [], "y": []},
    "scf.index_switch": {"op": "iswitch", "v": {"c": 1}, "res": ["i32"], "cases": [[1, [], [0]]],
                         "default": [[], [1]]},
}
for _n in INT_BIN + INT_BIN2:
    CANDIDATE_OPS[_n] = {"op": _n, "t": "i32", "a": 0, "b": 1}
for _n in FLOAT_BIN:
    CANDIDATE_OPS[_n] = {"op": _n, "t": "f64", "a": 0, "b": 1}


def _probe_program(recipe, vec):
    """None if the interpreter runs the program, else the name of the op it has no implementation for / '?'."""
    from xdsl.utils.exceptions import InterpretationError
    m = progen.build(recipe)
    name, fr = progen.entry(recipe)
    atys = progen.signature(fr)[0]
    it = new_interpreter(m, 64)
    try:
        it.call_op(name, tuple(to_interp(v, t, 64) for v, t in zip(vec, atys)))
    except InterpretationError as e:
        if _not_implemented(e):
            return str(e)
        return None
    except Exception:
        return None
    return None


def supported_program_ops():
    """Probe which progen op names the interpreter implements (deterministic; cached per process)."""
    if "prog_ops" in _state:
        return _state["prog_ops"]
    ok, missing = [], []
    for name, stmt in CANDIDATE_OPS.items():
        r = {"funcs": [{"args": ["i32", "i32", "f64", "f64", "f32"], "body": [stmt],
                        "ret": [["i32", 2]]}], "inputs": [1]}
        (ok if _probe_program(r, (5, 3, 1.5, 2.5, 0.5)) is None else missing).append(name)
    cf_r = {"funcs": [{"args": ["i32"], "body": [{"op": "cmpi", "t": "i32", "p": 2, "a": 0, "b": 0}],
                       "ret": [["i32", 0]], "term": None,
                       "blocks": [{"args": ["i32"], "body": [], "term": {"k": "ret"}, "loop": None},
                                  {"args": [], "body": [], "term": {"k": "ret"}, "loop": None}]}], "inputs": [1]}
    for nm, term in (("cf.br", {"k": "br", "to": 0, "args": [0]}),
                     ("cf.cond_br", {"k": "cond", "c": 0, "to": 0, "args": [0], "fto": 1, "fargs": []}),
                     ("cf.switch", {"k": "switch", "t": "i32", "v": 0, "cases": [[5, 0, [0]]], "to": 1, "args": []})):
        r = {"funcs": [dict(cf_r["funcs"][0], term=term)], "inputs": [1]}
        (ok if _probe_program(r, (5,)) is None else missing).append(nm)
    call_r = {"funcs": [{"args": ["i32"], "body": [], "ret": [["i32", 0]]},
                        {"args": ["i32"], "body": [{"op": "callf", "f": 0, "args": [0]}], "ret": [["i32", 1]]}],
              "inputs": [1]}
    (ok if _probe_program(call_r, (5,)) is None else missing).append("func.call")
    if "scf.if" in ok or "scf.for" in ok:
        ok.append("scf.yield")
    if "scf.while" in ok:
        ok.append("scf.condition")
    _state["prog_ops"] = (ok, missing)
    return ok, missing


def program_features(steered: bool, ib: int):
    ok, _ = supported_program_ops()
    names = set(ok)
    if steered:
        names.discard("shli")
    control = [c for c, need in (("scf_if", "scf.if"), ("scf_for", "scf.for"), ("scf_while", "scf.while"),
                                 ("index_switch", "scf.index_switch"), ("cf", "cf.br")) if need in names]
    return dict(op_names=sorted(names), control=control, effects=[],
                float_types=["f64"] if steered else ["f32", "f64"], internal_calls="func.call" in names,
                index_bits=ib, size=8, max_funcs=2, max_rets=4)


def _steer(recipe):
    """Replace unsigned cmpi predicates by their signed counterparts (known defect F-C15-1 is shallow)."""
    def walk(x):
        if isinstance(x, dict):
            if x.get("op") == "cmpi" and isinstance(x.get("p"), int) and x["p"] % 10 >= 6:
                x = dict(x, p=x["p"] % 10 - 4)
            return {k: walk(v) for k, v in x.items()}
        if isinstance(x, list):
            return [walk(v) for v in x]
        return x
    return walk(recipe)


def program_recipes(steered: bool, ib: int):
    s = progen.program_recipes(program_features(steered, ib))
    if steered:
        s = s.map(_steer)
    return s.map(lambda r: dict(r, kind="program"))


class _Trace:
    def __init__(self):
        self.events = []
        self.starts = []
        self.pending = None

    def listener(self):
        from xdsl.interpreter import Interpreter
        tr = self

        class L(Interpreter.Listener):
            def will_interpret_op(self, op, args):
                tr.pending = (op, args)
                tr.starts.append((op, args))

            def did_interpret_op(self, op, results):
                tr.events.append((op, tr.pending[1] if tr.pending and tr.pending[0] is op else (), results))
                tr.pending = None
        return L()


def _localise(module, name, iargs, ib):
    """Re-run with a listener; first arith op whose output disagrees with refsem on the interpreter's own
    inputs.  Returns (sig fields dict, text) or None."""
    from xdsl.interpreter import Interpreter
    tr = _Trace()
    it = new_interpreter(module, ib)
    it.listeners = (tr.listener(),)
    crashed = None
    try:
        it.call_op(name, iargs)
    except Exception as e:
        crashed = e
    for op, args, results in tr.events:
        if not op.name.startswith("arith.") or op.name == "arith.constant":
            continue
        in_tys = [refsem.type_name(o.type) for o in op.operands]
        out_tys = [refsem.type_name(r.type) for r in op.results]
        rargs = []
        form = "canonical"
        okv = True
        for v, t in zip(args, in_tys):
            if _is_f(t):
                if not isinstance(v, (int, float)):
                    okv = False
                    break
                rargs.append(float(v))
            elif t == "index" or (t[0] == "i" and t[1:].isdigit()):
                if not isinstance(v, int):
                    okv = False
                    break
                w = refsem.int_width(t, ib)
                if isinstance(v, bool) or not (-(1 << (w - 1)) <= v < (1 << (w - 1))):
                    form = "noncanonical"
                rargs.append(int(v) & ((1 << w) - 1))
            else:
                okv = False
                break
        if not okv:
            continue
        try:
            exp = refsem.eval_op(op, tuple(rargs), ib)
        except refsem.UnsupportedOp:
            continue
        if any(x is refsem.POISON for x in exp):
            continue
        for g, x, t in zip(results, exp, out_tys):
            bad = check_value(g, x, t, ib)
            if bad is None:
                continue
            kind, diag = bad
            pred = "-"
            if op.name in ("arith.cmpi", "arith.cmpf"):
                pred = op.properties["predicate"].value.data
                if op.name == "arith.cmpi" and kind == "wrong_value":
                    diag = _cmpi_diag(pred, rargs, in_tys[0], ib, g)
            ty = in_tys[0] if in_tys else out_tys[0]
            return ({"op": op.name, "pred": pred, "ty": ty, "kind": kind, "diag": diag, "input_form": form},
                    f"first divergent op: {op.name} {pred_name(op.name, pred)} : {ty} on {args!r} -> {g!r}, "
                    f"MLIR semantics bit pattern {x!r}")
    if crashed is None or tr.pending is None:
        ctl = _localise_control(module, name, iargs, ib, tr)
        if ctl is not None:
            if crashed is not None:
                ctl[0]["kind"] = "crash:" + type(crashed).__name__
            return ctl
    if crashed is not None and tr.pending is not None:
        op = tr.pending[0]
        return ({"op": op.name, "pred": "-", "ty": "-", "kind": "crash:" + type(crashed).__name__, "diag": "-",
                 "input_form": "-"}, f"raised in {op.name} on {tr.pending[1]!r}: {crashed!r:.200}")
    return None


def _same_value(iv, rv, t, ib) -> bool:
    if rv is refsem.POISON:
        return True
    if _is_f(t):
        return isinstance(iv, (int, float)) and refsem.values_equal(float(iv), rv)
    if t == "index" or (t[0] == "i" and t[1:].isdigit()):
        return isinstance(iv, int) and (int(iv) & ((1 << refsem.int_width(t, ib)) - 1)) == rv
    return True


def _localise_control(module, name, iargs, ib, tr):
    """No arith op misbehaves on its own inputs: compare the two executions op by op.  The first position where
    another op runs, or the same op sees other operand values, blames the control-flow op that led there."""
    fr_args = []
    fop = [o for o in module.walk() if o.name == "func.func" and o.properties["sym_name"].data == name][0]
    for v, a in zip(iargs, fop.regions[0].first_block.args):
        fr_args.append(v)
    rtrace: list = []
    try:
        refsem.run_function(module, name, tuple(fr_args), index_bits=ib, fuel=20000, trace=rtrace)
    except refsem.UnsupportedOp:
        return None
    itrace = [(op, args) for op, args, _ in tr.events]
    # tr.events is in completion order; rebuild start order from the listener's start log
    itrace = tr.starts

    def blame(k):
        if k == 0:
            return "func.func"
        prev = itrace[k - 1][0]
        if prev.name.startswith("cf.") or prev.name == "func.call" or prev.regions:
            return prev.name
        par = prev.parent_op()
        return par.name if par is not None else prev.name
    for k in range(max(len(itrace), len(rtrace))):
        if k >= len(itrace) or k >= len(rtrace) or itrace[k][0] is not rtrace[k][0]:
            who = blame(min(k, len(itrace)))
            return ({"op": who, "pred": "-", "ty": "-", "kind": "wrong_control_flow", "diag": "-",
                     "input_form": "-"},
                    f"executions diverge at step {k}: interpreter runs "
                    f"{itrace[k][0].name if k < len(itrace) else 'nothing'}, reference runs "
                    f"{rtrace[k][0].name if k < len(rtrace) else 'nothing'}")
        op = itrace[k][0]
        for iv, rv, o in zip(itrace[k][1], rtrace[k][1], op.operands):
            if not _same_value(iv, rv, refsem.type_name(o.type), ib):
                who, kind = blame(k), "wrong_value_passed"
                if _call_between_binding_and_use(itrace, k, o):
                    who, kind = "func.call", "value_changed_across_call"
                return ({"op": who, "pred": "-", "ty": "-", "kind": kind, "diag": "-", "input_form": "-"},
                        f"step {k}: {op.name} receives {itrace[k][1]!r}, reference {rtrace[k][1]!r}")
    return None


def _call_between_binding_and_use(itrace, k, operand) -> bool:
    """Both executions ran the same ops up to step k and every op computed correctly, yet `operand` holds another
    value at step k.  True if, inside the activation executing step k, a nested call ran between the point where
    the operand was bound (its defining op, or the start of the activation for an entry-block argument) and k."""
    from xdsl.ir import Block
    act, stack, nxt = [], [0], 1
    push = False
    for op, _ in itrace:
        if push:
            stack.append(nxt)
            nxt += 1
            push = False
        act.append(stack[-1])
        if op.name == "func.call":
            push = True         # the callee's first op (if it has a body) starts a new activation
        elif op.name == "func.return" and len(stack) > 1:
            stack.pop()
    # a call of a declaration never pushes: repair by re-synchronising on the op's enclosing function
    me = act[k]
    owner = operand.owner
    j = k - 1
    nested = False
    while j >= 0:
        if act[j] == me:
            if not isinstance(owner, Block) and itrace[j][0] is owner:
                break
        elif act[j] > me:
            nested = True
        else:
            break               # left the activation: it started at j + 1
        j -= 1
    return nested


def run_program(h, recipe, label):
    from xdsl.utils.exceptions import InterpretationError
    _init()
    module = progen.build(recipe)
    name, fr = progen.entry(recipe)
    ib = 32 if recipe.get("ib") == 32 else 64
    atys, rtys = progen.signature(fr)
    counts = progen.op_counts(module)
    ctl = "+".join(sorted(k for k in counts if k.split(".")[0] in ("scf", "cf") or k == "func.call")) or "-"
    vecs = progen.input_vectors(fr, 4, recipe.get("inputs"), ib)
    for vi, vec in enumerate(vecs):
        ref = refsem.run_function(module, name, vec, index_bits=ib, fuel=20000)
        if not ref.defined or ref.npoison:
            h.exclude("program_poison_or_ub" if ref.ok else "program_" + repr(ref.values).lower())
            continue
        iargs = tuple(to_interp(v, t, ib) for v, t in zip(vec, atys))
        it = new_interpreter(module, ib)
        crash = None
        got = None
        try:
            got = it.call_op(name, iargs)
        except InterpretationError as e:
            if _not_implemented(e):
                h.discard("program_not_implemented")
                return
            crash = e
        except Exception as e:
            crash = e
        nt = bool(ref.trips and max(ref.trips) >= 1)
        for v, t in zip(list(vec) + list(ref.values), atys + rtys):
            nt = nt or (_float_special(v, t) if _is_f(t) else _top_bit(v, t, ib))
        if label.startswith("recursive") and vec and not _is_f(atys[0]):
            depth = int(vec[0]) & 7          # the driver clamps the counter to 0..7
            nt = depth >= 1
            h.count("recursion_depth>=2" if depth >= 2 else "recursion_depth_%d" % depth)
            for f_ in recipe.get("funcs") or []:
                if isinstance(f_.get("rec"), dict):
                    h.count("rec_form_" + str(f_["rec"].get("form")))
            if sum(1 for f_ in recipe.get("funcs") or [] if isinstance(f_.get("rec"), dict)) > 1:
                h.count("rec_mutual")
        case_recipe = dict(recipe, inputs=list(recipe.get("inputs") or []))
        want_sample = vi == 0 and nt and len(h.samples) < 6 and not h._shrinking
        h.case(case_recipe, nt, label=label,
               sample={"recipe": recipe, "ir": progen.render(module)[:1500]} if want_sample else None)
        for k in counts:
            if k.split(".")[0] in ("scf", "cf"):
                h.count("prog_has_" + k)
        bad = None
        if crash is not None:
            bad = ("crash:" + type(crash).__name__, "-", f"raised {crash!r:.300}")
        elif len(got) != len(ref.values):
            bad = ("result_count", "-", f"{got!r} vs {ref.values!r}")
        else:
            for g, x, t in zip(got, ref.values, rtys):
                b = check_value(g, x, t, ib)
                if b is not None:
                    bad = (b[0], b[1], f"result {g!r}, MLIR semantics bit pattern {x!r} of type {t}")
                    break
        if bad is None:
            continue
        loc = _localise(module, name, iargs, ib)
        if loc is not None:
            f, text = loc
            sig = base_sig("program", f["op"], f["pred"], f["ty"], f["kind"], f["diag"]) if f["ty"] != "-" else {
                "check": "program", "op": f["op"], "pred": "-", "width_class": "-", "kind": f["kind"], "diag": "-"}
            sig["input_form"] = f["input_form"]
        else:
            sig = {"check": "program", "op": "unlocated", "pred": "-", "width_class": "-", "kind": bad[0],
                   "diag": ctl, "input_form": "-"}
            text = "no single arith op diverges on its own inputs"
        h.mismatch(sig, case_recipe, f"@{name}{iargs} (index_bitwidth={ib}): {bad[2]}; {text}\n"
                   + progen.render(module)[:2500])
        return


def recursive_recipes(ib: int):
    """Bounded (mutual) recursion, cf and scf form; signed predicates only (F-C15-1 is shallow)."""
    return progen.recursive_recipes(program_features(True, ib)).map(_steer).map(
        lambda r: dict(r, kind="program"))


# ---------------------------------------------------------------------------------------------
# (c) one module, two interpreters with different index_bitwidth in ONE process
# ---------------------------------------------------------------------------------------------

# sum = a + b; prod = b * a; i64(sum); i64(prod); sum <s 0          (refs count backwards from the latest value)
_IW_FUNC = {"args": ["index", "index"],
            "body": [{"op": "addi", "t": "index", "a": 1, "b": 0},
                     {"op": "muli", "t": "index", "a": 1, "b": 2},
                     {"op": "index_cast", "from": "index", "to": "i64", "a": 1},
                     {"op": "index_cast", "from": "index", "to": "i64", "a": 0},
                     {"op": "const", "t": "index", "v": 0},
                     {"op": "cmpi", "t": "index", "p": 2, "a": 2, "b": 0}],
            "ret": [["index", 2], ["index", 1], ["i64", 1], ["i64", 0], ["i1", 0]]}
_IW_VECS = [[0x7FFFFFFF, 1], [65536, 65536], [-0x80000000, -1], [0x7FFFFFFF, 0x7FFFFFFF], [46341, 46341],
            [-0x80000000, -0x80000000], [3, 4], [0x40000000, 2], [-1, -1], [0x7FFFFFFF, 2]]


def index_width_table():
    return [{"kind": "index_width", "order": list(o), "funcs": [_IW_FUNC], "vecs": [v], "ib": 32, "inputs": []}
            for o in ((64, 32), (32, 64)) for v in _IW_VECS]


def index_width_recipes():
    f = dict(program_features(True, 32), int_types=["index", "i64"], float_types=[], max_funcs=1)
    return st.tuples(progen.program_recipes(f).map(_steer), st.sampled_from([[64, 32], [32, 64]])).map(
        lambda p: dict(p[0], kind="index_width", order=p[1]))


def run_index_width(h, recipe, label, distinct=False):
    """The SAME module on two Interpreter instances with different index_bitwidth, one after the other in this
    process; each run is compared with refsem at the matching index width."""
    from xdsl.utils.exceptions import InterpretationError
    _init()
    module = progen.build(dict(recipe, ib=32))          # index constants fit 32 bits: valid at both widths
    name, fr = progen.entry(recipe)
    atys, rtys = progen.signature(fr)
    order = [32 if o == 32 else 64 for o in (recipe.get("order") or [64, 32])][:2]
    if len(order) < 2 or order[0] == order[1]:
        order = [64, 32] if not order or order[0] == 64 else [32, 64]
    if recipe.get("vecs"):
        vecs = [tuple(v) for v in recipe["vecs"] if isinstance(v, list) and len(v) == len(atys)]
    else:
        vecs = progen.input_vectors(fr, 4, recipe.get("inputs"), 32)
    for vec in vecs:
        # the same logical operands for both widths: index operands are signed 32-bit values
        logical = [float(v) if _is_f(t) else
                   (refsem.to_signed(int(v), 32) if t == "index" else refsem.to_signed(int(v), refsem.int_width(t)))
                   for v, t in zip(vec, atys)]
        refs = {ib: refsem.run_function(module, name, tuple(logical), index_bits=ib, fuel=20000) for ib in (32, 64)}
        if any(not r.defined or r.npoison for r in refs.values()):
            h.exclude("index_width_poison_or_ub")
            continue

        def signed(vals, ib):
            return [v if _is_f(t) else refsem.to_signed(v, refsem.int_width(t, ib)) for v, t in zip(vals, rtys)]
        nt = signed(refs[32].values, 32) != signed(refs[64].values, 64)
        case_recipe = dict(recipe, inputs=list(recipe.get("inputs") or []))
        h.case(case_recipe, nt, label=label, distinct=distinct)
        if nt:
            h.count("index_width_results_differ_between_widths")
        for pos, ib in enumerate(order):
            it = new_interpreter(module, ib)
            iargs = tuple(logical)
            crash, got = None, None
            try:
                got = it.call_op(name, iargs)
            except InterpretationError as e:
                if _not_implemented(e):
                    h.discard("index_width_not_implemented")
                    return
                crash = e
            except Exception as e:
                crash = e
            bad = None
            if crash is not None:
                bad = ("crash:" + type(crash).__name__, f"raised {crash!r:.300}")
            elif len(got) != len(rtys):
                bad = ("result_count", f"{got!r}")
            else:
                for g, x, t in zip(got, refs[ib].values, rtys):
                    b = check_value(g, x, t, ib)
                    if b is not None:
                        bad = (b[0], f"result {g!r}, MLIR semantics at {ib}-bit index: bit pattern {x!r} of type {t}")
                        break
            if bad is None:
                continue
            loc = _localise(module, name, iargs, ib)
            sig = {"check": "index_width", "order": "-".join(map(str, order)), "run": f"{pos + 1}:ib{ib}",
                   "kind": bad[0], "op": loc[0]["op"] if loc else "unlocated",
                   "op_kind": loc[0]["kind"] if loc else "-"}
            h.mismatch(sig, case_recipe,
                       f"one module, interpreters with index_bitwidth {order} in this order; run {pos + 1} "
                       f"(index_bitwidth={ib}) @{name}{iargs}: {bad[1]}; {loc[1] if loc else ''}\n"
                       + progen.render(module)[:2000])
            return


# ---------------------------------------------------------------------------------------------
# entry points
# ---------------------------------------------------------------------------------------------

def replay(h, recipe):
    _init()
    with quiet():
        if "funcs" in recipe and "order" in recipe:
            run_index_width(h, recipe, "replay")
        elif "funcs" in recipe:
            run_program(h, recipe, "recursive_replay" if any(
                isinstance(f, dict) and isinstance(f.get("rec"), dict) for f in recipe["funcs"]) else "replay")
        else:
            run_op_recipe(h, recipe, "replay")


def checks(h):
    _init()
    with quiet():
        enumerate_ops(h)
        h.exhaustive = True
        ok, missing = supported_program_ops()
        if h.shard == 0:
            h.count("program_ops_supported", len(ok))
            h.count("program_ops_not_implemented", len(missing))
            h.notes.append("interpreter lacks: " + " ".join(sorted(missing)))
        h.hyp("op_random", random_op_recipes(), lambda r: run_op_recipe(h, r, "op_random"),
              h.scale(700, 20000), 1)
        for salt, (steered, ib) in enumerate([(False, 64), (True, 64), (False, 32), (True, 32)]):
            n = h.scale(150, 3000) if ib == 64 else h.scale(60, 1000)
            lab = ("program_steered" if steered else "program") + ("_ib32" if ib == 32 else "")
            h.hyp(lab, program_recipes(steered, ib), lambda r, lab=lab: run_program(h, r, lab), n, 10 + salt)
        if "func.call" in ok:
            h.hyp("recursive", recursive_recipes(64), lambda r: run_program(h, r, "recursive"),
                  h.scale(60, 1500), 20)
            h.hyp("recursive_ib32", recursive_recipes(32), lambda r: run_program(h, r, "recursive_ib32"),
                  h.scale(25, 500), 21)
        for i, r in enumerate(index_width_table()):
            if i % h.nshards == h.shard:
                run_index_width(h, r, "index_width_table", distinct=True)
        h.hyp("index_width", index_width_recipes(), lambda r: run_index_width(h, r, "index_width"),
              h.scale(40, 1000), 22)
