"""C19 — Register allocation never gives one register to two live values.

Recipe (plain JSON):
    {"arch": "riscv" | "x86",
     "args":  [rd, ...]          integer function block arguments (rd code, see below)
     "fargs": [rd, ...]          float (riscv) / vector (x86) function block arguments
     "regs":  [k, ...]           get_register ops at the top of the function (pre-allocated pool index)
     "ops":   [op, ...]          the function body
     "ret":   [[kind, ref], ...] riscv_func.return operands (riscv only, at most 2)
     "mode":  ["pass", allow_infinite, force_infinite, stats]     riscv-allocate-registers / x86-allocate-registers
            | ["pool", [i, ...], [j, ...], allow_infinite]        allocator on a RegisterStack with only these
                                                                  allocatable registers (indices into the target's
                                                                  default allocatable int / float-or-vector lists)
     "seed":  int}               derives the input values of arguments / get_register registers

    rd code: 0 = unallocated, n > 0 = pre-allocated to PRE[(n-1) % len(PRE)], -1 = `zero` (only honoured for
    `li 0`, otherwise unallocated).  ref: index *from the most recently defined* visible value of the
    requested kind (modulo their number), kinds "i" (int), "f" (riscv float), "v" (x86 vector).

    riscv ops: ["li", imm, rd] ["mv", a, rd] ["bin", k, a, b, rd] ["imm", k, a, imm, rd] ["fcvt", a, rd]
               ["fcvtw", a, rd] ["fmv", a, rd] ["fbin", k, a, b, rd] ["pmov", [a, ...], [rd, ...]]
               ["for", lb, ub, step, flags, ivrd, [[kind, ref, fresh], ...], [body op, ...], [yref, ...]]
    x86 ops:   ["li", imm, rd] (di.mov) ["mv", a, rd] (ds.mov) ["rs", k, a, b] ["r", k, a] ["ri", k, a, imm]
               ["dsi", a, imm, rd] ["cmp", a, b] ["vb", a, rd] ["vadd", a, b, rd] ["vfma", a, b, c]
               ["pmov", [a, ...], [rd, ...]] ["for", lb, ub, step, flags, ivrd, [[kind, ref, fresh], ...], body, yrefs]
    (`for`: lb/ub/step are small constants materialised by li / di.mov in front of the loop (flags bit 0:
    step as attribute, x86 bit 1: ub as attribute); fresh=1: the init is a copy made just for the loop;
    yref % 4 selects the yielded value among the values of the iter_arg's exact type: 0/1 defined in the body
    (else a move of the block argument / of some value is appended), 2 any visible value except this loop's
    block arguments, 3 any visible value; yref // 4 picks among the candidates.)

build(recipe) makes one module with one riscv_func.func / x86_func.func.  x86 functions are first passed
through x86-regalloc-legalize (as the x86 pipeline does) so that the documented precondition of the x86
allocator (an in/out operand is the last use of its value) holds; the check verifies that precondition
itself and discards the case if it does not hold.  The module is cloned, the clone is allocated.
"""
from __future__ import annotations

from hypothesis import strategies as st

from vt.run import quiet

ID = "C19"
SHARDS = {"quick": 16, "thorough": 16}
RULE = ("Hypothesis recipes of single-function modules: riscv_func.func bodies of rv32.li / riscv.mv / add / sub / "
        "mul / and / or / xor / addi / rv32.slli / fcvt.s.w / fcvt.w.s / fmv.s / fadd.s / fmul.s / "
        "riscv.parallel_mov / get_register, nested riscv_scf.for (depth <= 2) with 0..3 iter_args of int/float "
        "kind, static or dynamic step, trip counts 0..5, inits that are shared outer values or copies made for "
        "the loop, yields of body values, block arguments (swaps, iv) and outer values; x86_func.func bodies of x86 di.mov / ds.mov / rs.{add,sub,imul,and,or,xor} / "
        "r.{neg,not,inc,dec} / ri.{add,sub,and,or,xor} / dsi.imul / ss.cmp / ds.vpbroadcastq / dss.vaddpd / "
        "rss.vfmadd231pd / x86.parallel_mov / get_register and x86_scf.for (static or dynamic ub/step), after "
        "x86-regalloc-legalize; 'pressure' recipes define 6..40 values first and consume them afterwards. Some "
        "values / block arguments / get_register ops are pre-allocated (t, a, s registers, zero for li 0; "
        "rax..r15, ymm). Allocation through the pass (allow_infinite / force_infinite / add_regalloc_stats) or "
        "through the allocator on a RegisterStack restricted to a generated subset of the allocatable "
        "registers (with or without infinite registers). DiagnosticException (OutOfRegisters, 'Cannot allocate "
        "registers to the same register') = allocation did not succeed -> discarded. Oracle on the allocated "
        "module: (1) pre-allocated types unchanged, every newly assigned register is in the configured pool / "
        "an infinite register if allowed / zero / a register pre-allocated in the input; (2) my own backward "
        "liveness (loops by fixpoint; init/yield of an iter_arg count as read only if the block argument or "
        "the loop result is live; iv/ub/step live across the back edge): at every op the registers of "
        "(results + values live after) and of the values live before are pairwise distinct, except zero, "
        "rflags and copy-related values (mv / fmv / ds.mov / parallel_mov lanes); (3) lock-step execution of "
        "the unallocated clone on SSA values (32-bit riscv, 64-bit x86, float/vector ops as integer stand-ins) "
        "and of the allocated ops on a register file initialised with distinct garbage: every operand read "
        "(incl. loop bounds / iv / step at every iteration and return operands) must find the SSA value in "
        "the operand's register; x86 in/out ops write the register of their in/out operand; loop block "
        "arguments / results are never written (as in the lowering); a value written to zero must be 0. "
        "Non-trivial: >= 6 values simultaneously live in non-zero registers, or a loop with an iter_arg, or a "
        "pre-allocated register. Mismatch signatures name the sub-check, arch and a causal feature (loop / "
        "prealloc / limited_pool / inout / plain) derived from the register and values involved, plus chain "
        "(overlap: the register belongs to a loop-carried group two members of which are live at once in the "
        "allocator's own view; clean; no), excluded (was the pre-allocated register seen by "
        "all_used_registers), infinite, stale (dangling operands present).")
ASSUMPTIONS = [
    "register semantics of riscv_scf.for / x86_scf.for are those of lower-riscv-scf-to-labels / "
    "convert-x86-scf-to-x86: iv := lb, compare with ub before the first and after every iteration, iv += step at "
    "the end of the body, iter_args / yields / results are never moved (they must share a register)",
    "x86 in/out instructions write the register printed for their in/out operand (assembly_line_args)",
    "float / vector arithmetic is replaced by integer stand-in functions (the check is about data flow)",
    "two registers are the same iff they have the same register_pool_key and index (x6 == t1, eax == rax)",
    "x86: an in/out operand must be the last use of its value (documented precondition, established by "
    "x86-regalloc-legalize and re-checked by the harness); values used only by non-allocatable ops are out of "
    "the domain (the allocator ignores such ops)",
    "input functions in which two pre-allocated values (copy-related or not) already share a register while both "
    "are live are out of the domain (discarded)",
]

RV_INT_PRE = ["t0", "a0", "t1", "a1", "t2", "a2", "s1", "a3", "t3", "a4", "s2", "t4", "a5", "t5", "a6",
              "t6", "a7", "s3", "x28"]
RV_FLT_PRE = ["ft0", "fa0", "ft1", "fa1", "ft2", "fs1", "fa2", "ft3"]
X86_INT_PRE = ["rax", "rcx", "rdx", "rbx", "rsi", "rdi", "r8", "r9", "r10", "r11", "r13", "r14", "r15", "r12"]
X86_VEC_PRE = ["ymm0", "ymm1", "ymm2", "ymm3", "ymm4", "ymm5"]
RV_BIN = ["add", "sub", "mul", "and", "or", "xor"]
RV_IMM = ["addi", "slli"]
RV_FBIN = ["fadd.s", "fmul.s"]
X86_RS = ["add", "sub", "imul", "and", "or", "xor"]
X86_R = ["neg", "not", "inc", "dec"]
X86_RI = ["add", "sub", "and", "or", "xor"]
ZERO = ("riscv.reg", 0)
SKIP_POOLS = {"x86.rflags"}
FOR_NAMES = {"riscv_scf.for", "x86_scf.for"}
YIELD_NAMES = {"riscv_scf.yield", "x86_scf.yield"}
COPY_NAMES = {"riscv.mv", "riscv.fmv.s", "x86.ds.mov", "x86.ds.vmovapd"}
PMOV_NAMES = {"riscv.parallel_mov", "x86.parallel_mov"}
GETREG_NAMES = {"rv32.get_register", "riscv.get_float_register", "x86.get_register", "x86.get_avx_register"}
CONST_NAMES = {"rv32.li", "x86.di.mov"}
MAX_FUEL = 20000


class BadRecipe(ValueError):
    pass


def _int(x):
    if isinstance(x, bool) or not isinstance(x, int):
        raise BadRecipe(f"int expected, got {x!r}")
    return x


def _list(x):
    if not isinstance(x, list):
        raise BadRecipe(f"list expected, got {x!r}")
    return x


# ================================================================================================
# builders
def iter_item(it):
    it = _list(it)
    if len(it) == 2:
        return it[0], it[1], 0
    kind, ref, fresh = it
    return kind, ref, _int(fresh) % 2

class Scope:
    def __init__(self, vals=None):
        self.vals = list(vals or [])       # (SSAValue, kind)

    def child(self):
        return Scope(self.vals)

    def add(self, v, kind):
        self.vals.append((v, kind))
        return v

    def of(self, kind):
        return [v for v, k in self.vals if k == kind]

    def pick(self, kind, ref):
        vs = self.of(kind)
        if not vs:
            return None
        return vs[-1 - (_int(ref) % len(vs))]


class RVBuilder:
    arch = "riscv"

    def __init__(self):
        from xdsl.dialects import riscv, riscv_func, riscv_scf, rv32
        self.riscv, self.riscv_func, self.riscv_scf, self.rv32 = riscv, riscv_func, riscv_scf, rv32
        self.I, self.F = riscv.IntRegisterType, riscv.FloatRegisterType
        self.UI, self.UF = riscv.Registers.UNALLOCATED_INT, riscv.Registers.UNALLOCATED_FLOAT

    def ty(self, kind, rd, zero_ok=False):
        rd = _int(rd)
        if kind == "i":
            if rd == -1:
                return self.I.from_name("zero") if zero_ok else self.UI
            if rd <= 0:
                return self.UI
            return self.I.from_name(RV_INT_PRE[(rd - 1) % len(RV_INT_PRE)])
        if rd <= 0:
            return self.UF
        return self.F.from_name(RV_FLT_PRE[(rd - 1) % len(RV_FLT_PRE)])

    def need(self, sc, kind, ref, out):
        v = sc.pick(kind, ref)
        if v is not None:
            return v
        if kind == "i":
            op = self.rv32.LiOp(1, rd=self.UI)
            out.append(op)
            return sc.add(op.rd, "i")
        if kind == "f":
            src = self.need(sc, "i", ref, out)
            op = self.riscv.FCvtSWOp(src, rd=self.UF)
            out.append(op)
            return sc.add(op.rd, "f")
        raise BadRecipe(f"kind {kind!r}")

    def mov(self, src, ty, kind):
        if kind == "i":
            return self.riscv.MVOp(src, rd=ty)
        return self.riscv.FMVOp(src, rd=ty)

    def const(self, imm, ty):
        return self.rv32.LiOp(imm, rd=ty)

    def ops(self, recs, sc, out, depth):
        rv, rv32 = self.riscv, self.rv32
        for rec in _list(recs):
            rec = _list(rec)
            if not rec or not isinstance(rec[0], str):
                raise BadRecipe(f"op {rec!r}")
            h = rec[0]
            if h == "li":
                _, imm, rd = rec
                imm = _int(imm)
                op = rv32.LiOp(imm, rd=self.ty("i", rd, zero_ok=(imm == 0)))
                out.append(op)
                sc.add(op.rd, "i")
            elif h == "mv":
                _, a, rd = rec
                op = rv.MVOp(self.need(sc, "i", a, out), rd=self.ty("i", rd))
                out.append(op)
                sc.add(op.rd, "i")
            elif h == "bin":
                _, k, a, b, rd = rec
                cls = [rv.AddOp, rv.SubOp, rv.MulOp, rv.AndOp, rv.OrOp, rv.XorOp][_int(k) % 6]
                x = self.need(sc, "i", a, out)
                y = self.need(sc, "i", b, out)
                op = cls(x, y, rd=self.ty("i", rd))
                out.append(op)
                sc.add(op.rd, "i")
            elif h == "imm":
                _, k, a, imm, rd = rec
                x = self.need(sc, "i", a, out)
                if _int(k) % 2 == 0:
                    op = rv.AddiOp(x, (_int(imm) % 4096) - 2048, rd=self.ty("i", rd))
                else:
                    op = rv32.SlliOp(x, _int(imm) % 32, rd=self.ty("i", rd))
                out.append(op)
                sc.add(op.rd, "i")
            elif h == "fcvt":
                _, a, rd = rec
                op = rv.FCvtSWOp(self.need(sc, "i", a, out), rd=self.ty("f", rd))
                out.append(op)
                sc.add(op.rd, "f")
            elif h == "fcvtw":
                _, a, rd = rec
                op = rv.FCvtWSOp(self.need(sc, "f", a, out), rd=self.ty("i", rd))
                out.append(op)
                sc.add(op.rd, "i")
            elif h == "fmv":
                _, a, rd = rec
                op = rv.FMVOp(self.need(sc, "f", a, out), rd=self.ty("f", rd))
                out.append(op)
                sc.add(op.rd, "f")
            elif h == "fbin":
                _, k, a, b, rd = rec
                cls = [rv.FAddSOp, rv.FMulSOp][_int(k) % 2]
                x = self.need(sc, "f", a, out)
                y = self.need(sc, "f", b, out)
                op = cls(x, y, rd=self.ty("f", rd))
                out.append(op)
                sc.add(op.rd, "f")
            elif h == "pmov":
                _, srcs, rds = rec
                srcs, rds = _list(srcs), _list(rds)
                n = min(len(srcs), len(rds))
                if n == 0:
                    continue
                ins = [self.need(sc, "i", a, out) for a in srcs[:n]]
                tys, used = [], set()
                for r in rds[:n]:
                    t = self.ty("i", r)
                    if t.is_allocated and t in used:
                        t = self.UI
                    used.add(t)
                    tys.append(t)
                from xdsl.dialects.builtin import DenseArrayBase, i32
                op = rv.ParallelMovOp(ins, tys, DenseArrayBase.from_list(i32, [32] * n))
                out.append(op)
                for r in op.results:
                    sc.add(r, "i")
            elif h == "for":
                self.for_(rec, sc, out, depth)
            else:
                raise BadRecipe(f"op {rec!r}")

    def for_(self, rec, sc, out, depth):
        from xdsl.dialects.builtin import IntegerAttr
        from xdsl.ir import Block, Region
        _, lb, ub, step, flags, ivrd, iters, body, yrefs = rec
        if depth >= 3:
            raise BadRecipe("loop nest too deep")
        lb, ub, step, flags = _int(lb) % 8, _int(ub) % 8, 1 + _int(step) % 3, _int(flags)
        lbv = sc.add(self._emit(out, self.const(lb, self.UI)).rd, "i")
        ubv = sc.add(self._emit(out, self.const(ub, self.UI)).rd, "i")
        if flags & 1:
            stepv = IntegerAttr(step, self.riscv.si12) if hasattr(self.riscv, "si12") else None
            if stepv is None:
                from xdsl.dialects.riscv.attrs import si12
                stepv = IntegerAttr(step, si12)
        else:
            stepv = sc.add(self._emit(out, self.const(step, self.UI)).rd, "i")
        inits = []
        for it in _list(iters)[:4]:
            kind, ref, fresh = iter_item(it)
            if kind not in ("i", "f"):
                raise BadRecipe(f"kind {kind!r}")
            v = self.need(sc, kind, ref, out)
            if fresh:
                # a copy that only the loop uses (not visible to later ops)
                m = self.mov(v, self.UI if kind == "i" else self.UF, kind)
                out.append(m)
                v = m.results[0]
            inits.append((v, kind))
        blk = Block(arg_types=[self.ty("i", ivrd)] + [v.type for v, _ in inits])
        inner = sc.child()
        inner.add(blk.args[0], "i")
        for a, (_, kind) in zip(blk.args[1:], inits):
            inner.add(a, kind)
        n_outer = len(inner.vals)
        bops = []
        self.ops(body, inner, bops, depth + 1)
        ys = []
        yrefs = _list(yrefs)
        for j, (v, kind) in enumerate(inits):
            ref = _int(yrefs[j]) if j < len(yrefs) else 0
            ymode, ref = ref % 4, ref // 4
            own = set(blk.args)
            if ymode <= 1:      # a value defined in the body
                cands = [x for x, k in inner.vals[n_outer:] if k == kind and x.type == v.type and x not in own]
            elif ymode == 2:    # any visible value except the block arguments of this loop
                cands = [x for x in inner.of(kind) if x.type == v.type and x not in own]
            else:               # any visible value
                cands = [x for x in inner.of(kind) if x.type == v.type]
            if cands:
                ys.append(cands[-1 - (ref % len(cands))])
            else:
                src = blk.args[1 + j] if ymode == 0 else self.need(inner, kind, ref, bops)
                m = self.mov(src, v.type, kind)
                bops.append(m)
                ys.append(inner.add(m.results[0], kind))
        bops.append(self.riscv_scf.YieldOp(*ys))
        blk.add_ops(bops)
        op = self.riscv_scf.ForOp(lbv, ubv, stepv, [v for v, _ in inits], Region(blk))
        out.append(op)
        for r, (_, kind) in zip(op.results, inits):
            sc.add(r, kind)

    @staticmethod
    def _emit(out, op):
        out.append(op)
        return op

    def build(self, r):
        from xdsl.dialects.builtin import ModuleOp
        from xdsl.ir import Block, Region
        args = [self.ty("i", x) for x in _list(r["args"])[:6]]
        fargs = [self.ty("f", x) for x in _list(r["fargs"])[:4]]
        # distinct pre-allocated registers among the arguments
        seen, at = set(), []
        for t in args + fargs:
            if t.is_allocated and t in seen:
                t = type(t).unallocated()
            seen.add(t)
            at.append(t)
        blk = Block(arg_types=at)
        sc = Scope()
        for a in blk.args:
            sc.add(a, "i" if isinstance(a.type, self.I) else "f")
        out = []
        for k in _list(r["regs"])[:6]:
            t = self.I.from_name(RV_INT_PRE[_int(k) % len(RV_INT_PRE)])
            if t in seen:
                continue
            seen.add(t)
            op = self.rv32.GetRegisterOp(t)
            out.append(op)
            sc.add(op.res, "i")
        self.ops(r["ops"], sc, out, 0)
        rets = []
        for it in _list(r["ret"])[:2]:
            kind, ref = _list(it)
            if kind not in ("i", "f"):
                raise BadRecipe(f"kind {kind!r}")
            rets.append(self.need(sc, kind, ref, out))
        out.append(self.riscv_func.ReturnOp(*rets))
        blk.add_ops(out)
        fn = self.riscv_func.FuncOp("f", Region(blk), (at, [v.type for v in rets]))
        return ModuleOp([fn]), fn


class X86Builder:
    arch = "x86"

    def __init__(self):
        from xdsl.dialects import x86, x86_func, x86_scf
        self.x86, self.x86_func, self.x86_scf = x86, x86_func, x86_scf
        self.R = x86.registers
        self.UI, self.UV = self.R.UNALLOCATED_REG64, self.R.UNALLOCATED_AVX2

    def ty(self, kind, rd):
        rd = _int(rd)
        if kind == "i":
            if rd <= 0:
                return self.UI
            return self.R.Reg64Type.from_name(X86_INT_PRE[(rd - 1) % len(X86_INT_PRE)])
        if rd <= 0:
            return self.UV
        return self.R.AVX2RegisterType.from_name(X86_VEC_PRE[(rd - 1) % len(X86_VEC_PRE)])

    def need(self, sc, kind, ref, out):
        v = sc.pick(kind, ref)
        if v is not None:
            return v
        o = self.x86.ops
        if kind == "i":
            op = o.DI_MovOp(1, destination=self.UI)
            out.append(op)
            return sc.add(op.destination, "i")
        if kind == "v":
            src = self.need(sc, "i", ref, out)
            op = o.DS_VpbroadcastqOp(src, destination=self.UV)
            out.append(op)
            return sc.add(op.destination, "v")
        raise BadRecipe(f"kind {kind!r}")

    def ops(self, recs, sc, out, depth):
        o = self.x86.ops
        for rec in _list(recs):
            rec = _list(rec)
            if not rec or not isinstance(rec[0], str):
                raise BadRecipe(f"op {rec!r}")
            h = rec[0]
            if h == "li":
                _, imm, rd = rec
                op = o.DI_MovOp(_int(imm), destination=self.ty("i", rd))
                out.append(op)
                sc.add(op.destination, "i")
            elif h == "mv":
                _, a, rd = rec
                op = o.DS_MovOp(self.need(sc, "i", a, out), destination=self.ty("i", rd))
                out.append(op)
                sc.add(op.destination, "i")
            elif h == "rs":
                _, k, a, b = rec
                cls = [o.RS_AddOp, o.RS_SubOp, o.RS_ImulOp, o.RS_AndOp, o.RS_OrOp, o.RS_XorOp][_int(k) % 6]
                x = self.need(sc, "i", a, out)
                y = self.need(sc, "i", b, out)
                op = cls(x, y, register_out=self.UI)
                out.append(op)
                sc.add(op.register_out, "i")
            elif h == "r":
                _, k, a = rec
                cls = [o.R_NegOp, o.R_NotOp, o.R_IncOp, o.R_DecOp][_int(k) % 4]
                op = cls(self.need(sc, "i", a, out), register_out=self.UI)
                out.append(op)
                sc.add(op.register_out, "i")
            elif h == "ri":
                _, k, a, imm = rec
                cls = [o.RI_AddOp, o.RI_SubOp, o.RI_AndOp, o.RI_OrOp, o.RI_XorOp][_int(k) % 5]
                op = cls(self.need(sc, "i", a, out), _int(imm), register_out=self.UI)
                out.append(op)
                sc.add(op.register_out, "i")
            elif h == "dsi":
                _, a, imm, rd = rec
                op = o.DSI_ImulOp(self.need(sc, "i", a, out), _int(imm), destination=self.ty("i", rd))
                out.append(op)
                sc.add(op.destination, "i")
            elif h == "cmp":
                _, a, b = rec
                x = self.need(sc, "i", a, out)
                y = self.need(sc, "i", b, out)
                out.append(o.SS_CmpOp(x, y))
            elif h == "vb":
                _, a, rd = rec
                op = o.DS_VpbroadcastqOp(self.need(sc, "i", a, out), destination=self.ty("v", rd))
                out.append(op)
                sc.add(op.destination, "v")
            elif h == "vadd":
                _, a, b, rd = rec
                x = self.need(sc, "v", a, out)
                y = self.need(sc, "v", b, out)
                op = o.DSS_VaddpdOp(x, y, destination=self.ty("v", rd))
                out.append(op)
                sc.add(op.destination, "v")
            elif h == "vfma":
                _, a, b, c = rec
                x = self.need(sc, "v", a, out)
                y = self.need(sc, "v", b, out)
                z = self.need(sc, "v", c, out)
                op = o.RSS_Vfmadd231pdOp(x, y, z, register_out=self.UV)
                out.append(op)
                sc.add(op.register_out, "v")
            elif h == "pmov":
                _, srcs, rds = rec
                srcs, rds = _list(srcs), _list(rds)
                n = min(len(srcs), len(rds))
                if n == 0:
                    continue
                ins = [self.need(sc, "i", a, out) for a in srcs[:n]]
                tys, used = [], set()
                for r in rds[:n]:
                    t = self.ty("i", r)
                    if t.is_allocated and t in used:
                        t = self.UI
                    used.add(t)
                    tys.append(t)
                op = o.ParallelMovOp(ins, tys)
                out.append(op)
                for r in op.results:
                    sc.add(r, "i")
            elif h == "for":
                self.for_(rec, sc, out, depth)
            else:
                raise BadRecipe(f"op {rec!r}")

    def for_(self, rec, sc, out, depth):
        from xdsl.dialects.builtin import IntegerAttr, IntegerType, Signedness
        from xdsl.ir import Block, Region
        o = self.x86.ops
        _, lb, ub, step, flags, ivrd, iters, body, yrefs = rec
        if depth >= 3:
            raise BadRecipe("loop nest too deep")
        si32 = IntegerType(32, Signedness.SIGNED)
        lb, ub, step, flags = _int(lb) % 8, _int(ub) % 8, 1 + _int(step) % 3, _int(flags)
        lbop = o.DI_MovOp(lb, destination=self.ty("i", ivrd))
        out.append(lbop)
        lbv = lbop.destination       # consumed by the loop (in/out): not visible to later ops
        if flags & 2:
            ubv = IntegerAttr(ub, si32)
        else:
            ubop = o.DI_MovOp(ub, destination=self.UI)
            out.append(ubop)
            ubv = sc.add(ubop.destination, "i")
        if flags & 1:
            stepv = IntegerAttr(step, si32)
        else:
            stop = o.DI_MovOp(step, destination=self.UI)
            out.append(stop)
            stepv = sc.add(stop.destination, "i")
        inits = []
        for it in _list(iters)[:4]:
            kind, ref, fresh = iter_item(it)
            if kind not in ("i", "v"):
                raise BadRecipe(f"kind {kind!r}")
            v = self.need(sc, kind, ref, out)
            if fresh or v.type.is_allocated:
                # a copy that only the loop uses; always for pre-allocated values: x86-regalloc-legalize gives
                # its own copies an unallocated type, which no longer matches a pre-allocated block argument
                m = (o.DS_MovOp(v, destination=self.UI) if kind == "i"
                     else o.DS_VmovapdOp(v, destination=self.UV))
                out.append(m)
                v = m.results[0]
            inits.append((v, kind))
        blk = Block(arg_types=[lbv.type] + [v.type for v, _ in inits])
        inner = sc.child()
        inner.add(blk.args[0], "i")
        for a, (_, kind) in zip(blk.args[1:], inits):
            inner.add(a, kind)
        n_outer = len(inner.vals)
        bops = []
        self.ops(body, inner, bops, depth + 1)
        ys = []
        yrefs = _list(yrefs)
        for j, (v, kind) in enumerate(inits):
            ref = _int(yrefs[j]) if j < len(yrefs) else 0
            ymode, ref = ref % 4, ref // 4
            own = set(blk.args)
            if ymode <= 1:      # a value defined in the body
                cands = [x for x, k in inner.vals[n_outer:] if k == kind and x.type == v.type and x not in own]
            elif ymode == 2:    # any visible value except the block arguments of this loop
                cands = [x for x in inner.of(kind) if x.type == v.type and x not in own]
            else:               # any visible value
                cands = [x for x in inner.of(kind) if x.type == v.type]
            if cands:
                ys.append(cands[-1 - (ref % len(cands))])
            else:
                src = blk.args[1 + j] if ymode == 0 else self.need(inner, kind, ref, bops)
                if kind == "i":
                    m = o.DS_MovOp(src, destination=v.type)
                else:
                    m = o.DS_VmovapdOp(src, destination=v.type)
                bops.append(m)
                ys.append(inner.add(m.results[0], kind))
        bops.append(self.x86_scf.YieldOp(*ys))
        blk.add_ops(bops)
        op = self.x86_scf.ForOp(lbv, ubv, stepv, [v for v, _ in inits], Region(blk))
        out.append(op)
        sc.add(op.lb_end, "i")
        for r, (_, kind) in zip(op.res, inits):
            sc.add(r, kind)

    def build(self, r):
        from xdsl.dialects.builtin import ModuleOp
        from xdsl.ir import Block, Region
        args = [self.ty("i", x) for x in _list(r["args"])[:6]]
        fargs = [self.ty("v", x) for x in _list(r["fargs"])[:4]]
        seen, at = set(), []
        for t in args + fargs:
            if t.is_allocated and t in seen:
                t = type(t).unallocated()
            seen.add(t)
            at.append(t)
        blk = Block(arg_types=at)
        sc = Scope()
        for a in blk.args:
            sc.add(a, "i" if isinstance(a.type, self.R.Reg64Type) else "v")
        out = []
        for k in _list(r["regs"])[:6]:
            t = self.R.Reg64Type.from_name(X86_INT_PRE[_int(k) % len(X86_INT_PRE)])
            if t in seen:
                continue
            seen.add(t)
            op = self.x86.ops.GetRegisterOp(t)
            out.append(op)
            sc.add(op.result, "i")
        self.ops(r["ops"], sc, out, 0)
        out.append(self.x86_func.RetOp())
        blk.add_ops(out)
        fn = self.x86_func.FuncOp("f", Region(blk), (at, []))
        return ModuleOp([fn]), fn


def build(recipe):
    if not isinstance(recipe, dict):
        raise BadRecipe("recipe must be a dict")
    arch = recipe.get("arch")
    for k in ("args", "fargs", "regs", "ops", "ret", "mode", "seed"):
        if k not in recipe:
            raise BadRecipe(f"missing {k}")
    if arch == "riscv":
        return RVBuilder().build(recipe)
    if arch == "x86":
        return X86Builder().build(recipe)
    raise BadRecipe(f"arch {arch!r}")


# ================================================================================================
# allocation driver
def default_pool(arch):
    if arch == "riscv":
        from xdsl.dialects.riscv import FloatRegisterType, IntRegisterType
        return list(IntRegisterType.allocatable_registers()), list(FloatRegisterType.allocatable_registers())
    from xdsl.dialects.x86 import registers
    return (list(registers.Reg64Type.allocatable_registers()),
            list(registers.AVX2RegisterType.allocatable_registers()))


def parse_mode(arch, mode):
    """-> (kind, pool regs | None, allow_infinite, force_infinite, stats)"""
    mode = _list(mode)
    if not mode or mode[0] not in ("pass", "pool"):
        raise BadRecipe(f"mode {mode!r}")
    if mode[0] == "pass":
        if len(mode) != 4:
            raise BadRecipe(f"mode {mode!r}")
        _, ai, fi, stats = mode
        if arch == "x86":
            ai = fi = stats = False
        return "pass", None, bool(ai), bool(fi), bool(stats)
    if len(mode) != 4:
        raise BadRecipe(f"mode {mode!r}")
    _, ii, ff, ai = mode
    ints, flts = default_pool(arch)
    regs = []
    for i in sorted(set(_int(x) % len(ints) for x in _list(ii))):
        regs.append(ints[i])
    for i in sorted(set(_int(x) % len(flts) for x in _list(ff))):
        regs.append(flts[i])
    return "pool", regs, bool(ai), False, False


def allocate(arch, module, fn, mode):
    """Runs the allocator on `module` (in place)."""
    from xdsl.context import Context
    kind, regs, ai, fi, stats = mode
    if arch == "riscv":
        if kind == "pass":
            from xdsl.transforms.riscv_allocate_registers import RISCVAllocateRegistersPass
            RISCVAllocateRegistersPass(allow_infinite=ai, force_infinite=fi,
                                       add_regalloc_stats=stats).apply(Context(), module)
        else:
            from xdsl.backend.riscv.register_allocation import RegisterAllocatorLivenessBlockNaive
            from xdsl.backend.riscv.register_stack import RiscvRegisterStack
            stack = RiscvRegisterStack.get(allocatable_registers=regs, allow_infinite=ai)
            RegisterAllocatorLivenessBlockNaive(stack).allocate_func(fn)
    else:
        if kind == "pass":
            from xdsl.transforms.x86_allocate_registers import X86AllocateRegisters
            X86AllocateRegisters().apply(Context(), module)
        else:
            from xdsl.backend.x86.register_allocation import X86RegisterAllocator
            from xdsl.backend.x86.register_stack import X86RegisterStack
            stack = X86RegisterStack.get(allocatable_registers=regs, allow_infinite=ai)
            X86RegisterAllocator(stack).allocate_func(fn)


# ================================================================================================
# oracle helpers
def regkey(t):
    from xdsl.backend.register_type import RegisterType
    from xdsl.dialects.builtin import IntAttr
    if not isinstance(t, RegisterType) or not t.is_allocated:
        return None
    if not isinstance(t.index, IntAttr):
        return ("?" + t.name, t.register_name.data)
    return (t.register_pool_key(), t.index.data)


def is_reg(v):
    from xdsl.backend.register_type import RegisterType
    return isinstance(v.type, RegisterType)


class UF:
    def __init__(self):
        self.p = {}

    def find(self, x):
        p = self.p
        r = x
        while p.get(r, r) is not r:
            r = p[r]
        while p.get(x, x) is not r:
            p[x], x = r, p[x]
        return r

    def union(self, a, b):
        ra, rb = self.find(a), self.find(b)
        if ra is not rb:
            self.p[ra] = rb

    def same(self, a, b):
        return self.find(a) is self.find(b)


def for_parts(op):
    """-> (lb, ub_val|None, step_val|None, inits, iv, iter block args, yields, iter results, lb_end|None)"""
    blk = op.body.block
    ys = list(blk.last_op.operands) if blk.last_op is not None and blk.last_op.name in YIELD_NAMES else []
    if op.name == "riscv_scf.for":
        return (op.lb, op.ub, op.step_val, list(op.iter_args), blk.args[0], list(blk.args[1:]), ys,
                list(op.results), None)
    return (op.lb, op.ub_val, op.step_val, list(op.iter_args), blk.args[0], list(blk.args[1:]), ys,
            list(op.res), op.lb_end)


class Info:
    """Per-function facts about the values of one (allocated or input) function."""

    def __init__(self, fn):
        self.kind, self.depth, self.name = {}, {}, {}
        self.copy, self.chain, self.web = UF(), UF(), UF()
        self.chained = set()
        self.nloops = self.ncarried = 0
        self.n = 0
        blk = fn.body.block
        for a in blk.args:
            self._def(a, "arg", 0)
        self._block(blk, 0)

    def _def(self, v, kind, depth):
        self.kind[v], self.depth[v] = kind, depth
        self.name[v] = f"%{self.n}"
        self.n += 1

    def _block(self, blk, depth):
        for op in blk.ops:
            if op.name in FOR_NAMES:
                lb, ub, step, inits, iv, iters, ys, res, lb_end = for_parts(op)
                self.nloops += 1
                self.ncarried += len(inits)
                if lb_end is not None:
                    self._def(lb_end, "loopres", depth)
                    self.chain.union(iv, lb)
                    self.chain.union(iv, lb_end)
                    self.web.union(iv, lb)
                    self.web.union(iv, lb_end)
                    self.chained.update((iv, lb, lb_end))
                for r in res:
                    self._def(r, "loopres", depth)
                self._def(iv, "iv", depth + 1)
                for a in iters:
                    self._def(a, "iterarg", depth + 1)
                self._block(op.body.block, depth + 1)
                for a, i, y, r in zip(iters, inits, ys, res):
                    self.chain.union(a, i)
                    self.chain.union(a, y)
                    self.chain.union(a, r)
                    for x in (i, y, r):
                        self.web.union(a, x)
                    self.chained.update((a, i, y, r))
                continue
            kind = "op"
            if op.name in COPY_NAMES:
                kind = "copy"
                self.copy.union(op.results[0], op.operands[0])
                self.web.union(op.results[0], op.operands[0])
            elif op.name in PMOV_NAMES:
                kind = "copy"
                for r, o in zip(op.results, op.operands):
                    self.copy.union(r, o)
                    self.web.union(r, o)
            elif op.name in GETREG_NAMES:
                kind = "getreg"
            elif op.name in CONST_NAMES:
                kind = "const"
            if op.name.startswith("x86."):
                for o, r in op.get_register_constraints().inouts:
                    self.web.union(o, r)
            for r in op.results:
                self._def(r, kind, depth)

    def finish(self):
        """Classes of `web` (copies, loop-carried chains, x86 tied operands) that contain a chain member."""
        self.loop_webs = {id(self.web.find(v)) for v in self.chained}
        return self

    def in_loop_web(self, v):
        return v is not None and id(self.web.find(v)) in self.loop_webs


class Live:
    """Backward liveness + interference over one function (own implementation)."""

    def __init__(self, fn, info, arch, check_pre=False, classic=False, copy_exempt=True):
        # classic: the loop op reads all its inits and the yield reads all its operands (the allocator's view);
        # otherwise they only count as read if the block argument / loop result is live
        self.fn, self.info, self.arch, self.classic = fn, info, arch, classic
        self.copy_exempt = copy_exempt and not classic
        self.conflicts, self.seen = [], set()
        self.pre_violations = []
        self.check_pre = check_pre
        self.maxlive = 0

    def run(self):
        blk = self.fn.body.block
        live_in = self.block(blk, set())
        # arguments are not written inside the function: only the live ones matter
        self.check_set(live_in, "function entry")
        return self

    # ---- conflict bookkeeping
    def _conflict(self, a, b, where):
        k = (id(a), id(b)) if id(a) < id(b) else (id(b), id(a))
        if k in self.seen:
            return
        self.seen.add(k)
        if self.copy_exempt and self.info.copy.same(a, b):
            return      # copy-related values hold the same value (not exempted in the allocator's view)
        self.conflicts.append((a, b, where))

    def _groups(self, vals):
        g = {}
        for v in vals:
            k = regkey(v.type)
            if k is None or k == ZERO or k[0] in SKIP_POOLS:
                continue
            g.setdefault(k, []).append(v)
        return g

    def check_set(self, vals, where):
        g = self._groups(vals)
        n = sum(1 for _ in g)
        live = sum(len(x) for x in g.values())
        self.maxlive = max(self.maxlive, live)
        if n == live:
            return
        for vs in g.values():
            for i in range(len(vs)):
                for j in range(i + 1, len(vs)):
                    if vs[i] is not vs[j]:
                        self._conflict(vs[i], vs[j], where)

    def check_defs(self, defs, after, where):
        self.check_set(set(after) | set(defs), where)

    # ---- transfer functions
    def block(self, blk, live_out):
        live = set(live_out)
        ops = list(blk.ops)
        for op in reversed(ops):
            live = self.op(op, live)
        return live

    def op(self, op, after):
        if op.name in YIELD_NAMES:
            return after
        if op.name in FOR_NAMES:
            return self.for_(op, after)
        if op.regions:
            raise RuntimeError(f"unexpected op with regions: {op.name}")
        defs = [r for r in op.results if is_reg(r)]
        if op.name in GETREG_NAMES:
            # get_register writes nothing: a dead result cannot clobber anything
            self.check_set(after, op.name)
        else:
            self.check_defs(defs, after, op.name)
        if self.check_pre and self.arch == "x86":
            self._precondition(op, [o for o, _ in op.get_register_constraints().inouts], after)
        before = (after - set(defs)) | {o for o in op.operands if is_reg(o)}
        self.check_set(before, "before " + op.name)
        return before

    def _precondition(self, op, inout_operands, live_across):
        seen = set()
        for o in inout_operands:
            if o in live_across:
                self.pre_violations.append((op.name, "in/out operand is read later"))
            if id(o) in seen:
                self.pre_violations.append((op.name, "value used by two in/out operands"))
            seen.add(id(o))

    def for_(self, op, after):
        lb, ub, step, inits, iv, iters, ys, res, lb_end = for_parts(op)
        blk = op.body.block
        args = set(blk.args)
        allres = list(op.results)
        # loop results are never written (they live in the registers of the yields): only live ones matter
        self.check_set(after, op.name + " results")
        exit_ = after - set(allres)
        res_live = [self.classic or (r in after) for r in res]
        through = set(exit_) | {iv}
        if ub is not None:
            through.add(ub)
        if step is not None:
            through.add(step)
        arg_live = [False] * len(iters)
        b_in = set()
        for _ in range(len(iters) + 3):
            back = through | (b_in - args) | {ys[j] for j in range(len(iters)) if arg_live[j] or res_live[j]}
            self.check_set(back, "back edge of " + op.name)
            nb_in = self.block(blk, back)
            n_arg_live = [a in nb_in for a in iters]
            stable = n_arg_live == arg_live and nb_in == b_in
            b_in, arg_live = nb_in, n_arg_live
            if stable:
                break
        else:
            raise RuntimeError("liveness fixpoint did not converge")
        self.check_set(b_in, "body entry of " + op.name)
        body_live_ins = b_in - args
        before = exit_ | body_live_ins | {lb}
        for j, i in enumerate(inits):
            if arg_live[j] or res_live[j]:
                before.add(i)
        if self.check_pre and self.arch == "x86":
            # lb and the iter_args are in/out operands: their values must die at the loop
            self._precondition(op, [lb] + list(inits), exit_ | body_live_ins)
        self.check_set(before, "before " + op.name)
        return before


# ================================================================================================
# lock-step execution
class Mis(Exception):
    def __init__(self, check, detail, a=None, b=None):
        super().__init__(detail)
        self.check, self.detail, self.a, self.b = check, detail, a, b


def sx(v, bits):
    v &= (1 << bits) - 1
    return v - (1 << bits) if v >> (bits - 1) else v


def garbage(key, mask):
    pool, idx = key
    salt = sum(ord(c) for c in pool)
    return ((idx + 7) * 0x9E3779B97F4A7C15 + salt * 0x1000193 + 0x5bd1e995) & mask | 0x10000


def imm_of(op):
    a = op.attributes.get("immediate")
    if a is None:
        a = op.properties.get("immediate")
    return a.value.data


def sem(op, v, mask):
    """SSA semantics of one (non-loop) op: operand values -> result values."""
    n = op.name
    if n in ("riscv_func.return", "x86_func.ret"):
        return []
    if n in ("rv32.li", "x86.di.mov"):
        return [imm_of(op) & mask]
    if n in COPY_NAMES:
        return [v[0]]
    if n in PMOV_NAMES:
        return list(v)
    if n in ("riscv.add", "x86.rs.add"):
        return [(v[0] + v[1]) & mask]
    if n in ("riscv.sub", "x86.rs.sub"):
        return [(v[0] - v[1]) & mask]
    if n in ("riscv.mul", "x86.rs.imul"):
        return [(v[0] * v[1]) & mask]
    if n in ("riscv.and", "x86.rs.and"):
        return [v[0] & v[1]]
    if n in ("riscv.or", "x86.rs.or"):
        return [v[0] | v[1]]
    if n in ("riscv.xor", "x86.rs.xor"):
        return [v[0] ^ v[1]]
    if n == "riscv.addi" or n == "x86.ri.add":
        return [(v[0] + imm_of(op)) & mask]
    if n == "rv32.slli":
        return [(v[0] << imm_of(op)) & mask]
    if n == "riscv.fcvt.s.w":
        return [(v[0] ^ 0x13579BDF) & mask]
    if n == "riscv.fcvt.w.s":
        return [(v[0] + 0x2468ACE) & mask]
    if n == "riscv.fadd.s":
        return [(v[0] + v[1] + 1) & mask]
    if n == "riscv.fmul.s":
        return [(v[0] * v[1] + 3) & mask]
    if n == "x86.r.neg":
        return [(-v[0]) & mask]
    if n == "x86.r.not":
        return [(~v[0]) & mask]
    if n == "x86.r.inc":
        return [(v[0] + 1) & mask]
    if n == "x86.r.dec":
        return [(v[0] - 1) & mask]
    if n == "x86.ri.sub":
        return [(v[0] - imm_of(op)) & mask]
    if n == "x86.ri.and":
        return [v[0] & (imm_of(op) & mask)]
    if n == "x86.ri.or":
        return [v[0] | (imm_of(op) & mask)]
    if n == "x86.ri.xor":
        return [v[0] ^ (imm_of(op) & mask)]
    if n == "x86.dsi.imul":
        return [(v[0] * imm_of(op)) & mask]
    if n == "x86.ss.cmp":
        return [(v[0] - v[1]) & mask]
    if n == "x86.ds.vpbroadcastq":
        return [(v[0] ^ 0x0F0F0F0F0F0F0F0F) & mask]
    if n == "x86.dss.vaddpd":
        return [(v[0] + v[1] + 1) & mask]
    if n == "x86.rss.vfmadd231pd":
        return [(v[0] + v[1] * v[2]) & mask]
    raise RuntimeError(f"no semantics for {n}")


class Machine:
    def __init__(self, arch, ofn, afn, ainfo, vmap_pre, inputs):
        self.arch = arch
        self.bits = 32 if arch == "riscv" else 64
        self.mask = (1 << self.bits) - 1
        self.ofn, self.afn, self.ainfo = ofn, afn, ainfo
        self.pre = vmap_pre                # alloc value -> was pre-allocated in the input
        self.inputs = inputs
        self.R, self.W, self.env = {}, {}, {}
        self.fuel = MAX_FUEL
        self.reads = 0

    def nm(self, av):
        return f"{self.ainfo.name.get(av, '?')}:{av.type}"

    def read(self, av, ov, where):
        exp = self.env[ov]
        key = regkey(av.type)
        self.reads += 1
        if key is None:
            raise Mis("unallocated_use", f"{where} reads {self.nm(av)} which has no register", av, None)
        if key == ZERO:
            got = 0
        elif key in self.R:
            got = self.R[key]
        else:
            got = garbage(key, self.mask)
        if got != exp:
            w = self.W.get(key)
            by = f"last written by {self.nm(w)}" if w is not None else "never written"
            raise Mis("differential", f"{where} reads {self.nm(av)}: register holds {got:#x} ({by}), "
                      f"SSA value is {exp:#x}", av, w)
        return exp

    def write(self, key, val, av, where):
        if key is None:
            return
        if key == ZERO:
            if val != 0 and not self.pre.get(av, False):
                raise Mis("zero_not_zero", f"{where} defines {self.nm(av)} = {val:#x} in the zero register",
                          av, None)
            return
        self.R[key] = val
        self.W[key] = av

    def run(self):
        ob, ab = self.ofn.body.block, self.afn.body.block
        for i, (oa, aa) in enumerate(zip(ob.args, ab.args)):
            val = self.inputs(i)
            self.env[oa] = val
            if aa.first_use is not None:
                # a dead argument has no observable value (its register may be reused)
                self.write(regkey(aa.type), val, aa, "function entry")
        self.block(ob, ab)

    def block(self, ob, ab):
        oops, aops = list(ob.ops), list(ab.ops)
        if len(oops) != len(aops):
            raise RuntimeError("allocation changed the number of ops")
        for o, a in zip(oops, aops):
            self.fuel -= 1
            if self.fuel < 0:
                raise RuntimeError("out of fuel")
            if o.name != a.name:
                raise RuntimeError("allocation changed an op")
            if o.name in FOR_NAMES:
                self.for_(o, a)
            elif o.name in YIELD_NAMES:
                pass
            elif o.name in GETREG_NAMES:
                key = regkey(a.results[0].type)
                if key == ZERO:
                    val = 0
                elif key in self.R:
                    val = self.R[key]
                else:
                    val = garbage(key, self.mask) if key is not None else 0
                self.env[o.results[0]] = val
            else:
                vals = [self.read(av, ov, a.name) for ov, av in zip(o.operands, a.operands)]
                res = sem(o, vals, self.mask)
                tied = {}
                if self.arch == "x86":
                    for opnd, r in a.get_register_constraints().inouts:
                        tied[r] = opnd
                for orr, arr, val in zip(o.results, a.results, res):
                    self.env[orr] = val
                for arr, val in zip(a.results, res):
                    tgt = tied.get(arr)
                    key = regkey(tgt.type) if tgt is not None else regkey(arr.type)
                    self.write(key, val, arr, a.name)

    def for_(self, o, a):
        olb, oub, ostep, oinits, oiv, oiters, _, ores, olb_end = for_parts(o)
        alb, aub, astep, ainits, aiv, aiters, _, ares, alb_end = for_parts(a)
        bits, mask = self.bits, self.mask
        nm = a.name
        lbv = self.read(alb, olb, nm + " (lb)")
        ivkey = regkey(aiv.type)
        if self.arch == "riscv":
            self.write(ivkey, lbv, aiv, nm + " (iv := lb)")
        # x86: the lowering uses the register of lb as induction register (no move)

        def ubval():
            if oub is None:
                return o.ub_attr.value.data & mask
            return self.read(aub, oub, nm + " (ub)")

        def stepval():
            if ostep is None:
                return o.step_attr.value.data & mask
            return self.read(astep, ostep, nm + " (step)")

        cur = [self.env[i] for i in oinits]
        iv = lbv
        self.env[oiv] = iv
        ub = ubval()
        if self.arch == "x86":
            # cmp lb, ub
            pass
        else:
            self.read(aiv, oiv, nm + " (iv at loop entry)")
        if sx(iv, bits) < sx(ub, bits):
            while True:
                self.fuel -= 1
                if self.fuel < 0:
                    raise RuntimeError("out of fuel")
                self.env[oiv] = iv
                for ba, c in zip(oiters, cur):
                    self.env[ba] = c
                self.block(o.body.block, a.body.block)
                oy = o.body.block.last_op
                cur = [self.env[y] for y in oy.operands]
                # iv += step ; compare with ub
                self.read(aiv, oiv, nm + " (iv at back edge)")
                iv = (iv + stepval()) & mask
                self.env[oiv] = iv
                self.write(ivkey, iv, aiv, nm + " (iv += step)")
                ub = ubval()
                if not sx(iv, bits) < sx(ub, bits):
                    break
        for r, c in zip(ores, cur):
            self.env[r] = c
        if olb_end is not None:
            self.env[olb_end] = iv


# ================================================================================================
# one case
def recipe_features(r):
    f = {"loops": 0, "carried": 0, "pre": 0, "nops": 0, "inout": 0}

    def walk(ops):
        for op in ops:
            if not isinstance(op, list) or not op:
                continue
            f["nops"] += 1
            if op[0] == "for" and len(op) == 9:
                f["loops"] += 1
                f["carried"] += len(op[6]) if isinstance(op[6], list) else 0
                if isinstance(op[7], list):
                    walk(op[7])
            if op[0] in ("rs", "r", "ri", "vfma"):
                f["inout"] += 1
    walk(r.get("ops", []))
    return f


def classify(arch, mode, info, reg, pre_regs, a, b, chain):
    """feature of a mismatch from the register and the two values involved."""
    def loopy(v):
        return v is not None and (info.kind.get(v) in ("iv", "iterarg", "loopres") or info.depth.get(v, 0) > 0
                                  or info.in_loop_web(v))
    if chain == "overlap":
        return "loop"
    if reg is not None and reg in pre_regs:
        return "prealloc"
    if loopy(a) or loopy(b):
        return "loop"
    if mode[0] == "pool":
        return "limited_pool"
    if arch == "x86":
        return "inout"
    return "plain"


def find_stale(fn, info):
    """Operands that are not attached results / block arguments of the function."""
    out = []
    for op in fn.body.walk():
        for v in op.operands:
            if v not in info.kind:
                out.append((op, v))
    return out


def render(module):
    from io import StringIO
    from xdsl.printer import Printer
    s = StringIO()
    Printer(stream=s).print_op(module)
    return s.getvalue()


def crash_sig(arch, e):
    import traceback
    where = "?"
    for fr in reversed(traceback.extract_tb(e.__traceback__)):
        if "/xdsl/" in fr.filename:
            where = fr.filename.split("/xdsl/", 1)[1] + ":" + fr.name
            break
    return {"check": "crash:" + type(e).__name__, "arch": arch, "feature": where}


def run_one(h, recipe):
    from xdsl.utils.exceptions import DiagnosticException
    arch = recipe.get("arch") if isinstance(recipe, dict) else None
    module, fn = build(recipe)
    mode = parse_mode(arch, recipe["mode"])
    seed = _int(recipe["seed"])
    with quiet():
        module.verify()            # generator bug if this fails
        if arch == "x86":
            from xdsl.context import Context
            from xdsl.transforms.x86_regalloc_legalize import X86RegallocLegalizePass
            from xdsl.utils.exceptions import VerifyException
            X86RegallocLegalizePass().apply(Context(), module)
            try:
                module.verify()
            except VerifyException:
                # the copy inserted for a pre-allocated loop-carried init has an unallocated type that no
                # longer matches the block argument: a defect of the legalization, not of the allocator
                h.case(recipe, False, label="x86:legalize_output_invalid")
                h.discard("x86_legalize_output_does_not_verify")
                return
    # ---- input domain: pre-allocated values must not already clash; x86 in/out precondition
    iinfo = Info(fn).finish()
    with quiet():
        from xdsl.backend.register_allocatable import RegisterAllocatableOperation
        seen_by_allocator = {regkey(t) for t in RegisterAllocatableOperation.all_used_registers(fn.body)}
    # (no exemption for copies here: an in/out op on one of two copy-related values pre-assigned to the same
    # register would be forced to clobber the other one)
    ilive = Live(fn, iinfo, arch, check_pre=True, copy_exempt=False).run()
    feats = recipe_features(recipe)
    if ilive.conflicts:
        h.case(recipe, False, label=f"{arch}:input_prealloc_conflict")
        h.discard("input_prealloc_conflict")
        return
    if ilive.pre_violations:
        h.case(recipe, False, label="x86:inout_precondition_not_met")
        h.discard("x86_inout_precondition:" + ilive.pre_violations[0][1])
        return
    amod = module.clone()
    afn = next(iter(amod.body.block.ops))
    try:
        with quiet():
            allocate(arch, amod, afn, mode)
    except DiagnosticException as e:
        why = "out_of_registers" if type(e).__name__ == "OutOfRegisters" else (
            "cannot_unify" if "Cannot allocate registers to the same register" in str(e) else "diagnostic")
        h.case(recipe, False, label=f"{arch}:alloc_failed")
        h.discard("alloc_failed:" + why)
        return
    except Exception as e:  # noqa: BLE001 - any other exception of the allocator is a finding
        h.case(recipe, False, label=f"{arch}:alloc_crashed")
        h.mismatch(crash_sig(arch, e), recipe, f"{type(e).__name__}: {e!s:.300}\n{render(module)}")
        return
    # the stats comment is inserted in front of the function
    afns = [op for op in amod.body.block.ops if op.name == fn.name]
    if len(afns) != 1:
        raise RuntimeError("function lost")
    afn = afns[0]

    # ---- pair values
    pre = {}          # alloc value -> pre-allocated in the input
    pairs = []        # (orig value, alloc value)

    def pair(ob, ab):
        if len(ob.args) != len(ab.args):
            raise RuntimeError("block args changed")
        for x, y in zip(ob.args, ab.args):
            pairs.append((x, y))
        oops, aops = list(ob.ops), list(ab.ops)
        if len(oops) != len(aops):
            raise RuntimeError("ops changed")
        for o, a in zip(oops, aops):
            if o.name != a.name or len(o.results) != len(a.results):
                raise RuntimeError("op changed")
            for x, y in zip(o.results, a.results):
                pairs.append((x, y))
            for ro, ra in zip(o.regions, a.regions):
                pair(ro.block, ra.block)
    pair(fn.body.block, afn.body.block)
    for x, y in pairs:
        pre[y] = regkey(x.type) is not None
    ainfo = Info(afn).finish()
    text = None
    stale = find_stale(afn, ainfo)

    def detail(msg):
        nonlocal text
        if text is None:
            text = "input:\n" + render(module) + "\nallocated (" + jmode(recipe["mode"]) + "):\n" + render(amod)
        return msg + "\n" + text

    overlapping = None
    pre_regs = {regkey(x.type) for x, _ in pairs if regkey(x.type) is not None} - {ZERO}

    def chain_of(reg, a, b):
        """overlap: the register involved is the register of a loop-carried web (block arg / init / yield /
        result, plus copies and x86 tied operands) two members of which are live at the same time in the
        allocator's own view of liveness (the loop reads its inits, the yield its operands); clean: one of the
        values belongs to a loop-carried web, no such overlap; no: neither."""
        nonlocal overlapping
        if overlapping is None:
            overlapping = set()
            if not stale:
                for x, y, _ in Live(afn, ainfo, arch, classic=True).run().conflicts:
                    if ainfo.web.same(x, y) and ainfo.in_loop_web(x):
                        overlapping.add(regkey(x.type))
        if reg is not None and reg in overlapping:
            return "overlap"
        return "clean" if any(v is not None and ainfo.in_loop_web(v) for v in (a, b)) else "no"

    def sig(check, a, b, extra=None):
        reg = None
        for v in (a, b):
            if v is not None and regkey(v.type) is not None:
                reg = regkey(v.type)
                break
        chain = chain_of(reg, a, b)
        s = {"check": check, "arch": arch,
             "feature": classify(arch, recipe["mode"], ainfo, reg, pre_regs, a, b, chain)}
        if a is not None or b is not None:
            s["chain"] = chain
        if s["feature"] == "prealloc":
            # did the allocator's own scan (all_used_registers) see the pre-allocated register involved?
            s["excluded"] = "yes" if reg in seen_by_allocator else "no"
        if reg is not None and isinstance(reg[1], int) and reg[1] < 0:
            s["infinite"] = "yes"       # the register involved is an infinite (j_N / inf_reg_N) register
        if extra:
            s.update(extra)
        if stale:
            s["stale"] = "yes"
        return s

    if stale:
        op, v = stale[0]
        h.mismatch({"check": "invalid_ir", "arch": arch, "feature": "loop", "stale": "yes"}, recipe,
                   detail(f"{op.name} uses a value of type {v.type} that is no longer a result / block argument "
                          f"of the function ({len(stale)} such operands): the allocator replaced the same value "
                          f"twice"))

    # ---- (1) pre-assigned registers unchanged, pool respected
    pool_keys = None
    if True:
        kind, regs, ai, fi, _ = mode
        if kind == "pool":
            allowed = {regkey(t) for t in regs}
        elif fi:
            allowed = set()
        else:
            ints, flts = default_pool(arch)
            allowed = {regkey(t) for t in ints} | {regkey(t) for t in flts}
            if arch == "x86":
                from xdsl.dialects.x86 import registers
                allowed |= {regkey(t) for t in registers.AVX512RegisterType.allocatable_registers()}
        allowed |= {regkey(x.type) for x, _ in pairs if regkey(x.type) is not None}
        allowed.add(ZERO)
        pool_keys = allowed
    nvals = 0
    for x, y in pairs:
        if not is_reg(x):
            continue
        nvals += 1
        kx, ky = regkey(x.type), regkey(y.type)
        if kx is not None:
            if x.type != y.type:
                h.mismatch(sig("preassigned_changed", y, None), recipe,
                           detail(f"{ainfo.name[y]} was pre-allocated to {x.type}, now {y.type}"))
        elif ky is not None and ky not in pool_keys:
            if not ((mode[2] or mode[3]) and isinstance(ky[1], int) and ky[1] < 0):
                h.mismatch(sig("outside_pool", y, None), recipe,
                           detail(f"{ainfo.name[y]} got {y.type}, which is neither allocatable in this "
                                  f"configuration nor pre-allocated in the input"))

    # ---- (2) interference (value identity is meaningless once operands are stale)
    alive = Live(afn, ainfo, arch)
    if not stale:
        alive.run()
    for a, b, where in alive.conflicts[:3]:
        h.mismatch(sig("interference", a, b), recipe,
                   detail(f"at {where}: {ainfo.name[a]}:{a.type} ({ainfo.kind[a]}) and {ainfo.name[b]}:{b.type} "
                          f"({ainfo.kind[b]}) are live at the same time in the same register"))

    # ---- (3) lock-step differential
    ninputs = 2 if (len(fn.body.block.args) or recipe["regs"]) else 1
    reads = 0
    for k in range(ninputs):
        def inputs(i, k=k):
            return ((seed + 1) * 2654435761 + i * 40503 + k * 0x9E3779B1 + (i + 1) * (k + 3) * 7919) & (
                (1 << (32 if arch == "riscv" else 64)) - 1)
        m = Machine(arch, fn, afn, ainfo, pre, inputs)
        if k:
            # different garbage / input register contents in the second run
            m.R = {}
        try:
            m.run()
        except Mis as e:
            h.mismatch(sig(e.check, e.a, e.b), recipe, detail(e.detail))
            break
        reads += m.reads

    # ---- bookkeeping
    haspre = any(pre.values())
    nontrivial = alive.maxlive >= 6 or ainfo.ncarried > 0 or haspre
    cls = "loop" if ainfo.nloops else ("prealloc" if haspre else ("pool" if mode[0] == "pool" else "plain"))
    h.case(recipe, nontrivial, label=f"{arch}:{cls}")
    if not getattr(h, "_shrinking", False):
        if alive.maxlive >= 6:
            h.count("maxlive>=6")
        if alive.maxlive >= 16:
            h.count("maxlive>=16")
        if alive.maxlive >= 30:
            h.count("maxlive>=30")
        if ainfo.ncarried:
            h.count("loop_carried")
        if ainfo.nloops >= 2:
            h.count("loops>=2")
        if haspre:
            h.count("has_prealloc")
        if mode[0] == "pool":
            h.count("limited_pool")
        if mode[2] or mode[3]:
            h.count("infinite_allowed")
        if any(isinstance(regkey(y.type), tuple) and isinstance(regkey(y.type)[1], int) and regkey(y.type)[1] < 0
               for _, y in pairs):
            h.count("infinite_used")
        if any(regkey(y.type) == ZERO and not pre[y] for _, y in pairs):
            h.count("zero_assigned")
        if feats["inout"]:
            h.count("x86_inout_ops")
        h.count("operand_reads_compared", reads)


def jmode(mode):
    import json
    return json.dumps(mode)


def replay(h, recipe):
    run_one(h, recipe)


# ================================================================================================
# strategies
REF = st.one_of(st.integers(0, 3), st.integers(0, 63))


def _rd(draw, dens, n=19):
    if dens and draw(st.integers(0, 9)) < dens:
        return draw(st.integers(1, n))
    return 0


@st.composite
def rv_ops(draw, depth, dens, maxn):
    n = draw(st.integers(0, maxn))
    out = []
    for _ in range(n):
        c = draw(st.integers(0, 21 if depth < 2 else 18))
        if c <= 2:
            imm = draw(st.sampled_from([0, 0, 1, 2, 5, -1, 100, 2047, -2048, 123456]))
            rd = -1 if (imm == 0 and draw(st.booleans())) else _rd(draw, dens)
            out.append(["li", imm, rd])
        elif c <= 4:
            out.append(["mv", draw(REF), _rd(draw, dens)])
        elif c <= 10:
            out.append(["bin", draw(st.integers(0, 5)), draw(REF), draw(REF), _rd(draw, dens)])
        elif c <= 12:
            out.append(["imm", draw(st.integers(0, 1)), draw(REF), draw(st.integers(0, 4095)), _rd(draw, dens)])
        elif c == 13:
            out.append(["fcvt", draw(REF), _rd(draw, dens, 8)])
        elif c == 14:
            out.append(["fcvtw", draw(REF), _rd(draw, dens)])
        elif c == 15:
            out.append(["fmv", draw(REF), _rd(draw, dens, 8)])
        elif c <= 17:
            out.append(["fbin", draw(st.integers(0, 1)), draw(REF), draw(REF), _rd(draw, dens, 8)])
        elif c == 18:
            k = draw(st.integers(1, 4))
            out.append(["pmov", [draw(REF) for _ in range(k)], [_rd(draw, dens) for _ in range(k)]])
        else:
            out.append(draw(rv_for(depth, dens)))
    return out


@st.composite
def rv_for(draw, depth, dens):
    nit = draw(st.sampled_from([0, 1, 1, 1, 2, 2, 3]))
    iters = [[draw(st.sampled_from(["i", "i", "i", "f"])), draw(REF), draw(st.sampled_from([0, 1, 1]))]
             for _ in range(nit)]
    body = draw(rv_ops(depth + 1, dens, 6))
    return ["for", draw(st.integers(0, 3)), draw(st.integers(0, 5)), draw(st.integers(0, 2)),
            draw(st.integers(0, 1)), _rd(draw, dens), iters, body, [draw(st.sampled_from([0, 0, 1, 1, 2, 3, 4, 5, 6, 9, 13])) for _ in range(nit)]]


def rv_mode():
    return st.one_of(
        st.tuples(st.just("pass"), st.booleans(), st.sampled_from([False, False, False, True]),
                  st.booleans()).map(list),
        st.tuples(st.just("pool"), st.lists(st.integers(0, 14), min_size=1, max_size=15, unique=True),
                  st.lists(st.integers(0, 19), min_size=0, max_size=6, unique=True),
                  st.booleans()).map(list))


@st.composite
def rv_random(draw):
    dens = draw(st.sampled_from([0, 0, 1, 2, 4]))
    return {"arch": "riscv",
            "args": [(_rd(draw, 5, 19)) for _ in range(draw(st.integers(0, 3)))],
            "fargs": [(_rd(draw, 5, 8)) for _ in range(draw(st.sampled_from([0, 0, 1])))],
            "regs": [draw(st.integers(0, 18)) for _ in range(draw(st.sampled_from([0, 0, 1, 2])))],
            "ops": draw(rv_ops(0, dens, 14)),
            "ret": [[draw(st.sampled_from(["i", "i", "f"])), draw(REF)]
                    for _ in range(draw(st.integers(0, 2)))],
            "mode": draw(rv_mode()),
            "seed": draw(st.integers(0, 1 << 16))}


@st.composite
def pressure(draw, arch, nmax):
    """n values defined first, consumed afterwards in a drawn order (refs are from-the-end indices)."""
    n = draw(st.integers(6, nmax))
    dens = draw(st.sampled_from([0, 0, 0, 1, 2]))
    nargs = draw(st.integers(0, 2))
    npre = 19 if arch == "riscv" else 14
    ops = []
    count = nargs           # int values visible so far
    first = count
    for i in range(n):
        c = draw(st.integers(0, 3))
        if i == 0 or c <= 1:
            ops.append(["li", draw(st.integers(1, 1000)), _rd(draw, dens, npre)])
        elif c == 2 or arch == "x86":
            ops.append(["mv", draw(st.integers(0, i - 1)), _rd(draw, dens, npre)])
        else:
            ops.append(["bin", draw(st.integers(0, 5)), draw(st.integers(0, i - 1)),
                        draw(st.integers(0, i - 1)), _rd(draw, dens, npre)])
        count += 1
    order = draw(st.permutations(list(range(n))))
    # optional loop in the middle that keeps everything live across it
    if draw(st.integers(0, 3)) == 0:
        ops.append(draw(rv_for(0, 0)) if arch == "riscv" else draw(x86_for(0, 0)))
        # not tracked exactly: the loop defines extra ints, refs below are computed from its result count
        loop = ops[-1]
        extra = (2 + (0 if loop[4] & 1 else 1)) if arch == "riscv" else (
            (0 if loop[4] & 2 else 1) + (0 if loop[4] & 1 else 1))
        k = "i"
        extra += sum(1 for it in loop[6] if it[0] == k)
        if arch == "x86":
            extra += 1   # lb_end
        # implicit values created by need() cannot occur here: int values exist
        count += extra
    acc = None
    for j, idx in enumerate(order):
        absidx = first + idx
        if acc is None:
            ops.append(["mv", count - 1 - absidx, 0])
            count += 1
            acc = count - 1
            continue
        if arch == "riscv":
            ops.append(["bin", draw(st.sampled_from([0, 0, 1, 5])), count - 1 - acc, count - 1 - absidx, 0])
        else:
            ops.append(["rs", draw(st.sampled_from([0, 0, 1, 5])), count - 1 - acc, count - 1 - absidx])
        count += 1
        acc = count - 1
    if arch == "riscv":
        ints = st.lists(st.integers(0, 14), min_size=max(1, min(15, n - 3)), max_size=15, unique=True)
        mode = draw(st.one_of(
            st.tuples(st.just("pass"), st.booleans(), st.sampled_from([False, False, True]),
                      st.booleans()).map(list),
            st.tuples(st.just("pool"), ints, st.just([0, 1]), st.booleans()).map(list)))
    else:
        ints = st.lists(st.integers(0, 12), min_size=max(1, min(13, n - 3)), max_size=13, unique=True)
        mode = draw(st.one_of(
            st.just(["pass", False, False, False]),
            st.tuples(st.just("pool"), ints, st.just([0, 1]), st.booleans()).map(list)))
    return {"arch": arch, "args": [_rd(draw, 5, npre) for _ in range(nargs)], "fargs": [], "regs": [],
            "ops": ops, "ret": [["i", 0]] if arch == "riscv" else [], "mode": mode,
            "seed": draw(st.integers(0, 1 << 16))}


@st.composite
def x86_ops(draw, depth, dens, maxn):
    n = draw(st.integers(0, maxn))
    out = []
    for _ in range(n):
        c = draw(st.integers(0, 20 if depth < 2 else 18))
        if c <= 2:
            out.append(["li", draw(st.sampled_from([0, 1, 2, 5, -1, 100, 123456, -2147483648])),
                        _rd(draw, dens, 14)])
        elif c <= 4:
            out.append(["mv", draw(REF), _rd(draw, dens, 14)])
        elif c <= 9:
            out.append(["rs", draw(st.integers(0, 5)), draw(REF), draw(REF)])
        elif c <= 11:
            out.append(["r", draw(st.integers(0, 3)), draw(REF)])
        elif c <= 13:
            out.append(["ri", draw(st.integers(0, 4)), draw(REF), draw(st.integers(-50, 1000))])
        elif c == 14:
            out.append(["dsi", draw(REF), draw(st.integers(-3, 9)), _rd(draw, dens, 14)])
        elif c == 15:
            out.append(["cmp", draw(REF), draw(REF)])
        elif c == 16:
            out.append(draw(st.one_of(
                st.tuples(st.just("vb"), REF, st.just(_rd(draw, dens, 6))).map(list),
                st.tuples(st.just("vadd"), REF, REF, st.just(_rd(draw, dens, 6))).map(list),
                st.tuples(st.just("vfma"), REF, REF, REF).map(list))))
        elif c == 17:
            out.append(["vfma", draw(REF), draw(REF), draw(REF)])
        elif c == 18:
            k = draw(st.integers(1, 4))
            out.append(["pmov", [draw(REF) for _ in range(k)], [_rd(draw, dens, 14) for _ in range(k)]])
        else:
            out.append(draw(x86_for(depth, dens)))
    return out


@st.composite
def x86_for(draw, depth, dens):
    nit = draw(st.sampled_from([0, 1, 1, 1, 2, 2, 3]))
    iters = [[draw(st.sampled_from(["i", "i", "i", "v"])), draw(REF), draw(st.sampled_from([0, 1, 1]))]
             for _ in range(nit)]
    body = draw(x86_ops(depth + 1, dens, 6))
    return ["for", draw(st.integers(0, 3)), draw(st.integers(0, 5)), draw(st.integers(0, 2)),
            draw(st.integers(0, 3)), _rd(draw, dens, 14), iters, body,
            [draw(st.sampled_from([0, 0, 1, 1, 2, 3, 4, 5, 6, 9, 13])) for _ in range(nit)]]


def x86_mode():
    return st.one_of(
        st.just(["pass", False, False, False]),
        st.tuples(st.just("pool"), st.lists(st.integers(0, 12), min_size=1, max_size=13, unique=True),
                  st.lists(st.integers(0, 31), min_size=0, max_size=6, unique=True),
                  st.booleans()).map(list))


@st.composite
def x86_random(draw):
    dens = draw(st.sampled_from([0, 0, 1, 2, 4]))
    return {"arch": "x86",
            "args": [(_rd(draw, 5, 14)) for _ in range(draw(st.integers(0, 3)))],
            "fargs": [(_rd(draw, 5, 6)) for _ in range(draw(st.sampled_from([0, 0, 1])))],
            "regs": [draw(st.integers(0, 13)) for _ in range(draw(st.sampled_from([0, 0, 1, 2])))],
            "ops": draw(x86_ops(0, dens, 14)),
            "ret": [],
            "mode": draw(x86_mode()),
            "seed": draw(st.integers(0, 1 << 16))}


def checks(h):
    def body(recipe):
        run_one(h, recipe)
    n = h.scale(120, 2200)
    h.hyp("riscv_random", rv_random(), body, max_examples=n * 3, seed_salt=1)
    h.hyp("riscv_pressure", pressure("riscv", 24 if h.quick else 40), body, max_examples=n, seed_salt=2)
    h.hyp("x86_random", x86_random(), body, max_examples=n * 2, seed_salt=3)
    h.hyp("x86_pressure", pressure("x86", 20 if h.quick else 40), body, max_examples=n, seed_salt=4)
