"""C22 -- RISC-V backend output computes the source results and keeps callee state.

Recipes (plain JSON), dispatched on "kind":

  {"kind": "L1", "prog": PROG, "inputs": [[v...]...]}
  {"kind": "L2", "prog": PROG, "inputs": [[v...]...], "seed": int, "pipe": 0|1,
   "prealloc": [[k, "s3"|"fs2"|...]...]}
  {"kind": "L3", "nargs": n, "ops": [SOP...], "ret": [ref...], "inputs": [[v...]...]}

PROG = {"args": [T...], "body": [STMT...], "ret": [[T, ref]...], "ysafe": 0|1}   one func.func @f, 1..2 results
  ysafe=1: the refs of a loop's scf.yield only see the values defined in the loop body and the iter_arg of
  the same position (never the induction variable, another iter_arg or a value defined outside the loop)
  T    = "i32" | "index" | "f32" | "f64" ("i1" only as a result / operand of i1 ops)
  ref  = int: index (modulo) into the visible values OF THE REQUIRED TYPE counted backwards from the
         most recent one; if there is none a boundary constant is materialised -- every recipe builds.
  STMT = {"op": "const", "t": T, "v": pattern}
       | {"op": <int binary>, "t": "i32"|"index"|"i1", "a": ref, "b": ref, "safe": 0|1}
             safe=1: divisor or-ed with 1 / shift amount and-ed with 31 (fewer undefined runs)
       | {"op": "cmpi", "t": "i32"|"index", "p": 0..9, "a", "b"} | {"op": "cmpf", "t": FT, "p": 0..15, "a", "b"}
       | {"op": "select", "t": T, "c": ref, "a", "b"}
       | {"op": "extui"|"extsi"|"trunci"|"index_cast"|"sitofp"|"uitofp"|"fptosi"|"fptoui"|
                "extf"|"truncf", "from": T, "to": T, "a": ref}
       | {"op": <float binary>|"negf", "t": FT, "a", "b"}
       | {"op": "for", "t": "index"|"i32", "lb": BOUND, "ub": BOUND, "step": 1..4, "iters": [[T, ref]...],
          "body": [STMT...], "y": [ref...]}         BOUND = {"c": small int} | {"r": ref, "m": mask 0..15}
       | {"op": "if", "t": T, "c": ref(i1), "a": ref, "b": ref}      %r = scf.if %c -> (T) {yield a} else {yield b}
       | {"op": "while", "t": "i32", "n": ref, "x": ref}  k = n & 7; while (k != 0) {x += k; k -= 1}; result x
       | {"op": "call", "args": [["i32", ref]]}       calls @g(x) = x + 7
  inputs: one pattern per argument (ints: 32-bit pattern, f32: 32-bit pattern, f64: 64-bit pattern).

SOP (L3, riscv-dialect snippet, all values are unallocated !riscv.reg):
       {"op": "li", "v": int} | {"op": "zero"} | {"op": "mv", "a": ref}
     | {"op": <R-type>, "a": ref, "b": ref} | {"op": <I-type>, "a": ref, "i": imm}
     | {"op": "sp"} (address value) | {"op": "addr", "b": aref, "i": imm} (addi on an address)
     | {"op": "sw", "b": aref, "v": ref, "i": imm} | {"op": "lw", "b": aref, "i": imm}
"""
from __future__ import annotations

from hypothesis import strategies as st

from vt import refsem
from vt.machines import rvsim
from vt.machines.rvsim import M32, M64, s32
from vt.run import quiet

ID = "C22"
SHARDS = {"quick": 16, "thorough": 16}
RULE = (
    "L1: start-up probes = every supported op kind (arith op x predicate x type over i32/index/f32/f64, "
    "scf.for, func.call) alone in a one-op func.func on a cross product of boundary inputs, then random "
    "func/arith/scf.for programs (<=8 args, 1-2 results, nested loops with <=16 trips, boundary and random "
    "constants) over the kinds whose probe was clean (kinds the lowering rejects -> excluded as "
    "`unsupported:*`, kinds whose probe disagrees -> excluded from random generation as `probe_failed:*`, "
    "the probes themselves run on every run); lowered with convert-func-to-riscv-func, "
    "convert-scf-to-riscv-scf, convert-arith-to-riscv, reconcile-unrealized-casts; the still-SSA riscv "
    "program is executed by vt.machines.rvsim.SSAMachine (own RV32 value semantics) and compared with "
    "vt.refsem on the source (index = 32 bit); runs with MLIR-undefined behaviour are excluded. On a "
    "mismatch the first top-level statement whose value disagrees is blamed (signature op/pred/ty). "
    "L2: the same programs through the rest of the pipeline (canonicalize, riscv-allocate-registers, "
    "riscv-lower-parallel-mov, convert-riscv-scf-to-riscv-cf, canonicalize, "
    "riscv-prologue-epilogue-insertion; second order: canonicalize after every step as in "
    "test-lower-linalg-to-snitch), optionally with some intermediate values pre-allocated to callee-saved "
    "registers (s0-s11, fs0-fs11) before allocation so that the prologue/epilogue pass has work; the "
    "emitted riscv-asm TEXT is executed by rvsim.AsmMachine from random register/stack state with ABI "
    "argument placement: a0/a1/fa0/fa1 = reference, s0-s11/fs0-fs11/sp unchanged, stack bytes at/above "
    "the initial sp unchanged, only accesses inside the stack window; plus the enumeration of every "
    "supported binary op with each boundary constant on either side (f(x) = x op C, C op x) through the "
    "whole pipeline. A wrong result is attributed to the first wrong stage: lowering / canonicalize (SSA "
    "program re-evaluated after those passes), regalloc (the allocated riscv_scf program executed on a "
    "register file, SSAMachine(regmode), is already wrong; signature carries the shape of the loop-carried "
    "values handed to the allocator) or backend (everything later). Loops whose yield operands are not "
    "plain body-defined values (own induction variable, outside value) are only generated for L2 when "
    "their probe is clean (`ysafe`). L3: riscv-dialect snippets (li with "
    "immediate-range boundary constants, R/I-type ALU ops, shifts, mv, zero, sp-relative lw/sw through "
    "addi chains; enumerated: every R/I/shift op x {arg, zero, li c, mv(li c)} operand shapes x boundary "
    "constants, op-of-op immediates, sub(addi), sp-relative sw/lw offset pairs; plus random snippets) through "
    "`canonicalize` alone, SSAMachine before vs after on all inputs (returned values and memory). "
    "Non-trivial: L1/L2: the program contains a comparison or a loop, or a value (input, constant, result) "
    "with the top bit set; L3: canonicalize changed the op sequence (a pattern fired).")
ASSUMPTIONS = [
    "vt.refsem implements MLIR arith/scf semantics (index is 32 bit on the rv32 target, as "
    "LowerArithIndexCast documents); vt.machines.rvsim implements the RISC-V ISA manual",
    "the dynamic rounding mode is round-to-nearest-even (frm reset/ABI default); NaN results compare as "
    "any-NaN",
    "an i1 result is compared in bit 0 of its register only; f32 results must be NaN-boxed in fa0/fa1",
    "every exception raised by a pass / the asm printer means `program not supported` (discarded and "
    "counted by pass and exception type, never a violation)",
    "pre-allocating distinct intermediate values to distinct callee-saved registers is a supported use "
    "of riscv-allocate-registers (tests/filecheck/backend/riscv/register-allocation/preallocated.mlir)",
]

L1_PASSES = ["convert-func-to-riscv-func", "convert-scf-to-riscv-scf", "convert-arith-to-riscv",
             "reconcile-unrealized-casts"]
L2_PIPES = [
    ["canonicalize", "riscv-allocate-registers", "riscv-lower-parallel-mov",
     "convert-riscv-scf-to-riscv-cf", "canonicalize", "riscv-prologue-epilogue-insertion"],
    ["canonicalize", "riscv-allocate-registers", "canonicalize", "convert-riscv-scf-to-riscv-cf",
     "canonicalize", "riscv-lower-parallel-mov", "canonicalize", "riscv-prologue-epilogue-insertion"],
]

INT_T = ("i32", "index")
FLT_T = ("f32", "f64")
INT_BIN = ["addi", "subi", "muli", "divsi", "divui", "remsi", "remui", "andi", "ori", "xori", "shli",
           "shrsi", "shrui", "minsi", "maxsi", "minui", "maxui", "floordivsi", "ceildivsi", "ceildivui"]
I1_BIN = ["andi", "ori", "xori"]
DIVS = {"divsi", "divui", "remsi", "remui", "floordivsi", "ceildivsi", "ceildivui"}
SHIFTS = {"shli", "shrsi", "shrui"}
FLT_BIN = ["addf", "subf", "mulf", "divf", "minimumf", "maximumf", "minnumf", "maxnumf"]
CMPI = ["eq", "ne", "slt", "sle", "sgt", "sge", "ult", "ule", "ugt", "uge"]
CMPF = ["false", "oeq", "ogt", "oge", "olt", "ole", "one", "ord", "ueq", "ugt", "uge", "ult", "ule", "une",
        "uno", "true"]
CASTS = [("extui", "i1", "i32"), ("extsi", "i1", "i32"), ("trunci", "i32", "i1"),
         ("index_cast", "i32", "index"), ("index_cast", "index", "i32"),
         ("sitofp", "i32", "f32"), ("sitofp", "i32", "f64"), ("uitofp", "i32", "f32"), ("uitofp", "i32", "f64"),
         ("fptosi", "f32", "i32"), ("fptosi", "f64", "i32"), ("fptoui", "f32", "i32"), ("fptoui", "f64", "i32"),
         ("extf", "f32", "f64"), ("truncf", "f64", "f32")]
INT_BOUNDARY = [0, 1, 2, 0xFFFFFFFF, 0x80000000, 0x7FFFFFFF, 31, 32, 33, 2047, 2048, 0xFFFFF800, 0xFFFFF7FF,
                4095, 4096, 0x80000001, 0xFFFFFFFE, 7, 0xAAAAAAAA, 0x0000FFFF, 0x00010000, 3, 0xFFFFFFFD]
F32_BOUNDARY = [0x00000000, 0x80000000, 0x3F800000, 0xBF800000, 0x7F800000, 0xFF800000, 0x7FC00000,
                0x00000001, 0x7F7FFFFF, 0x40200000, 0xC0200000, 0x3F000000, 0x3FC00000, 0x402CCCCD,
                0x4F000000, 0xCF000000, 0x4EFFFFFF, 0x4B800001, 0x3DCCCCCD, 0x40400000, 0xC02CCCCD, 0x4F800000]
F64_BOUNDARY = [0x0000000000000000, 0x8000000000000000, 0x3FF0000000000000, 0xBFF0000000000000,
                0x7FF0000000000000, 0xFFF0000000000000, 0x7FF8000000000000, 0x0000000000000001,
                0x7FEFFFFFFFFFFFFF, 0x4004000000000000, 0xC004000000000000, 0x3FE0000000000000,
                0x3FF8000000000000, 0x400599999999999A, 0x41E0000000000000, 0xC1E0000000000000,
                0x41DFFFFFFFC00000, 0x4008000000000000, 0x3FB999999999999A, 0xC00599999999999A,
                0x41F0000000000000, 0x4340000000000001]
BOUNDARY = {"i32": INT_BOUNDARY, "index": INT_BOUNDARY, "f32": F32_BOUNDARY, "f64": F64_BOUNDARY, "i1": [0, 1]}


class RecipeError(ValueError):
    pass


def _g(d, k, default=0):
    if not isinstance(d, dict):
        raise RecipeError(f"expected a dict, got {d!r}")
    v = d.get(k, default)
    return default if v is None else v


def _int(v):
    if isinstance(v, bool) or not isinstance(v, int):
        raise RecipeError(f"expected an int, got {v!r}")
    return v


def _ty(t, allowed):
    if t not in allowed:
        raise RecipeError(f"type {t!r} not in {allowed}")
    return t


# ----------------------------------------------------------------------------------------------
# kinds: the unit of support probing / steering / blame
# ----------------------------------------------------------------------------------------------

def kind_of(stmt) -> str:
    op = _g(stmt, "op", "")
    if op == "const":
        t = _g(stmt, "t", "")
        v = _g(stmt, "v")
        neg0 = (t == "f32" and v == 0x80000000) or (t == "f64" and v == 1 << 63)
        return f"constant/{'negzero' if neg0 else '-'}/{t}"
    if op == "cmpi":
        return f"cmpi/{CMPI[_int(_g(stmt, 'p')) % 10]}/{_g(stmt, 't', '')}"
    if op == "cmpf":
        return f"cmpf/{CMPF[_int(_g(stmt, 'p')) % 16]}/{_g(stmt, 't', '')}"
    if op in INT_BIN or op in FLT_BIN or op in ("negf", "select"):
        return f"{op}/-/{_g(stmt, 't', '')}"
    if any(op == c[0] for c in CASTS):
        return f"{op}/-/{_g(stmt, 'from', '')}>{_g(stmt, 'to', '')}"
    if op in ("for", "if", "while"):
        return f"{op}/-/{_g(stmt, 't', '')}"
    if op == "call":
        return "call/-/i32"
    raise RecipeError(f"unknown op {op!r}")


def kind_sig(kind: str) -> dict:
    op, pred, ty = kind.split("/")
    name = {"for": "scf.for", "if": "scf.if", "while": "scf.while", "call": "func.call"}.get(op, "arith." + op)
    return {"op": name, "pred": pred, "ty": ty}


def all_kinds() -> list[tuple[str, dict]]:
    """(kind, one-statement probe template)."""
    out = []
    for t in INT_T + FLT_T:
        out.append({"op": "const", "t": t, "v": BOUNDARY[t][4]})
    out.append({"op": "const", "t": "f32", "v": 0x80000000})
    out.append({"op": "const", "t": "f64", "v": 1 << 63})
    for op in INT_BIN:
        for t in INT_T:
            out.append({"op": op, "t": t, "a": 1, "b": 0})
    for op in I1_BIN:
        out.append({"op": op, "t": "i1", "a": 1, "b": 0})
    for t in INT_T:
        for p in range(10):
            out.append({"op": "cmpi", "t": t, "p": p, "a": 1, "b": 0})
    for t in FLT_T:
        for p in range(16):
            out.append({"op": "cmpf", "t": t, "p": p, "a": 1, "b": 0})
    for t in INT_T + FLT_T:
        out.append({"op": "select", "t": t, "c": 0, "a": 1, "b": 0})
    for op, f, to in CASTS:
        out.append({"op": op, "from": f, "to": to, "a": 0})
    for op in FLT_BIN:
        for t in FLT_T:
            out.append({"op": op, "t": t, "a": 1, "b": 0})
    for t in FLT_T:
        out.append({"op": "negf", "t": t, "a": 0})
    for t in INT_T:
        out.append({"op": "for", "t": t, "lb": {"c": 0}, "ub": {"r": 0, "m": 7}, "step": 1,
                    "iters": [["i32", 1]], "body": [{"op": "addi", "t": "i32", "a": 0, "b": 1}], "y": [0]})
    for t in INT_T + FLT_T:
        out.append({"op": "if", "t": t, "c": 0, "a": 1, "b": 0})
    out.append({"op": "while", "t": "i32", "n": 1, "x": 0})
    out.append({"op": "call", "args": [["i32", 0]]})
    pairs = [(kind_of(s), s) for s in out]
    for t in INT_T:     # a loop whose loop-carried value is its own induction variable
        pairs.append((f"for/yields_iv/{t}", {"op": "for", "t": t, "lb": {"c": 0}, "ub": {"r": 0, "m": 7}, "step": 1,
                                            "iters": [[t, 1]], "body": [], "y": [1], "yields_iv": 1}))
    # a loop that yields a value defined outside of it (second result; the first one is a plain counter)
    pairs.append(("for/yields_outer/index", {"op": "for", "t": "index", "lb": {"c": 0}, "ub": {"r": 0, "m": 7},
                                             "step": 1, "iters": [["i32", 0], ["f64", 1]],
                                             "body": [{"op": "addi", "t": "i32", "a": 0, "b": 0}], "y": [0, 2],
                                             "yields_outer": 1}))
    return pairs


def _stmt_types(stmt):
    """(operand types, result types) of a simple (region-free) statement."""
    op = stmt["op"]
    if op == "const":
        return [], [stmt["t"]]
    if op in ("cmpi", "cmpf"):
        return [stmt["t"]] * 2, ["i1"]
    if op == "select":
        return ["i1", stmt["t"], stmt["t"]], [stmt["t"]]
    if op == "negf":
        return [stmt["t"]], [stmt["t"]]
    if op in INT_BIN or op in FLT_BIN:
        return [stmt["t"]] * 2, [stmt["t"]]
    if op == "call":
        return ["i32"], ["i32"]
    return [stmt["from"]], [stmt["to"]]


def probe_recipes(kind: str, stmt: dict) -> list[dict]:
    """The probe programs of a kind (constants: one program per boundary value of the class)."""
    if stmt["op"] == "const" and kind.split("/")[1] == "-":
        return [probe_recipe(kind, dict(stmt, v=v)) for v in BOUNDARY[stmt["t"]]
                if kind_of(dict(stmt, v=v)) == kind]
    return [probe_recipe(kind, stmt)]


def probe_recipe(kind: str, stmt: dict) -> dict:
    """One-op program + boundary inputs for a kind."""
    if stmt["op"] == "for" and stmt.get("yields_outer"):
        # v = x * y ; (r0, r1) = for i in 0..(n & 7) iter(c = k, a = x) { yield c + c, v } ; return r0, v
        prog = {"args": ["index", "i32", "f64", "f64"],
                "body": [{"op": "mulf", "t": "f64", "a": 1, "b": 0}, stmt], "ret": [["i32", 0], ["f64", 1]]}
    elif stmt["op"] == "for" and stmt.get("yields_iv"):
        t = stmt["t"]
        prog = {"args": [t, t], "body": [stmt], "ret": [[t, 0]]}     # ub = arg1 & 7, init = arg0
    elif stmt["op"] == "for":
        args = ["i32", "i32"] if stmt["t"] == "i32" else ["index", "i32"]
        # ub = arg0 & 7 ; iter = arg1 ; body: acc + iv-or-acc
        prog = {"args": args, "body": [stmt], "ret": [["i32", 0]]}
    elif stmt["op"] == "while":
        prog = {"args": ["i32", "i32"], "body": [stmt], "ret": [["i32", 0]]}
    elif stmt["op"] == "if":
        t = stmt["t"]
        prog = {"args": ["i32", "i32", t, t],
                "body": [{"op": "cmpi", "t": "i32", "p": 2, "a": 1, "b": 0}, stmt], "ret": [[t, 0]]}
    elif stmt["op"] == "const":
        return {"kind": "L1", "prog": {"args": ["i32"], "body": [stmt], "ret": [[stmt["t"], 0]]},
                "inputs": [[0], [0xFFFFFFFF]]}
    else:
        ins, outs = _stmt_types(stmt)
        args = [t for t in ins if t != "i1"]
        body = []
        if "i1" in ins:      # i1 operands come from comparisons of the first two integer arguments
            n1 = ins.count("i1")
            args = ["i32", "i32"] + args
            body = [{"op": "cmpi", "t": "i32", "p": 0, "a": 1, "b": 0},
                    {"op": "cmpi", "t": "i32", "p": 2, "a": 1, "b": 0}][:max(1, n1)]
            stmt = dict(stmt)
            if stmt["op"] == "select":
                stmt["c"] = 0
            elif stmt["op"] in I1_BIN:
                stmt["a"], stmt["b"] = 1, 0
        if not args:
            args = ["i32"]
        prog = {"args": args, "body": body + [stmt], "ret": [[outs[0], 0]]}
    pools = []
    for t in prog["args"]:
        pools.append(BOUNDARY[t])
    n = len(pools)
    inputs = []
    if n == 1:
        inputs = [[v] for v in pools[0]]
    else:
        # pairs of the last two arguments in full cross product (those are the operands), others cycle
        k = 0
        for x in pools[-2][:10]:
            for y in pools[-1][:10]:
                vec = [pools[i][(k + i) % len(pools[i])] for i in range(n - 2)] + [x, y]
                inputs.append(vec)
                k += 1
    return {"kind": "L1", "prog": prog, "inputs": inputs}


# ----------------------------------------------------------------------------------------------
# builder: recipe -> MLIR text
# ----------------------------------------------------------------------------------------------

def _fmt_int(v: int, t: str) -> str:
    if t == "i1":
        return "true" if v & 1 else "false"
    return str(s32(v))


def _fmt_const(v: int, t: str) -> str:
    if t == "f32":
        return f"0x{v & M32:08X}"
    if t == "f64":
        return f"0x{v & M64:016X}"
    return _fmt_int(v, t)


ALL_T = ("i32", "index", "f32", "f64", "i1")


class _Builder:
    def __init__(self):
        self.lines: list[str] = []
        self.n = 0
        self.kinds: list[str] = []
        self.has_cmp = False
        self.has_loop = False
        self.topbit = False
        self.uses_call = False
        self.top_types: list[list[str]] = []    # result types of every top-level statement
        self.top_kinds: list[str] = []          # kind of every top-level statement (as built)
        self.ysafe = False      # loops only yield values defined in their body (or the iter_arg itself)
        self.alias: set[str] = set()   # results of index_cast: erased by the lowering, i.e. aliases

    def new(self) -> str:
        self.n += 1
        return f"%v{self.n}"

    def emit(self, ind: int, s: str) -> None:
        self.lines.append("  " * ind + s)

    def const(self, scope, t, v, ind) -> str:
        name = self.new()
        if t in ("i32", "index") and (v & 0x80000000):
            self.topbit = True
        if t == "f32" and v & 0x80000000 or t == "f64" and v & (1 << 63):
            self.topbit = True
        if t == "i1":
            self.emit(ind, f"{name} = arith.constant {_fmt_const(v, t)}")
        else:
            self.emit(ind, f"{name} = arith.constant {_fmt_const(v, t)} : {t}")
        scope.append((name, t))
        return name

    def ref(self, scope, t, r, ind) -> str:
        r = _int(r)
        cands = [n for n, ty in scope if ty == t]
        if not cands:
            pool = [v for v in BOUNDARY[t] if kind_of({"op": "const", "t": t, "v": v}).split("/")[1] == "-"]
            return self.const(scope, t, pool[r % len(pool)], ind)
        return cands[-1 - (r % len(cands))]

    def bound(self, scope, t, b, x, ind) -> str:
        """x: the already resolved value for a symbolic bound (refs are resolved before any constant of
        the loop header is materialised, so that ref 0 is not the loop's own constant)."""
        if x is not None:
            m = self.const(scope, t, _int(_g(b, "m", 7)) % 16, ind)
            name = self.new()
            self.emit(ind, f"{name} = arith.andi {x}, {m} : {t}")
            scope.append((name, t))
            return name
        c = _int(_g(b, "c"))
        c = ((c + 4) % 13) - 4          # -4 .. 8
        return self.const(scope, t, c & M32, ind)

    def stmts(self, scope, body, ind, depth, top=False) -> None:
        if not isinstance(body, list):
            raise RecipeError("body must be a list")
        for s in body:
            before = len(scope)
            self.stmt(scope, s, ind, depth)
            if top:
                self.top_types.append([ty for _, ty in scope[before:]][-self._nres:] if self._nres else [])
                self.top_kinds.append(self.kinds[-1])

    def stmt(self, scope, s, ind, depth) -> None:
        kind = kind_of(s)
        op = s["op"]
        self._nres = 1
        if op == "const":
            t = _ty(_g(s, "t", ""), ALL_T)
            v = _int(_g(s, "v"))
            self.kinds.append(kind)
            self.const(scope, t, v & (M64 if t == "f64" else 1 if t == "i1" else M32), ind)
            return
        if op in INT_BIN:
            t = _ty(_g(s, "t", ""), INT_T + (("i1",) if op in I1_BIN else ()))
            a = self.ref(scope, t, _g(s, "a"), ind)
            b = self.ref(scope, t, _g(s, "b"), ind)
            if _g(s, "safe") and t != "i1" and (op in DIVS or op in SHIFTS):
                k = self.const(scope, t, 1 if op in DIVS else 31, ind)
                nb = self.new()
                self.emit(ind, f"{nb} = arith.{'ori' if op in DIVS else 'andi'} {b}, {k} : {t}")
                scope.append((nb, t))
                b = nb
            name = self.new()
            self.emit(ind, f"{name} = arith.{op} {a}, {b} : {t}")
            scope.append((name, t))
        elif op == "cmpi":
            t = _ty(_g(s, "t", ""), INT_T)
            a = self.ref(scope, t, _g(s, "a"), ind)
            b = self.ref(scope, t, _g(s, "b"), ind)
            name = self.new()
            self.emit(ind, f"{name} = arith.cmpi {CMPI[_int(_g(s, 'p')) % 10]}, {a}, {b} : {t}")
            scope.append((name, "i1"))
            self.has_cmp = True
        elif op == "cmpf":
            t = _ty(_g(s, "t", ""), FLT_T)
            a = self.ref(scope, t, _g(s, "a"), ind)
            b = self.ref(scope, t, _g(s, "b"), ind)
            name = self.new()
            self.emit(ind, f"{name} = arith.cmpf {CMPF[_int(_g(s, 'p')) % 16]}, {a}, {b} : {t}")
            scope.append((name, "i1"))
            self.has_cmp = True
        elif op == "select":
            t = _ty(_g(s, "t", ""), INT_T + FLT_T)
            c = self.ref(scope, "i1", _g(s, "c"), ind)
            a = self.ref(scope, t, _g(s, "a"), ind)
            b = self.ref(scope, t, _g(s, "b"), ind)
            name = self.new()
            self.emit(ind, f"{name} = arith.select {c}, {a}, {b} : {t}")
            scope.append((name, t))
        elif op in FLT_BIN:
            t = _ty(_g(s, "t", ""), FLT_T)
            a = self.ref(scope, t, _g(s, "a"), ind)
            b = self.ref(scope, t, _g(s, "b"), ind)
            name = self.new()
            self.emit(ind, f"{name} = arith.{op} {a}, {b} : {t}")
            scope.append((name, t))
        elif op == "negf":
            t = _ty(_g(s, "t", ""), FLT_T)
            a = self.ref(scope, t, _g(s, "a"), ind)
            name = self.new()
            self.emit(ind, f"{name} = arith.negf {a} : {t}")
            scope.append((name, t))
        elif op == "for":
            if depth >= 2:
                raise RecipeError("loops nested too deep")
            self._for(scope, s, ind, depth)      # records its own kind / result count
            return
        elif op == "if":
            t = _ty(_g(s, "t", ""), INT_T + FLT_T)
            c = self.ref(scope, "i1", _g(s, "c"), ind)
            a = self.ref(scope, t, _g(s, "a"), ind)
            b = self.ref(scope, t, _g(s, "b"), ind)
            name = self.new()
            self.emit(ind, f"{name} = scf.if {c} -> ({t}) {{")
            self.emit(ind + 1, f"scf.yield {a} : {t}")
            self.emit(ind, "} else {")
            self.emit(ind + 1, f"scf.yield {b} : {t}")
            self.emit(ind, "}")
            scope.append((name, t))
            self.has_cmp = True
        elif op == "while":
            _ty(_g(s, "t", ""), ("i32",))
            n = self.ref(scope, "i32", _g(s, "n"), ind)
            x = self.ref(scope, "i32", _g(s, "x"), ind)
            m = self.const(scope, "i32", 7, ind)
            n0, r0, r1 = self.new(), self.new(), self.new()
            k, acc, k2, acc2, z, c, one, k3, acc3 = (self.new() for _ in range(9))
            self.emit(ind, f"{n0} = arith.andi {n}, {m} : i32")
            self.emit(ind, f"{r0}, {r1} = scf.while ({k} = {n0}, {acc} = {x}) : (i32, i32) -> (i32, i32) {{")
            self.emit(ind + 1, f"{z} = arith.constant 0 : i32")
            self.emit(ind + 1, f"{c} = arith.cmpi ne, {k}, {z} : i32")
            self.emit(ind + 1, f"scf.condition({c}) {k}, {acc} : i32, i32")
            self.emit(ind, "} do {")
            self.emit(ind, f"^bb0({k2}: i32, {acc2}: i32):")
            self.emit(ind + 1, f"{one} = arith.constant 1 : i32")
            self.emit(ind + 1, f"{k3} = arith.subi {k2}, {one} : i32")
            self.emit(ind + 1, f"{acc3} = arith.addi {acc2}, {k2} : i32")
            self.emit(ind + 1, f"scf.yield {k3}, {acc3} : i32, i32")
            self.emit(ind, "}")
            scope.append((n0, "i32"))
            scope.append((r1, "i32"))
            self.has_loop = True
        elif op == "call":
            args = _g(s, "args", [])
            if not isinstance(args, list) or len(args) != 1:
                raise RecipeError("call takes one argument")
            a = self.ref(scope, "i32", _int(args[0][1]) if isinstance(args[0], list) and len(args[0]) == 2
                         else 0, ind)
            name = self.new()
            self.emit(ind, f"{name} = func.call @g({a}) : (i32) -> i32")
            scope.append((name, "i32"))
            self.uses_call = True
        else:   # casts
            f, to = _g(s, "from", ""), _g(s, "to", "")
            if (op, f, to) not in CASTS:
                raise RecipeError(f"unknown cast {op} {f} -> {to}")
            a = self.ref(scope, f, _g(s, "a"), ind)
            name = self.new()
            self.emit(ind, f"{name} = arith.{op} {a} : {f} to {to}")
            scope.append((name, to))
            if op == "index_cast":
                self.alias.add(name)
        self.kinds.append(kind)
        self._nres = 1

    def _for(self, scope, s, ind, depth) -> None:
        t = _ty(_g(s, "t", ""), INT_T)
        lbr, ubr = _g(s, "lb", {"c": 0}), _g(s, "ub", {"c": 3})
        if not isinstance(lbr, dict) or not isinstance(ubr, dict):
            raise RecipeError("loop bounds must be dicts")
        lx = self.ref(scope, t, _g(lbr, "r"), ind) if "r" in lbr else None
        ux = self.ref(scope, t, _g(ubr, "r"), ind) if "r" in ubr else None
        lb = self.bound(scope, t, lbr, lx, ind)
        ub = self.bound(scope, t, ubr, ux, ind)
        step = self.const(scope, t, (_int(_g(s, "step", 1)) - 1) % 4 + 1, ind)
        iters = _g(s, "iters", [])
        if not isinstance(iters, list) or not 1 <= len(iters) <= 3:
            raise RecipeError("for needs 1..3 iter_args")
        inits, tys = [], []
        for it in iters:
            if not isinstance(it, list) or len(it) != 2:
                raise RecipeError("iter = [T, ref]")
            ty = _ty(it[0], INT_T + FLT_T)
            inits.append(self.ref(scope, ty, it[1], ind))
            tys.append(ty)
        iv = self.new()
        bargs = [self.new() for _ in tys]
        res = [self.new() for _ in tys]
        ia = ", ".join(f"{b} = {i}" for b, i in zip(bargs, inits))
        suffix = "" if t == "index" else f" : {t}"
        self.emit(ind, f"{', '.join(res)} = scf.for {iv} = {lb} to {ub} step {step} iter_args({ia}) -> "
                       f"({', '.join(tys)}){suffix} {{")
        inner = list(scope) + [(iv, t)] + list(zip(bargs, tys))
        self.stmts(inner, _g(s, "body", []), ind + 1, depth + 1)
        ys = _g(s, "y", [])
        if not isinstance(ys, list):
            raise RecipeError("y must be a list")
        nouter = len(scope) + 1 + len(bargs)        # entries of `inner` that are not defined by the body
        yv = []
        for i, ty in enumerate(tys):
            r = ys[i] if i < len(ys) else 0
            if self.ysafe:
                ysc = [(bargs[i], ty)] + [e for e in inner[nouter:] if e[0] not in self.alias]
                yv.append(self.ref(ysc, ty, r, ind + 1))
            else:
                yv.append(self.ref(inner, ty, r, ind + 1))
        local = {n for n, _ in inner[nouter:]}
        shape = "-"
        for i, v in enumerate(yv):
            if self.ysafe:
                break
            if v == iv:
                shape = "yields_iv"
                break
            if v not in local and v != bargs[i]:
                shape = "yields_outer"
        self.emit(ind + 1, f"scf.yield {', '.join(yv)} : {', '.join(tys)}")
        self.emit(ind, "}")
        for r, ty in zip(res, tys):
            scope.append((r, ty))
        self.has_loop = True
        self.kinds.append(f"for/{shape}/{t}")
        self._nres = len(tys)


class Built:
    __slots__ = ("text", "args", "rets", "kinds", "has_cmp", "has_loop", "topbit", "top_types", "top_kinds")


def build_prog(prog) -> Built:
    args = _g(prog, "args", [])
    if not isinstance(args, list) or len(args) > 8:
        raise RecipeError("args")
    for t in args:
        _ty(t, INT_T + FLT_T)
    b = _Builder()
    b._nres = 1
    b.ysafe = bool(_g(prog, "ysafe", 0))
    scope = [(f"%a{i}", t) for i, t in enumerate(args)]
    hdr = ", ".join(f"%a{i}: {t}" for i, t in enumerate(args))
    b.stmts(scope, _g(prog, "body", []), 2, 0, top=True)
    rets = _g(prog, "ret", [])
    if not isinstance(rets, list) or not 1 <= len(rets) <= 2:
        raise RecipeError("ret needs 1..2 entries")
    rv, rt = [], []
    for r in rets:
        if not isinstance(r, list) or len(r) != 2:
            raise RecipeError("ret = [T, ref]")
        t = _ty(r[0], ALL_T)
        rv.append(b.ref(scope, t, r[1], 2))
        rt.append(t)
    out = Built()
    lines = ["builtin.module {"]
    if b.uses_call:
        lines += ["  func.func @g(%x: i32) -> i32 {", "    %c = arith.constant 7 : i32",
                  "    %r = arith.addi %x, %c : i32", "    func.return %r : i32", "  }"]
    lines.append(f"  func.func @f({hdr}) -> ({', '.join(rt)}) {{")
    lines += b.lines
    lines.append(f"    func.return {', '.join(rv)} : {', '.join(rt)}")
    lines += ["  }", "}"]
    out.text = "\n".join(lines)
    out.args, out.rets, out.kinds = list(args), rt, b.kinds
    out.has_cmp, out.has_loop, out.topbit, out.top_types = b.has_cmp, b.has_loop, b.topbit, b.top_types
    out.top_kinds = b.top_kinds
    return out


# ----------------------------------------------------------------------------------------------
# xdsl plumbing
# ----------------------------------------------------------------------------------------------

_state: dict = {}


def _ctx():
    if "ctx" not in _state:
        from xdsl.context import Context
        from xdsl.dialects import get_all_dialects
        from xdsl.transforms import get_all_passes
        c = Context()
        for name, factory in get_all_dialects().items():
            c.register_dialect(name, factory)
        _state["ctx"] = c
        _state["passes"] = get_all_passes()
    return _state["ctx"]


def parse(text: str):
    from xdsl.parser import Parser
    m = Parser(_ctx(), text).parse_module()
    m.verify()
    return m


def run_pass(name: str, module) -> None:
    ctx = _ctx()
    cls = _state["passes"][name]()
    with quiet():
        cls().apply(ctx, module)


class Rejected(Exception):
    def __init__(self, stage: str, exc: BaseException):
        self.stage = stage
        self.exc = exc
        self.label = f"{stage}:{type(exc).__name__}"
        super().__init__(f"{stage}: {type(exc).__name__}: {str(exc)[:300]}")


def apply_passes(module, names) -> None:
    """Run the passes the way xdsl-opt does: verify after every pass."""
    for n in names:
        try:
            run_pass(n, module)
        except RecursionError:
            raise
        except Exception as e:      # every exception of a pass = program not supported (ASSUMPTIONS)
            raise Rejected(n, e) from None
        try:
            with quiet():
                module.verify()
        except Exception as e:
            raise Rejected(n + ":verify_after", e) from None


def lower_l1(module) -> None:
    """L1 lowering; raises Rejected."""
    apply_passes(module, L1_PASSES)
    for op in module.walk():
        d = op.name.split(".")[0]
        if d in ("arith", "func", "scf") or op.name == "builtin.unrealized_conversion_cast":
            raise Rejected("L1", NotImplementedError(f"{op.name} left after lowering"))


# ----------------------------------------------------------------------------------------------
# reference + comparison
# ----------------------------------------------------------------------------------------------

def ref_args(bt: Built, vec) -> list:
    if not isinstance(vec, list) or len(vec) < len(bt.args):
        raise RecipeError("input vector shorter than the argument list")
    out = []
    for t, v in zip(bt.args, vec):
        v = _int(v)
        if t == "f32":
            out.append(rvsim.bits_to_float(v & M32, "s"))
        elif t == "f64":
            out.append(rvsim.bits_to_float(v & M64, "d"))
        else:
            out.append(v & M32)
    return out


def reg_args(bt: Built, vec) -> list[int]:
    out = []
    for t, v in zip(bt.args, vec):
        if t == "f32":
            out.append(rvsim.box_s(v & M32))
        elif t == "f64":
            out.append(v & M64)
        else:
            out.append(v & M32)
    return out


def reference(module, bt: Built, vec):
    """-> tuple of refsem values, or None when the run is undefined / out of fuel (excluded)."""
    r = refsem.run_function(module, "f", ref_args(bt, vec), index_bits=32, fuel=20000)
    if not r.ok or not r.defined:
        return None, r
    return r.values, r


def value_ok(t: str, got: int, want) -> bool:
    """got: register pattern; want: refsem value."""
    if t == "i1":
        return (got & 1) == (int(want) & 1)
    if t in INT_T:
        return (got & M32) == (int(want) & M32)
    if t == "f32":
        p = rvsim.unbox_s(got)
        if want != want:
            return rvsim._is_nan(p, "s")
        return p == rvsim.float_to_bits(want, "s")
    if t == "f64":
        if want != want:
            return rvsim._is_nan(got, "d")
        return (got & M64) == rvsim.float_to_bits(want, "d")
    raise RecipeError(t)


def show(t: str, got) -> str:
    if got is None:
        return "<no value>"
    if t == "f32":
        return f"{got:#018x} ({rvsim.bits_to_float(rvsim.unbox_s(got), 's')!r})"
    if t == "f64":
        return f"{got:#018x} ({rvsim.bits_to_float(got, 'd')!r})"
    return f"{got:#x}"


def nontrivial(bt: Built, inputs, refs) -> bool:
    if bt.has_cmp or bt.has_loop or bt.topbit:
        return True
    for t_vec in inputs:
        for t, v in zip(bt.args, t_vec):
            top = (1 << 63) if t == "f64" else 0x80000000
            if v & top:
                return True
    for vals in refs:
        if vals is None:
            continue
        for v in vals:
            if isinstance(v, int) and v & 0x80000000:
                return True
            if isinstance(v, float) and (v != v or str(v).startswith("-")):
                return True
    return False


# ----------------------------------------------------------------------------------------------
# L1
# ----------------------------------------------------------------------------------------------

def l1_results(low, bt: Built, vec):
    m = rvsim.SSAMachine(low, fuel=400000)
    return m.call("f", reg_args(bt, vec))


def l1_compare(prog, inputs):
    """Pure oracle. -> dict(status=..., bt, refs, mism=[(input index, result index, got, want)])"""
    bt = build_prog(prog)
    module = parse(bt.text)
    refs, excluded = [], 0
    for vec in inputs:
        vals, _ = reference(module, bt, vec)
        refs.append(vals)
        if vals is None:
            excluded += 1
    out = {"bt": bt, "refs": refs, "excluded": excluded, "mism": [], "status": "ok", "low": None}
    low = module.clone()
    try:
        lower_l1(low)
    except Rejected as r:
        out["status"] = "rejected"
        out["label"] = r.label
        out["why"] = str(r)
        return out
    out["low"] = low
    for i, (vec, vals) in enumerate(zip(inputs, refs)):
        if vals is None:
            continue
        try:
            got = l1_results(low, bt, vec)
        except (rvsim.MachineFault, rvsim.InvalidAssembly) as e:
            out["mism"].append((i, 0, None, f"{vals!r} (lowered program: {type(e).__name__}: {e})"))
            continue
        if len(got) != len(bt.rets):
            raise AssertionError("lowered function returns a different number of values")
        for j, (t, g, w) in enumerate(zip(bt.rets, got, vals)):
            if not value_ok(t, g, w):
                out["mism"].append((i, j, g, w))
    return out


def _render(low) -> str:
    from io import StringIO

    from xdsl.printer import Printer
    s = StringIO()
    Printer(stream=s).print_op(low)
    return s.getvalue()


def localise_l1(prog, vec):
    """Blame the first top-level statement whose own value disagrees on `vec`."""
    body = prog.get("body", [])
    bt_full = build_prog(prog)
    for k in range(len(body)):
        tys = bt_full.top_types[k] if k < len(bt_full.top_types) else []
        for j, t in enumerate(reversed(tys)):
            sub = {"args": prog["args"], "body": body[:k + 1], "ret": [[t, j]], "ysafe": _g(prog, "ysafe", 0)}
            try:
                r = l1_compare(sub, [vec])
            except RecipeError:
                continue
            if r["status"] == "ok" and r["mism"]:
                return bt_full.top_kinds[k], sub, r
    return None, None, None


def _want_kind(recipe, kind):
    if _g(recipe, "kind", "") != kind:
        raise RecipeError(f"recipe kind is not {kind}")


def check_l1(h, recipe, label="L1") -> str:
    _want_kind(recipe, "L1")
    prog = _g(recipe, "prog", None)
    inputs = _g(recipe, "inputs", [])
    if not isinstance(inputs, list) or not inputs:
        raise RecipeError("no inputs")
    r = l1_compare(prog, inputs)
    bt = r["bt"]
    if r["excluded"]:
        h.exclude("undefined_source_run", r["excluded"])
    if r["status"] == "rejected":
        h.discard("L1_" + r["label"])
        return "rejected:" + r["label"]
    if r["mism"]:
        seen = set()
        for (i, j, g, w) in r["mism"]:
            kind, sub, rr = localise_l1(prog, inputs[i])
            if kind is None:
                kind = bt.kinds[-1] if len(set(bt.kinds)) == 1 else "unlocalised/-/-"
                sub, rr = prog, r
            if kind in seen:
                continue
            seen.add(kind)
            sig = {"check": "L1_lowering", **kind_sig(kind)}
            sb = build_prog(sub)
            detail = (f"input {inputs[i]} (args {bt.args}): result {j} of the lowered program = "
                      f"{show(bt.rets[j], g)}, source = {w!r}\nblamed statement program:\n{sb.text}\n"
                      f"lowered:\n{_render(rr['low'])[:1500]}")
            h.mismatch(sig, recipe, detail)
    h.case(recipe, nontrivial(bt, inputs, r["refs"]), label=label, sample=bt.text)
    return "bad" if r["mism"] else "ok"


# ----------------------------------------------------------------------------------------------
# L2
# ----------------------------------------------------------------------------------------------

def _rng(seed: int):
    """Small deterministic generator (no `random`): 32-bit xorshift-multiply stream."""
    state = [(seed * 0x9E3779B1 + 0x7F4A7C15) & M64 or 1]

    def nxt() -> int:
        x = state[0]
        x ^= (x << 13) & M64
        x ^= x >> 7
        x ^= (x << 17) & M64
        state[0] = x
        return (x * 0x2545F4914F6CDD1D) & M64
    return nxt


def machine_state(seed: int):
    rnd = _rng(seed)
    x = {n: rnd() & M32 for n in rvsim.X_ABI if n not in ("zero", "sp", "ra")}
    f = {n: rnd() for n in rvsim.F_ABI}
    sp = 0x7F000000 + 16 * (rnd() % 4096)
    x["sp"] = sp
    mem = rvsim.Memory(rnd() & M32, sp - 65536, sp + 4096)
    return x, f, sp, mem


def place_args(bt: Built, vec, x, f) -> None:
    ni = nf = 0
    for t, v in zip(bt.args, vec):
        if t == "f32":
            f[f"fa{nf}"] = rvsim.box_s(v & M32)
            nf += 1
        elif t == "f64":
            f[f"fa{nf}"] = v & M64
            nf += 1
        else:
            x[f"a{ni}"] = v & M32
            ni += 1


def result_regs(bt: Built) -> list[str]:
    ni = nf = 0
    out = []
    for t in bt.rets:
        if t in FLT_T:
            out.append(f"fa{nf}")
            nf += 1
        else:
            out.append(f"a{ni}")
            ni += 1
    return out


def apply_prealloc(module, prealloc) -> int:
    """Retype results of region-free riscv ops of @f to callee-saved registers (each register once)."""
    from xdsl.dialects import riscv
    from xdsl.rewriter import Rewriter
    if not isinstance(prealloc, list):
        raise RecipeError("prealloc")
    if not prealloc:
        return 0
    cands = {"x": [], "f": []}
    for fn in module.walk():
        if fn.name != "riscv_func.func" or fn.attributes["sym_name"].data != "f":
            continue
        for op in fn.walk():
            if op.regions or op.name in ("riscv_func.func", "riscv.parallel_mov", "rv32.get_register",
                                         "riscv.get_float_register"):
                continue
            for res in op.results:
                k = rvsim._reg_kind(res.type)
                if any(u.operation.name in ("riscv_scf.yield", "riscv_scf.for") for u in res.uses):
                    continue      # loop-carried values must share one register with block args/results
                if k and not res.type.is_allocated:
                    cands[k].append(res)
    used, n = set(), 0
    for e in prealloc:
        if not isinstance(e, list) or len(e) != 2 or not isinstance(e[1], str):
            raise RecipeError("prealloc entry")
        idx, reg = _int(e[0]), e[1]
        if reg in used:
            continue
        if reg in rvsim.CALLEE_SAVED_X:
            pool, ty = cands["x"], riscv.IntRegisterType.from_name(reg)
        elif reg in rvsim.CALLEE_SAVED_F:
            pool, ty = cands["f"], riscv.FloatRegisterType.from_name(reg)
        else:
            raise RecipeError(f"{reg} is not a callee-saved register")
        if not pool:
            continue
        v = pool.pop(idx % len(pool))
        Rewriter.replace_value_with_new_type(v, ty)
        used.add(reg)
        n += 1
    return n


def loop_shape(module) -> str:
    """Shape of the loop-carried values the register allocator is handed (it puts iter_arg, init, yield
    operand and result of a riscv_scf.for into ONE register): the loop yields its own induction variable /
    a value that is not defined in its body (and is not the iter_arg itself) / a value that is defined in
    the body while the iter_arg it replaces is still used afterwards (the two are live together)."""
    shape = "-"
    for op in module.walk():
        if op.name != "riscv_scf.for":
            continue
        block = op.regions[0].blocks[0]
        y = block.last_op
        if y is None or y.name != "riscv_scf.yield":
            continue
        pos = {o: i for i, o in enumerate(block.ops)}
        for barg, v in zip(block.args[1:], y.operands):
            if v is block.args[0]:
                return "for_yields_iv"
            owner = v.owner
            if v is barg:
                continue
            if not (getattr(owner, "name", "") and getattr(owner, "parent", None) is block):
                shape = "for_yields_outer"
                continue
            for use in barg.uses:
                u = use.operation
                while u is not None and u.parent is not block:
                    u = u.parent_op()
                if u is not None and u is not y and pos[u] > pos[owner] and shape == "-":
                    shape = "for_yield_overlaps_iter_arg"
    return shape


def l2_compile(prog, pipe: int, prealloc, stop_after_regalloc: bool = False):
    """-> dict(status, bt, module(src), asm, ...). Raises RecipeError on malformed recipes."""
    bt = build_prog(prog)
    module = parse(bt.text)
    out = {"bt": bt, "src": module, "status": "ok", "npre": 0}
    low = module.clone()
    try:
        lower_l1(low)
        passes = L2_PIPES[_int(pipe) % len(L2_PIPES)]
        k = passes.index("riscv-allocate-registers")
        apply_passes(low, passes[:k])
        out["npre"] = apply_prealloc(low, prealloc)
        out["shape"] = loop_shape(low)
        if stop_after_regalloc:
            apply_passes(low, passes[k:k + 1])
            out["allocated"] = low
            return out
        apply_passes(low, passes[k:])
        try:
            from xdsl.dialects.riscv import riscv_code
            with quiet():
                out["asm"] = riscv_code(low)
        except Exception as e:
            raise Rejected("riscv-asm", e) from None
    except Rejected as r:
        out["status"] = "rejected"
        out["label"] = r.label
        out["why"] = str(r)
    return out


def l2_stage(prog, pipe, prealloc, vec) -> tuple[str, str]:
    """On a wrong run: which stage is the first to go wrong?  lowering (SSA program after the L1 passes),
    canonicalize (SSA program after the first canonicalize), regalloc (the allocated riscv_scf program
    executed on a register file -- SSAMachine(regmode) -- is wrong although its SSA execution is right),
    otherwise backend (parallel-mov / scf-to-cf lowering, second canonicalize, prologue/epilogue, printer).
    -> (stage, blamed kind or '-/-/-')"""
    r = l1_compare(prog, [vec])
    if r["status"] == "ok" and r["mism"]:
        kind, _, _ = localise_l1(prog, vec)
        return "lowering", kind or "unlocalised/-/-"
    if r["status"] != "ok" or r["refs"][0] is None:
        return "unknown", "-/-/-"
    bt, want = r["bt"], r["refs"][0]

    def wrong(module, regmode):
        try:
            m = rvsim.SSAMachine(module, fuel=400000, regmode=regmode)
            got = m.call("f", reg_args(bt, vec))
        except (rvsim.MachineFault, rvsim.InvalidAssembly):
            return True
        return any(not value_ok(t, g, w) for t, g, w in zip(bt.rets, got, want))
    try:
        low = r["low"]
        apply_passes(low, ["canonicalize"])
        if wrong(low, False):
            return "canonicalize", "-/-/-"
        c = l2_compile(prog, pipe, prealloc, stop_after_regalloc=True)
        if c["status"] != "ok":
            return "unknown", "-/-/-"
        # the allocated program is only executed on the register file (the allocator may leave dangling
        # SSA values behind, e.g. for an identity yield, which makes a value-level run meaningless)
        if wrong(c["allocated"], True):
            return "regalloc", "-/-/-"
    except (Rejected, rvsim.UnknownInstruction):
        return "unknown", "-/-/-"
    return "backend", "-/-/-"


def check_l2(h, recipe, label="L2") -> str:
    _want_kind(recipe, "L2")
    prog = _g(recipe, "prog", None)
    inputs = _g(recipe, "inputs", [])
    if not isinstance(inputs, list) or not inputs:
        raise RecipeError("no inputs")
    seed = _int(_g(recipe, "seed"))
    pipe = _int(_g(recipe, "pipe"))
    c = l2_compile(prog, pipe, _g(recipe, "prealloc", []))
    bt = c["bt"]
    if c["status"] == "rejected":
        h.discard("L2_" + c["label"])
        return "rejected:" + c["label"]
    asm = c["asm"]
    mach = rvsim.AsmMachine(asm)
    refs = []
    bad = False
    for i, vec in enumerate(inputs):
        vals, rr = reference(c["src"], bt, vec)
        refs.append(vals)
        if vals is None:
            h.exclude("undefined_source_run")
            continue
        x, f, sp, mem = machine_state(seed * 31 + i)
        place_args(bt, vec, x, f)
        x0, f0 = dict(x), dict(f)

        def report(check, extra, text):
            nonlocal bad
            bad = True
            sig = {"check": check, "op": "-", "pred": "-", **extra}
            h.mismatch(sig, recipe, f"input {vec} (args {bt.args}), machine seed {seed * 31 + i}: {text}\n"
                                    f"source:\n{bt.text}\nassembly:\n{asm}")

        def staged(what, text):
            stage, kind = l2_stage(prog, pipe, _g(recipe, "prealloc", []), vec)
            ks = kind_sig(kind) if stage == "lowering" else {"op": "-", "pred": "-"}
            report("L2_asm", {"what": what, "stage": stage, "op": ks["op"], "pred": ks["pred"],
                              "shape": c.get("shape", "-") if stage in ("regalloc", "backend") else "-"},
                   text + f" (first wrong stage: {stage})")
        try:
            mach.run("f", x, f, mem, fuel=5000 + 60 * rr.steps)
        except rvsim.InvalidAssembly as e:
            report("L2_asm", {"what": "invalid_assembly"}, str(e))
            continue
        except rvsim.MachineFault as e:
            staged("fault", str(e))
            continue
        regs = result_regs(bt)
        for j, (t, rn, w) in enumerate(zip(bt.rets, regs, vals)):
            g = mach.f[rvsim.FREG[rn]] if t in FLT_T else mach.x[rvsim.XREG[rn]]
            if not value_ok(t, g, w):
                staged("result", f"{rn} after ret = {show(t, g)}, source result {j} = {w!r}")
                break
        if mach.x[rvsim.XREG["sp"]] != sp:
            report("sp", {}, f"sp after ret = {mach.x[rvsim.XREG['sp']]:#x}, before the call {sp:#x}")
        for rn in rvsim.CALLEE_SAVED_X:
            if mach.x[rvsim.XREG[rn]] != x0[rn]:
                report("callee_saved", {"reg_class": "int"},
                       f"{rn} after ret = {mach.x[rvsim.XREG[rn]]:#x}, before the call {x0[rn]:#x}")
                break
        for rn in rvsim.CALLEE_SAVED_F:
            if mach.f[rvsim.FREG[rn]] != f0[rn]:
                report("callee_saved", {"reg_class": "float"},
                       f"{rn} after ret = {mach.f[rvsim.FREG[rn]]:#x}, before the call {f0[rn]:#x}")
                break
        ch = mem.changed(sp)
        if ch:
            report("stack_above_sp", {}, f"stack bytes at/above the caller's sp changed: "
                                         f"{[hex(a) for a in ch[:8]]} (sp = {sp:#x})")
    nt = nontrivial(bt, inputs, refs)
    if c["npre"]:
        h.count("L2_with_callee_saved_prealloc")
    if "addi sp, sp" in asm:
        h.count("L2_with_stack_frame")
    h.case(recipe, nt, label=label, sample=bt.text)
    return "bad" if bad else "ok"


# ----------------------------------------------------------------------------------------------
# L3: canonicalize alone on riscv snippets
# ----------------------------------------------------------------------------------------------

L3_RR = ["add", "sub", "mul", "div", "divu", "rem", "remu", "and", "or", "xor", "sll", "srl", "sra", "slt",
         "sltu", "mulh", "mulhu", "mulhsu"]
L3_RI = ["addi", "andi", "ori", "xori", "slti", "sltiu"]
L3_SH = ["slli", "srli", "srai"]
L3_LI = [-2048, 2047, 2147483647, -2147483648, 0, -1, 4095, 1, 2, 2048, -2049, 4096, 31, 32, 33, -4096,
         4294967295, 2147483648, 65535, 3, -3, 1024, -1024]
L3_IMM = [-2048, 2047, 0, -1, 1, 2, 1024, -1024, 2046, -2047, 4, -4]


def build_l3(recipe, ret_override=None):
    nargs = _int(_g(recipe, "nargs", 2)) % 5
    ops = _g(recipe, "ops", [])
    if not isinstance(ops, list):
        raise RecipeError("ops")
    lines, vals, addrs, names = [], [f"%a{i}" for i in range(nargs)], [], []
    n = [0]

    def new():
        n[0] += 1
        return f"%v{n[0]}"

    def ref(r):
        if not vals:
            nm = new()
            lines.append(f"    {nm} = rv32.li 1 : !riscv.reg")
            vals.append(nm)
            names.append("rv32.li")
        return vals[-1 - (_int(r) % len(vals))]

    def aref(r):
        if not addrs:
            nm = new()
            lines.append(f"    {nm} = rv32.get_register : !riscv.reg<sp>")
            addrs.append((nm, "!riscv.reg<sp>"))
        return addrs[-1 - (_int(r) % len(addrs))]

    def si12(v):
        return ((_int(v) + 2048) % 4096) - 2048

    opnames = []      # (value name or None, riscv op name) per recipe op
    for s in ops:
        op = _g(s, "op", "")
        nm = new()
        if op == "li":
            v = _int(_g(s, "v"))
            if not -(1 << 31) <= v < (1 << 32):
                v = s32(v)
            lines.append(f"    {nm} = rv32.li {v} : !riscv.reg")
            vals.append(nm)
            opnames.append((nm, "rv32.li"))
        elif op == "zero":
            lines.append(f"    {nm} = rv32.get_register : !riscv.reg<zero>")
            vals.append(nm)
            opnames.append((nm, "rv32.get_register"))
        elif op == "mv":
            a = ref(_g(s, "a"))
            lines.append(f"    {nm} = riscv.mv {a} : ({_l3t(a)}) -> !riscv.reg")
            vals.append(nm)
            opnames.append((nm, "riscv.mv"))
        elif op in L3_RR:
            a, b = ref(_g(s, "a")), ref(_g(s, "b"))
            lines.append(f"    {nm} = riscv.{op} {a}, {b} : ({_l3t(a)}, {_l3t(b)}) -> !riscv.reg")
            vals.append(nm)
            opnames.append((nm, "riscv." + op))
        elif op in L3_RI:
            a = ref(_g(s, "a"))
            lines.append(f"    {nm} = riscv.{op} {a}, {si12(_g(s, 'i'))} : ({_l3t(a)}) -> !riscv.reg")
            vals.append(nm)
            opnames.append((nm, "riscv." + op))
        elif op in L3_SH:
            a = ref(_g(s, "a"))
            lines.append(f"    {nm} = rv32.{op} {a}, {_int(_g(s, 'i')) % 32} : ({_l3t(a)}) -> !riscv.reg")
            vals.append(nm)
            opnames.append((nm, "rv32." + op))
        elif op == "sp":
            lines.append(f"    {nm} = rv32.get_register : !riscv.reg<sp>")
            addrs.append((nm, "!riscv.reg<sp>"))
            opnames.append((None, "rv32.get_register"))
        elif op == "addr":
            b, bt_ = aref(_g(s, "b"))
            lines.append(f"    {nm} = riscv.addi {b}, {si12(_g(s, 'i')) // 4 * 4} : ({bt_}) -> !riscv.reg")
            addrs.append((nm, "!riscv.reg"))
            opnames.append((None, "riscv.addi"))
        elif op == "sw":
            b, bt_ = aref(_g(s, "b"))
            v = ref(_g(s, "v"))
            lines.append(f"    riscv.sw {b}, {v}, {si12(_g(s, 'i')) // 4 * 4} : ({bt_}, {_l3t(v)}) -> ()")
            opnames.append((None, "riscv.sw"))
        elif op == "lw":
            b, bt_ = aref(_g(s, "b"))
            lines.append(f"    {nm} = riscv.lw {b}, {si12(_g(s, 'i')) // 4 * 4} : ({bt_}) -> !riscv.reg")
            vals.append(nm)
            opnames.append((nm, "riscv.lw"))
        else:
            raise RecipeError(f"unknown L3 op {op!r}")
    if ret_override is not None:
        rets = [ret_override]
    else:
        rr = _g(recipe, "ret", [])
        if not isinstance(rr, list):
            raise RecipeError("ret")
        rets = []
        for r in rr[:6]:
            v = ref(r)
            if v not in rets:
                rets.append(v)
        if not rets:
            rets = [ref(0)]
    hdr = ", ".join(f"%a{i}: !riscv.reg<a{i}>" for i in range(nargs))
    rts = ", ".join(_l3t(v) for v in rets)
    text = ("builtin.module {\n  riscv_func.func @f(" + hdr + ") {\n" + "\n".join(lines) +
            f"\n    riscv_func.return {', '.join(rets)} : {rts}\n  }}\n}}")
    return text, nargs, opnames, rets


def _l3t(name: str) -> str:
    """Type of an L3 value by naming convention (%aN = argument register aN); values defined by
    get_register are patched afterwards by _retype_l3."""
    if name.startswith("%a"):
        return f"!riscv.reg<{name[1:]}>"
    return "!riscv.reg"


def l3_run(module, nargs, vec, seed):
    m = rvsim.SSAMachine(module, sp=0x7F000000 + 16 * (seed % 1024), mem_seed=seed, fuel=20000)
    vals = m.call("f", [_int(v) & M32 for v in vec[:nargs]])
    mem = {a: b for a, b in m.mem.written.items() if b != m.mem.initial(a)}
    return vals, mem


def l3_compare(recipe, ret_override=None):
    text, nargs, opnames, rets = build_l3(recipe, ret_override)
    # zero / sp typed values: fix the operand types in the text (values named by get_register)
    before = parse(_retype_l3(text))
    after = before.clone()
    try:
        apply_passes(after, ["canonicalize"])
        with quiet():
            after.verify()
    except Rejected as r:
        return {"status": "rejected", "label": r.label, "text": text, "opnames": opnames, "rets": rets}
    except Exception as e:
        return {"status": "rejected", "label": f"verify:{type(e).__name__}", "text": text,
                "opnames": opnames, "rets": rets}
    inputs = _g(recipe, "inputs", [])
    if not isinstance(inputs, list) or not inputs:
        raise RecipeError("no inputs")
    mism, faults = [], 0
    for i, vec in enumerate(inputs):
        if not isinstance(vec, list) or len(vec) < nargs:
            raise RecipeError("input vector too short")
        try:
            b = l3_run(before, nargs, vec, i + 1)
        except rvsim.MachineFault:
            faults += 1
            continue
        try:
            a = l3_run(after, nargs, vec, i + 1)
        except rvsim.MachineFault as e:
            mism.append((i, "fault after canonicalize: " + str(e), b, None))
            continue
        if a != b:
            mism.append((i, "values/memory differ", b, a))
    fired = [o.name for o in before.walk()] != [o.name for o in after.walk()]
    return {"status": "ok", "mism": mism, "faults": faults, "text": _retype_l3(text), "opnames": opnames,
            "rets": rets, "after": after, "nargs": nargs, "fired": fired}


def _retype_l3(text: str) -> str:
    """Give uses of `zero` / `sp` typed values their register type in operand type lists."""
    import re
    special = {}
    for m in re.finditer(r"(%v\d+) = rv32\.get_register : (!riscv\.reg<\w+>)", text):
        special[m.group(1)] = m.group(2)
    if not special:
        return text
    out = []
    for line in text.split("\n"):
        m = re.match(r"^(\s*(?:%v\d+ = )?[\w.]+ )([^:]*?)( : \()([^)]*)(\).*)$", line)
        if m and "get_register" not in line and "riscv_func" not in line:
            ops = [o.strip() for o in m.group(2).split(",")]
            tys = [t.strip() for t in m.group(4).split(",")] if m.group(4).strip() else []
            k = 0
            for o in ops:
                if o.startswith("%"):
                    if o in special and k < len(tys):
                        tys[k] = special[o]
                    k += 1
            line = m.group(1) + m.group(2) + m.group(3) + ", ".join(tys) + m.group(5)
        elif "riscv_func.return" in line:
            head, _, _ = line.partition(" : ")
            vs = [v.strip() for v in head.split("riscv_func.return", 1)[1].split(",")]
            line = head + " : " + ", ".join(special.get(v, _l3t(v)) for v in vs)
        out.append(line)
    return "\n".join(out)


def check_l3(h, recipe, label="L3", distinct=False) -> str:
    _want_kind(recipe, "L3")
    r = l3_compare(recipe)
    if r["status"] == "rejected":
        h.discard("L3_" + r["label"])
        return "rejected"
    if r["faults"]:
        h.exclude("L3_wild_access_in_original", r["faults"])
    if r["mism"]:
        i, what, b, a = r["mism"][0]
        # blame: first value (definition order) that disagrees when returned alone
        blamed = "unlocalised"
        one = dict(recipe)
        one["inputs"] = [recipe["inputs"][i]]
        for nm, opn in r["opnames"]:
            if nm is None:
                continue
            try:
                rr = l3_compare(one, ret_override=nm)
            except RecipeError:
                continue
            if rr["status"] == "ok" and rr["mism"]:
                blamed = opn
                break
        if blamed == "unlocalised" and any(o == "riscv.sw" for _, o in r["opnames"]):
            blamed = "riscv.sw"
        sig = {"check": "L3_canonicalize", "op": "-", "pred": "-", "riscv_op": blamed}
        h.mismatch(sig, recipe, f"input {recipe['inputs'][i]}: {what}: before = {b}, after = {a}\n"
                                f"snippet:\n{r['text']}\nafter canonicalize:\n{_render(r['after'])}")
    if r["fired"]:
        h.count(label + "_pattern_fired")
    h.case(recipe, r["fired"], label=label, sample=r["text"], distinct=distinct)
    return "bad" if r["mism"] else "ok"


def l3_directed(full: bool):
    """Enumerated snippets: every foldable shape x boundary constants (the recipe format of L3)."""
    consts = L3_LI if full else L3_LI[:12]
    imms = L3_IMM if full else L3_IMM[:8]
    vecs = [[v, w, 0, 0] for v, w in zip(INT_BOUNDARY[:8], INT_BOUNDARY[3:11])]

    def rec(nargs, ops, ret=(0,)):
        return {"kind": "L3", "nargs": nargs, "ops": ops, "ret": list(ret), "inputs": vecs}
    for op in L3_RR:
        yield rec(1, [{"op": op, "a": 0, "b": 0}])
        yield rec(2, [{"op": op, "a": 1, "b": 0}])
        yield rec(1, [{"op": "zero"}, {"op": op, "a": 1, "b": 0}])
        yield rec(1, [{"op": "zero"}, {"op": op, "a": 0, "b": 1}])
        for c in L3_LI:
            yield rec(1, [{"op": "li", "v": c}, {"op": op, "a": 1, "b": 0}])
            yield rec(1, [{"op": "li", "v": c}, {"op": op, "a": 0, "b": 1}])
            yield rec(1, [{"op": "li", "v": c}, {"op": "mv", "a": 0}, {"op": op, "a": 2, "b": 0}])
        for c1 in consts:
            for c2 in consts:
                yield rec(0, [{"op": "li", "v": c1}, {"op": "li", "v": c2}, {"op": op, "a": 1, "b": 0}])
    for op in L3_RI:
        for i in L3_IMM:
            yield rec(1, [{"op": op, "a": 0, "i": i}])
            yield rec(1, [{"op": "zero"}, {"op": op, "a": 0, "i": i}])
            for c in L3_LI:
                yield rec(0, [{"op": "li", "v": c}, {"op": op, "a": 0, "i": i}])
        for i1 in imms:
            for i2 in imms:
                yield rec(1, [{"op": op, "a": 0, "i": i1}, {"op": op, "a": 0, "i": i2}], ret=(0, 1))
    for op in L3_SH:
        for i in (0, 1, 5, 16, 31):
            yield rec(1, [{"op": op, "a": 0, "i": i}])
            for c in L3_LI:
                yield rec(0, [{"op": "li", "v": c}, {"op": op, "a": 0, "i": i}])
    for c in L3_IMM:
        yield rec(1, [{"op": "addi", "a": 0, "i": c}, {"op": "sub", "a": 0, "b": 1}])
        yield rec(1, [{"op": "addi", "a": 0, "i": c}, {"op": "sub", "a": 1, "b": 0}])
    offs = [-2048, 2044, 0, 4, -4, 1024, -1024, 2040]
    for c1 in offs:
        for c2 in offs:
            yield rec(1, [{"op": "sp"}, {"op": "addr", "b": 0, "i": c1}, {"op": "sw", "b": 0, "v": 0, "i": c2},
                          {"op": "lw", "b": 0, "i": c2}, {"op": "lw", "b": 1, "i": 0}], ret=(0, 1))


def l2_directed(ok2):
    """Enumerated L2 programs: every supported binary op with a boundary constant on either side (the
    shapes the in-pipeline folds and the `li`/`addi` printing see)."""
    n = 0
    for kind, tmpl in ok2:
        op = tmpl["op"]
        if not (op in INT_BIN or op in FLT_BIN) or tmpl["t"] == "i1":
            continue
        t = tmpl["t"]
        pool = BOUNDARY[t] if t in INT_T else BOUNDARY[t][:12]
        ins = [[v] for v in BOUNDARY[t][:10]]
        for c in pool:
            for a, b in ((1, 0), (0, 1)):
                n += 1
                yield {"kind": "L2", "prog": {"args": [t], "body": [{"op": "const", "t": t, "v": c},
                                                                     {"op": op, "t": t, "a": a, "b": b}],
                                      "ret": [[t, 0]]},
                       "inputs": ins, "seed": n, "pipe": n % 2,
                       "prealloc": [] if n % 3 else [[0, "s2"], [1, "fs3"], [2, "s0"]]}


# ----------------------------------------------------------------------------------------------
# strategies
# ----------------------------------------------------------------------------------------------

def _pattern(t):
    if t == "f32":
        return st.one_of(st.sampled_from(F32_BOUNDARY), st.integers(0, M32),
                         st.integers(-40, 40).map(lambda k: rvsim.float_to_bits(k / 2.0, "s")))
    if t == "f64":
        return st.one_of(st.sampled_from(F64_BOUNDARY), st.integers(0, M64),
                         st.integers(-40, 40).map(lambda k: rvsim.float_to_bits(k / 2.0, "d")))
    if t == "i1":
        return st.integers(0, 1)
    return st.one_of(st.sampled_from(INT_BOUNDARY), st.integers(0, M32),
                     st.integers(-2100, 2100).map(lambda v: v & M32),
                     st.integers(0, 40))


def _groups(allowed: list[tuple[str, dict]]):
    """Group allowed kinds by category so that cmpf's 32 kinds do not dominate."""
    g: dict[str, list] = {}
    for kind, tmpl in allowed:
        op = tmpl["op"]
        if op in ("for", "call", "if", "while"):
            continue
        cat = ("const" if op == "const" else "cmpi" if op == "cmpi" else "cmpf" if op == "cmpf" else
               "div" if op in DIVS else "shift" if op in SHIFTS else "intbin" if op in INT_BIN else
               "fltbin" if op in FLT_BIN or op == "negf" else "select" if op == "select" else "cast")
        g.setdefault(cat, []).append(tmpl)
    return [g[k] for k in sorted(g)]


def _simple_stmt(groups, kinds):
    refs = st.integers(0, 5)

    def fill(args):
        tmpl, a, b, c, safe, vi, vf, vd = args
        s = dict(tmpl)
        if s["op"] == "const":
            s["v"] = {"f32": vf, "f64": vd, "i1": vi & 1}.get(s["t"], vi)
            if kind_of(s) not in kinds:       # e.g. -0.0 while constant/negzero/f64 is excluded
                s["v"] ^= 1
            return s
        for k, v in (("a", a), ("b", b), ("c", c)):
            if k in s:
                s[k] = v
        if s["op"] in DIVS or s["op"] in SHIFTS:
            s["safe"] = safe
        return s
    tm = st.one_of(*[st.sampled_from(g) for g in groups])
    return st.tuples(tm, refs, refs, refs, st.sampled_from([1, 1, 1, 0]), _pattern("i32"), _pattern("f32"),
                     _pattern("f64")).map(fill)


def _for_stmt(simple, types, nested: bool):
    bound = st.one_of(st.fixed_dictionaries({"c": st.integers(-4, 8)}),
                      st.fixed_dictionaries({"r": st.integers(0, 3), "m": st.sampled_from([1, 3, 7, 7, 15])}))
    iters = st.lists(st.tuples(st.sampled_from(types), st.integers(0, 4)).map(list), min_size=1, max_size=2)
    body_elem = simple
    if nested:
        inner = _for_stmt(simple, types, False)
        body_elem = st.one_of(simple, simple, simple, simple, st.tuples(inner).map(lambda t: t[0]))
    return st.fixed_dictionaries({
        "op": st.just("for"), "t": st.sampled_from(["index", "index", "i32"]),
        "lb": bound, "ub": bound, "step": st.integers(1, 4), "iters": iters,
        "body": st.lists(body_elem, min_size=1, max_size=3),
        "y": st.lists(st.sampled_from([0, 0, 0, 1, 2]), min_size=2, max_size=2)})


def prog_strategy(allowed: list[tuple[str, dict]], max_body: int, l2: bool):
    kinds = {k for k, _ in allowed}
    groups = _groups(allowed)
    simple = _simple_stmt(groups, kinds)
    types = ["i32", "index"]
    if any(t["op"] in FLT_BIN or t["op"] == "negf" for _, t in allowed):
        types += [ft for ft in FLT_T if any(k.endswith("/" + ft) and not k.startswith("cmpf") and
                                            not k.startswith("constant") for k in kinds)]
    loops = [t for t in INT_T if f"for/-/{t}" in kinds]
    elems = [simple, simple, simple, simple]
    if loops:
        fs = _for_stmt(simple, types, True).map(lambda s: s)
        elems.append(st.tuples(fs).map(lambda t: t[0] if t[0]["t"] in loops else dict(t[0], t=loops[0])))
    ifs = [t for t in INT_T + FLT_T if f"if/-/{t}" in kinds and t in types]
    if ifs and any(k.startswith("cmp") for k in kinds):
        elems.append(st.tuples(st.sampled_from(ifs), st.integers(0, 3), st.integers(0, 3), st.integers(0, 3)).map(
            lambda t: {"op": "if", "t": t[0], "c": t[1], "a": t[2], "b": t[3]}))
    if "while/-/i32" in kinds:
        elems.append(st.tuples(st.integers(0, 3), st.integers(0, 3)).map(
            lambda t: {"op": "while", "t": "i32", "n": t[0], "x": t[1]}))
    if "call/-/i32" in kinds:
        elems.append(st.tuples(st.integers(0, 3)).map(lambda t: {"op": "call", "args": [["i32", t[0]]]}))
    ret_types = list(types) + ([] if l2 else ["i1"] if any(k.startswith("cmp") for k in kinds) else [])

    @st.composite
    def prog(draw):
        args = draw(st.lists(st.sampled_from(types), min_size=1, max_size=6))
        body = draw(st.lists(st.one_of(*elems), min_size=1, max_size=max_body))
        ret = draw(st.lists(st.tuples(st.sampled_from(ret_types), st.integers(0, 2)).map(list),
                            min_size=1, max_size=2))
        nin = draw(st.integers(3, 6))
        inputs = [[draw(_pattern(t)) for t in args] for _ in range(nin)]
        free = all(f"for/yields_iv/{t}" in kinds for t in loops) and "for/yields_outer/index" in kinds
        ysafe = draw(st.sampled_from([0, 0, 1])) if free else 1
        return {"prog": {"args": args, "body": body, "ret": ret, "ysafe": ysafe}, "inputs": inputs}
    return prog()


def l1_strategy(allowed, max_body=6):
    return prog_strategy(allowed, max_body, False).map(lambda d: {"kind": "L1", **d})


def l2_strategy(allowed, max_body=7):
    pre = st.lists(st.tuples(st.integers(0, 30),
                             st.sampled_from(rvsim.CALLEE_SAVED_X + rvsim.CALLEE_SAVED_F)).map(list),
                   min_size=0, max_size=5)
    return st.tuples(prog_strategy(allowed, max_body, True), st.integers(0, 1 << 30), st.integers(0, 1),
                     st.one_of(st.just([]), pre, pre)).map(
        lambda t: {"kind": "L2", **t[0], "seed": t[1], "pipe": t[2], "prealloc": t[3]})


def l3_strategy():
    refs = st.integers(0, 4)
    liv = st.one_of(st.sampled_from(L3_LI), st.integers(-2100, 2100), st.integers(-(1 << 31), (1 << 32) - 1))
    imm = st.one_of(st.sampled_from(L3_IMM), st.integers(-2048, 2047))
    op = st.one_of(
        st.fixed_dictionaries({"op": st.just("li"), "v": liv}),
        st.fixed_dictionaries({"op": st.just("li"), "v": liv}),
        st.fixed_dictionaries({"op": st.sampled_from(L3_RR), "a": refs, "b": refs}),
        st.fixed_dictionaries({"op": st.sampled_from(L3_RR[:10]), "a": refs, "b": refs}),
        st.fixed_dictionaries({"op": st.sampled_from(L3_RI), "a": refs, "i": imm}),
        st.fixed_dictionaries({"op": st.sampled_from(L3_SH), "a": refs, "i": st.sampled_from([0, 31, 1, 16, 5])}),
        st.fixed_dictionaries({"op": st.sampled_from(["mv", "mv", "zero"]), "a": refs}),
        st.fixed_dictionaries({"op": st.just("addr"), "b": refs, "i": imm}),
        st.fixed_dictionaries({"op": st.just("sw"), "b": refs, "v": refs, "i": imm}),
        st.fixed_dictionaries({"op": st.just("lw"), "b": refs, "i": imm}),
    )
    vec = st.lists(_pattern("i32"), min_size=4, max_size=4)
    return st.fixed_dictionaries({
        "kind": st.just("L3"), "nargs": st.sampled_from([0, 1, 1, 2, 2, 3]), "ops": st.lists(op, min_size=1, max_size=8),
        "ret": st.lists(refs, min_size=1, max_size=4), "inputs": st.lists(vec, min_size=4, max_size=6)})


# ----------------------------------------------------------------------------------------------
# entry points
# ----------------------------------------------------------------------------------------------

class _Silent:
    """Harness stand-in used while probing support (results are reported by one shard only)."""

    def __init__(self):
        self.m = []
        self._shrinking = False

    def case(self, *a, **k):
        pass

    def mismatch(self, sig, recipe, detail=""):
        self.m.append(sig)

    def discard(self, *a, **k):
        pass

    exclude = count = inconclusive = discard


def probe_all(h):
    """-> {kind: {"l1": "ok"|"bad"|"rejected:..", "l2": ...}}, kinds. Every shard computes the whole
    table (it steers generation); each probe is REPORTED by exactly one shard."""
    table = {}
    kinds = all_kinds()
    n = 0
    for kind, tmpl in kinds:
        s1 = s2 = "ok"
        for rec in probe_recipes(kind, tmpl):
            n += 1
            mine = n % h.nshards == h.shard
            r1 = check_l1(h if mine else _Silent(), rec, label="L1_probe")
            if r1 != "ok":
                s1 = r1 if s1 == "ok" or r1 == "bad" else s1
                continue
            if rec["prog"]["ret"][0][0] == "i1":
                s2 = "no_i1_result"
                continue
            rec2 = {"kind": "L2", "prog": rec["prog"], "inputs": rec["inputs"][:12], "seed": n,
                    "pipe": n % 2, "prealloc": [[0, "s1"], [1, "fs1"]]}
            r2 = check_l2(h if mine else _Silent(), rec2, label="L2_probe")
            if r2 != "ok":
                s2 = r2 if s2 == "ok" or r2 == "bad" else s2
        if s1 != "ok":
            s2 = "skipped"
        table[kind] = {"l1": s1, "l2": s2}
        if h.shard == 0:
            if s1.startswith("rejected"):
                h.exclude(f"unsupported:{kind}")
            elif s1 == "bad":
                h.exclude(f"probe_failed:{kind}")
            elif s2 == "bad":
                h.exclude(f"L2_probe_failed:{kind}")
            elif s2 != "ok":
                h.exclude(f"L2_unsupported:{kind}:{s2}")
    return table, kinds


def checks(h):
    table, kinds = probe_all(h)
    ok1 = [(k, t) for k, t in kinds if table[k]["l1"] == "ok"]
    # kinds whose L2 probe is rejected or wrong leave the L2 generation (the probe reports the defect)
    # (if even the simplest program is wrong at L2 the defect is global and nothing is steered around)
    global_bad = table["addi/-/i32"]["l2"] == "bad"
    ok2 = [(k, t) for k, t in kinds if table[k]["l1"] == "ok" and
           (table[k]["l2"] == "ok" or (global_bad and table[k]["l2"] == "bad"))]
    if ok1:
        h.hyp("L1_programs", l1_strategy(ok1), lambda r: check_l1(h, r), h.scale(60, 2000), seed_salt=1)
    if ok2:
        h.hyp("L2_programs", l2_strategy(ok2), lambda r: check_l2(h, r), h.scale(60, 2000), seed_salt=2)
    for i, rec in enumerate(l2_directed(ok2)):
        if i % h.nshards == h.shard:
            if kind_of(rec["prog"]["body"][0]) in table and table[kind_of(rec["prog"]["body"][0])]["l1"] == "ok":
                check_l2(h, rec, label="L2_directed")
    for i, rec in enumerate(l3_directed(not h.quick)):
        if i % h.nshards == h.shard:
            check_l3(h, rec, label="L3_directed", distinct=True)
    h.hyp("L3_snippets", l3_strategy(), lambda r: check_l3(h, r), h.scale(250, 6000), seed_salt=3)


def replay(h, recipe):
    kind = _g(recipe, "kind", "")
    if kind == "L1":
        check_l1(h, recipe)
    elif kind == "L2":
        check_l2(h, recipe)
    elif kind == "L3":
        check_l3(h, recipe)
    else:
        raise RecipeError(f"unknown recipe kind {kind!r}")
