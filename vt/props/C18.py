"""C18 — Pass pipeline specifications round-trip through text.

Recipes (field "kind"):
  {"kind": "pass", "pass": <pass name>, "opts": {field: VAL}, "incl_default": bool}
        registered pass (get_all_passes) or one of the synthetic classes below
  {"kind": "pipeline", "passes": [<pass recipe without kind>, ...]}       0..5 passes
  {"kind": "argspec", "name": str, "params": [[key, [VAL, ...]], ...]}    ArgSpec level
  {"kind": "text", "s": str}                                              arbitrary pipeline string
VAL is a tagged JSON value: ["n"] None, ["b", bool], ["i", int], ["f", float.hex()], ["s", str],
["t", [VAL, ...]] tuple.

Oracles
  pass:     q = cls.from_pass_spec(the one spec of parse_pipeline(str(p.pipeline_pass_spec()))); q == p
  pipeline: text = ",".join(str(p.pipeline_pass_spec()))   (how xdsl/interactive/app.py prints one);
            list(parse_pipeline(text)) == specs and PassPipeline.parse_spec(passes, text).passes == passes
  argspec:  parse_spec(str(s)) == s and list(parse_pipeline(str(s))) == [s]
  text:     PassPipeline.parse_spec / parse_pipeline either return or raise ArgSpecParseError,
            ParseError, or a ValueError raised by an explicit `raise` statement in xdsl.
A failing round trip is *diagnosed*: every printed value element is re-tried alone at the ArgSpec
level (and every character of a failing string alone), so the signature names the value class that
breaks (quote / backslash / linebreak / float exponent / non-finite ...), one mismatch per culprit
class; a failure with no culprit element is classified structurally (empty tuple read as None, ...).
"""
import ast
import dataclasses
import math
import re
import traceback
from dataclasses import dataclass
from types import NoneType, UnionType
from typing import Literal, Union, get_args, get_origin, get_type_hints

from hypothesis import strategies as st

from xdsl.passes import ModulePass, PassPipeline
from xdsl.utils.arg_spec import ArgSpec, ArgSpecConvertible, parse_pipeline, parse_spec
from xdsl.utils.exceptions import ArgSpecParseError, ParseError

from vt.run import quiet

ID = "C18"
SHARDS = {"quick": 16, "thorough": 16}
RULE = (
    "(a) every registered pass (get_all_passes, sharded by name; passes without options are one "
    "exhaustive case each): option assignments generated from the resolved dataclass field types "
    "(int incl. negative/bignum, bool, float incl. exponent-form/non-finite, str over all of Unicode "
    "biased to quote/backslash/space/comma/brace/linebreak/non-ASCII, Literal members, tuple[T, ...] of "
    "length 0..4, unions, None), fields with defaults randomly omitted, include_default on/off; "
    "(b) the same for 6 synthetic ModulePass/ArgSpecConvertible dataclasses covering every documented "
    "type (int|float|bool|str, tuple[int,...], tuple[int|float,...], tuple[int,...]|tuple[float,...], "
    "T|None, defaults, Literal); (c) pipelines of 0..5 such passes printed with ','.join; "
    "(d) ArgSpec objects with 0..4 keys of 0..4 mixed values; (e) arbitrary strings built from "
    "registered pass names, their option keys, grammar tokens, escapes, digits, non-ASCII and arbitrary "
    "characters, plus whatever parses is re-printed and re-parsed. Oracle: printed text parses back to "
    "an == object (NaN-aware); arbitrary text yields passes or ArgSpecParseError/ParseError/explicitly "
    "raised ValueError. Non-trivial: a printed string value containing a quote, backslash, space, comma "
    "or brace, a float whose str() has an exponent or is non-finite, an empty tuple or None that is "
    "printed; for (e) a text containing one of { = , \" [ beyond a bare identifier.")
ASSUMPTIONS = [
    "a pipeline is printed as ','.join(str(p.pipeline_pass_spec())) (xdsl/interactive/app.py); a single "
    "pass as str(p.pipeline_pass_spec())",
    "equality is dataclass == (so 0.0 == -0.0, 1 == 1.0 == True), except that NaN matches NaN",
    "ArgSpecParseError, ParseError and ValueError raised by an explicit raise statement inside xdsl "
    "are the documented parse/option reports; RecursionError/MemoryError are never violations",
    "lone surrogates are not generated (not encodable text)",
]


# ------------------------------------------------------------------------------------------
# synthetic classes (documented supported field types of ArgSpecConvertible / ModulePass)
# ------------------------------------------------------------------------------------------

class _NoApply(ModulePass):
    def apply(self, ctx, op):  # pragma: no cover - never applied
        raise NotImplementedError


@dataclass(frozen=True)
class SynScalars(_NoApply):
    name = "vt-syn-scalars"
    i: int
    f: float
    b: bool
    s: str


@dataclass(frozen=True)
class SynDefaults(_NoApply):
    name = "vt-syn-defaults"
    i: int = 7
    f: float = 1.5
    b: bool = False
    b2: bool = True
    s: str = "dflt"
    arg_1: tuple[int, ...] = (1, 2)
    ts: tuple[str, ...] = ()


@dataclass(frozen=True)
class SynOptional(_NoApply):
    name = "vt-syn-optional"
    ro: int | None
    oi: int | None = None
    of: float | None = None
    ob: bool | None = None
    os: str | None = None
    ot: tuple[int, ...] | None = None
    oi5: int | None = 5
    os_d: str | None = "x"


@dataclass(frozen=True)
class SynTuples(_NoApply):
    name = "vt-syn-tuples"
    ti: tuple[int, ...]
    tf: tuple[float, ...]
    tif: tuple[int | float, ...]
    tu: tuple[int, ...] | tuple[float, ...]
    ts: tuple[str, ...]
    tb: tuple[bool, ...] = ()


@dataclass(frozen=True)
class SynLiteral(_NoApply):
    name = "vt-syn-literal"
    lit: Literal["a", "b-c", "true", "1"]
    ol: Literal["x", "y z"] | None = None


@dataclass(frozen=True)
class SynTarget(ArgSpecConvertible):
    """Not a pass: used the way xdsl_opt_main uses targets (parse_spec + from_spec)."""
    name = "vt-syn-target"
    width: int = 32
    scale: float = 1.0
    tag: str | None = None
    dims: tuple[int | float, ...] = ()


SYN_PASSES = [SynScalars, SynDefaults, SynOptional, SynTuples, SynLiteral]
SYN_ALL = SYN_PASSES + [SynTarget]

_REG = None


def registry():
    """name -> () -> class, registered passes plus the synthetic passes."""
    global _REG
    if _REG is None:
        from xdsl.transforms import get_all_passes
        reg = dict(get_all_passes())
        for c in SYN_PASSES:
            assert c.name not in reg
            reg[c.name] = (lambda c=c: c)
        _REG = reg
    return _REG


def lookup(name):
    if name == SynTarget.name:
        return SynTarget
    return registry()[name]()


# ------------------------------------------------------------------------------------------
# values
# ------------------------------------------------------------------------------------------

def enc(v):
    if v is None:
        return ["n"]
    if isinstance(v, bool):
        return ["b", v]
    if isinstance(v, int):
        return ["i", v]
    if isinstance(v, float):
        return ["f", v.hex()]
    if isinstance(v, str):
        return ["s", v]
    if isinstance(v, tuple):
        return ["t", [enc(x) for x in v]]
    raise TypeError(f"cannot encode {v!r}")


def dec(e):
    tag = e[0]
    if tag == "n":
        return None
    if tag == "b":
        return bool(e[1])
    if tag == "i":
        return int(e[1])
    if tag == "f":
        return float.fromhex(e[1])
    if tag == "s":
        return str(e[1])
    if tag == "t":
        return tuple(dec(x) for x in e[1])
    raise ValueError(f"bad value tag {e!r}")


GRAMMAR_CHARS = ' ,{}=-._e+[]09aZ\t'
BREAK_CHARS = '"\\\n\r\x0c\x0b'
NONASCII_CHARS = 'é☃\U0001f600 ٠'
WORDS = ["true", "false", "12", "-3", "1.5", "1e5", "none", "inf", "nan", "a b", "x,y", "{k=v}", "a=b",
         "", "é", "mlir-opt", "[x]"]


def _pick_char(t):
    k, i, ch = t
    if k == 0:
        return '"\\'[i % 2]
    if k == 1:
        return BREAK_CHARS[i % len(BREAK_CHARS)]
    if k in (2, 3):
        return GRAMMAR_CHARS[i % len(GRAMMAR_CHARS)]
    if k == 4:
        return NONASCII_CHARS[i % len(NONASCII_CHARS)]
    if k in (5, 6):
        return "abnt0fxyz_"[i % 10]
    return ch


def str_strategy():
    """'strings with arbitrary characters'. mild: grammar characters (space , { } = - . [ ] ...), letters,
    non-ASCII and arbitrary Unicode except quote/backslash/line breaks; wild: all of Unicode with 10%
    quote/backslash and 10% line-break characters. (Characters are drawn through an explicit weight
    index: text(alphabet=one_of(...)) would flatten the alphabet into one uniform character set.)"""
    mild_char = st.tuples(st.integers(2, 9), st.integers(0, 999),
                          st.characters(codec="utf-8", exclude_characters=BREAK_CHARS)).map(_pick_char)
    wild_char = st.tuples(st.integers(0, 9), st.integers(0, 999),
                          st.characters(codec="utf-8")).map(_pick_char)
    mild = st.lists(mild_char, max_size=8).map("".join)
    wild = st.lists(wild_char, max_size=8).map("".join)
    return st.one_of(mild, st.sampled_from(WORDS), mild, wild)


def int_strategy():
    return st.one_of(st.integers(-5, 20), st.integers(-2 ** 70, 2 ** 70))


def float_strategy():
    return st.one_of(
        st.integers(-10 ** 6, 10 ** 6).map(lambda i: i / 64),
        st.sampled_from([0.0, -0.0, 1.5, 0.1, 1e16, 1e-5, 1e22, 123456.789, 5e-324,
                         float("inf"), float("-inf"), float("nan")]),
        st.floats(allow_nan=True, allow_infinity=True),
        st.floats(min_value=-1e6, max_value=1e6),
    )


def literal_words(hint):
    """String members of Literal types anywhere inside a type hint."""
    if get_origin(hint) is Literal:
        return [a for a in get_args(hint) if isinstance(a, str)]
    out = []
    for a in get_args(hint):
        if a is not Ellipsis:
            out.extend(literal_words(a))
    return out


def strat_for(hint, words=None):
    """Strategy of encoded values for a resolved field type hint. String positions are additionally
    biased to the Literal members occurring in the same (top-level) hint."""
    if words is None:
        words = literal_words(hint)
    origin = get_origin(hint)
    if hint is bool:
        return st.booleans().map(enc)
    if hint is int:
        return int_strategy().map(enc)
    if hint is float:
        return float_strategy().map(enc)
    if hint is str:
        if words:
            return st.one_of(str_strategy(), st.sampled_from(words)).map(enc)
        return str_strategy().map(enc)
    if hint is NoneType or hint is None:
        return st.just(["n"])
    if origin is Literal:
        return st.sampled_from(list(get_args(hint))).map(enc)
    if origin is tuple:
        args = get_args(hint)
        if len(args) == 2 and args[1] is Ellipsis:
            return st.lists(strat_for(args[0], words), max_size=4).map(lambda l: ["t", l])
        raise NotImplementedError(f"C18 generator: fixed-size tuple option type {hint}")
    if origin in (Union, UnionType):
        return st.one_of(*[strat_for(a, words) for a in get_args(hint)])
    raise NotImplementedError(f"C18 generator: unsupported option field type {hint!r}")


def option_fields(cls):
    """[(field name, resolved hint, has_default)] of the constructor options of cls."""
    hints = get_type_hints(cls)
    out = []
    for f in dataclasses.fields(cls):
        if f.name == "name" or not f.init:
            continue
        has_default = (f.default is not dataclasses.MISSING
                       or f.default_factory is not dataclasses.MISSING)
        out.append((f.name, hints[f.name], has_default))
    return out


def pass_recipe_strategy(name, cls):
    req, opt = {}, {}
    for fname, hint, has_default in option_fields(cls):
        (opt if has_default else req)[fname] = strat_for(hint)
    return st.fixed_dictionaries({
        "pass": st.just(name),
        "opts": st.fixed_dictionaries(req, optional=opt),
        "incl_default": st.booleans(),
    })


def build_pass(r):
    cls = lookup(r["pass"])
    return cls, cls(**{k: dec(v) for k, v in sorted(r["opts"].items())})


# ------------------------------------------------------------------------------------------
# comparison, classification
# ------------------------------------------------------------------------------------------

def veq(a, b):
    """== with NaN matching NaN, element-wise through tuples and dicts."""
    if isinstance(a, float) and isinstance(b, float) and a != a and b != b:
        return True
    if isinstance(a, tuple) and isinstance(b, tuple):
        return len(a) == len(b) and all(veq(x, y) for x, y in zip(a, b))
    if isinstance(a, dict) and isinstance(b, dict):
        return a.keys() == b.keys() and all(veq(a[k], b[k]) for k in a)
    return a == b


def same_obj(p, q):
    if p == q:
        return True
    if type(p) is not type(q):
        return False
    return all(veq(getattr(p, f.name), getattr(q, f.name))
               for f in dataclasses.fields(p) if f.compare)


def same_spec(a, b):
    return a.name == b.name and veq(a.parameters, b.parameters)


def char_class(c):
    if c == '"':
        return "quote"
    if c == "\\":
        return "backslash"
    if c in "\n\r\x0c\x0b":
        return "linebreak"
    if c == " ":
        return "space"
    if c == ",":
        return "comma"
    if c in "{}":
        return "brace"
    if c == "=":
        return "equals"
    if c in "[]":
        return "bracket"
    o = ord(c)
    if o > 127:
        return "non_ascii"
    if o < 32 or o == 127:
        return "control"
    if c.isdigit():
        return "digit"
    if c.isalpha():
        return "alpha"
    return "punct"


_NUMLIKE = re.compile(r"[-+]?[0-9]+(\.[0-9]*)?([eE][-+]?[0-9]+)?$")


def value_features(values):
    """Feature labels of the printed values (list of python values, tuples flattened one level)."""
    f = set()
    for v in values:
        if v is None:
            f.add("none")
            continue
        if isinstance(v, tuple):
            if len(v) == 0:
                f.add("empty_tuple")
            if len(v) == 1:
                f.add("singleton_tuple")
            elems = v
        else:
            elems = (v,)
        for e in elems:
            if isinstance(e, bool):
                f.add("bool")
            elif isinstance(e, int):
                f.add("int_neg" if e < 0 else "int")
                if abs(e) >= 2 ** 63:
                    f.add("int_big")
            elif isinstance(e, float):
                if math.isinf(e) or math.isnan(e):
                    f.add("float_nonfinite")
                elif "e" in str(e):
                    f.add("float_exp")
                else:
                    f.add("float_plain")
            elif isinstance(e, str):
                if e == "":
                    f.add("str_empty")
                elif e in ("true", "false"):
                    f.add("str_boollike")
                elif _NUMLIKE.match(e):
                    f.add("str_numlike")
                for c in e:
                    cc = char_class(c)
                    if cc not in ("alpha", "digit", "punct"):
                        f.add("str_" + cc)
    return f


NONTRIVIAL = {"str_quote", "str_backslash", "str_space", "str_comma", "str_brace",
              "float_exp", "float_nonfinite", "empty_tuple", "none"}


def xdsl_where(exc):
    """innermost xdsl frame of the traceback as 'file:function'."""
    where = "?"
    for fs in traceback.extract_tb(exc.__traceback__):
        fn = fs.filename.replace("\\", "/")
        if "/xdsl/" in fn and "/verif/" not in fn:
            where = "xdsl/" + fn.rsplit("/xdsl/", 1)[1] + ":" + fs.name
    return where


_RAISE_LINES: dict = {}


def _raise_lines(filename):
    if filename not in _RAISE_LINES:
        lines = set()
        try:
            with open(filename, encoding="utf-8") as f:
                tree = ast.parse(f.read())
            for node in ast.walk(tree):
                if isinstance(node, ast.Raise):
                    lines.update(range(node.lineno, (node.end_lineno or node.lineno) + 1))
        except (OSError, SyntaxError):
            pass
        _RAISE_LINES[filename] = lines
    return _RAISE_LINES[filename]


def raised_explicitly(exc):
    """True when the exception left from a `raise` statement located in an xdsl source file."""
    tb = exc.__traceback__
    if tb is None:
        return False
    while tb.tb_next is not None:
        tb = tb.tb_next
    fn = tb.tb_frame.f_code.co_filename.replace("\\", "/")
    if "/xdsl/" not in fn or "/verif/" in fn:
        return False
    return tb.tb_lineno in _raise_lines(fn)


def classify_exc(e):
    """'parse_error' | 'option_error' | None (None = not a documented report)."""
    if isinstance(e, (ArgSpecParseError, ParseError)):
        return "parse_error"
    if isinstance(e, (RecursionError, MemoryError)):
        return "resource"
    if isinstance(e, ValueError) and not isinstance(e, UnicodeError) and raised_explicitly(e):
        return "option_error"
    return None


def run_guarded(fn):
    """(outcome, result_or_exc): outcome in ok/parse_error/option_error/resource/crash."""
    try:
        with quiet():
            return "ok", fn()
    except ArgSpecParseError as e:  # BaseException subclass: the documented parse report
        return "parse_error", e
    except Exception as e:  # classified, never swallowed: every non-ok outcome is reported
        return (classify_exc(e) or "crash"), e


def exc_brief(e):
    lines = [l for l in str(e).splitlines() if l.strip()]
    return f"{type(e).__name__}: {lines[-1].strip() if lines else ''}"[:200]


# ---- element-level diagnosis ---------------------------------------------------------------

def probe_elem(elem):
    """Does a single value survive ArgSpec print -> parse on its own (type-strict)?"""
    s = ArgSpec("x", {"k": (elem,)})
    outcome, r = run_guarded(lambda: parse_spec(str(s)))
    if outcome != "ok":
        return False, outcome
    got = r.parameters.get("k") if r.name == "x" and list(r.parameters) == ["k"] else None
    if got is None or len(got) != 1 or type(got[0]) is not type(elem) or not veq(got[0], elem):
        return False, "changed"
    return True, "ok"


def diagnose_elems(values):
    """[(vtype, class, outcome)] for the value elements that do not survive alone."""
    out = []
    seen = set()
    for v in values:
        for e in (v if isinstance(v, tuple) else (v,)):
            if e is None:
                continue
            key = (type(e).__name__, repr(e))
            if key in seen:
                continue
            seen.add(key)
            ok, outcome = probe_elem(e)
            if ok:
                continue
            if isinstance(e, str):
                found = False
                for c in sorted(set(e)):
                    okc, oc = probe_elem(c)
                    if not okc:
                        found = True
                        out.append(("str", char_class(c), oc))
                if not found:
                    if e == "":
                        cls = "empty"
                    elif e in ("true", "false"):
                        cls = "looks_like_bool"
                    elif _NUMLIKE.match(e):
                        cls = "looks_like_number"
                    else:
                        cls = "combination"
                    out.append(("str", cls, outcome))
            elif isinstance(e, bool):
                out.append(("bool", str(e), outcome))
            elif isinstance(e, int):
                out.append(("int", "negative" if e < 0 else ("big" if e >= 2 ** 63 else "plain"), outcome))
            elif isinstance(e, float):
                if math.isinf(e) or math.isnan(e):
                    cls = "nonfinite"
                elif "e" in str(e):
                    cls = "exponent"
                else:
                    cls = "plain"
                out.append(("float", cls, outcome))
            else:
                out.append((type(e).__name__, "unsupported", outcome))
    # one entry per (vtype, class)
    uniq = {}
    for vt, cls, oc in out:
        uniq.setdefault((vt, cls), oc)
    return [(vt, cls, oc) for (vt, cls), oc in sorted(uniq.items())]


def type_shape(hint):
    origin = get_origin(hint)
    if origin in (Union, UnionType):
        return "|".join(sorted(type_shape(a) for a in get_args(hint)))
    if origin is tuple:
        return "tuple"
    if origin is Literal:
        return "literal"
    if hint is NoneType:
        return "none"
    return getattr(hint, "__name__", str(hint))


def structural_class(p, q, cls):
    """Classify an unequal round trip without culprit element by the first differing field."""
    hints = get_type_hints(cls)
    for f in dataclasses.fields(p):
        a, b = getattr(p, f.name), getattr(q, f.name)
        if veq(a, b):
            continue
        shape = type_shape(hints.get(f.name))
        if a == () and b is None:
            return "empty_tuple_reads_as_none", shape
        if isinstance(a, tuple) and len(a) == 1 and not isinstance(b, tuple) and veq(a[0], b):
            return "singleton_tuple_reads_as_scalar", shape
        return f"{type(a).__name__}_reads_as_{type(b).__name__}", shape
    return "unequal_no_field", "?"


def failing_field(p, spec, cls, exc):
    """For an option error without culprit element: which printed field shape is rejected."""
    hints = get_type_hints(cls)
    msg = str(exc)
    for k, v in spec.parameters.items():
        hint = hints.get(k)
        shape = type_shape(hint)
        if (v == () and getattr(p, k) == () and get_origin(hint) in (Union, UnionType)
                and NoneType not in get_args(hint) and "must contain a value" in msg):
            return "empty_tuple_rejected_for_union", shape
    return "option_rejected", "?"


# ------------------------------------------------------------------------------------------
# oracles
# ------------------------------------------------------------------------------------------

def parse_one(text, cls, is_pass):
    """The documented way back: pipeline parser + from_pass_spec (parse_spec + from_spec for targets)."""
    if is_pass:
        specs = list(parse_pipeline(text))
        if len(specs) != 1:
            return ("split", specs)
        return ("obj", cls.from_pass_spec(specs[0]))
    return ("obj", cls.from_spec(parse_spec(text)))


def roundtrip_pass(p, cls, incl_default, level):
    """-> (text, [(sig, detail)], features)"""
    is_pass = isinstance(p, ModulePass)
    out = []
    o, spec = run_guarded(lambda: (p.pipeline_pass_spec(include_default=incl_default) if is_pass
                                   else p.spec(include_default=incl_default)))
    if o != "ok":
        return None, [({"check": "roundtrip", "level": level, "cause": "print", "outcome": o,
                        "exc": type(spec).__name__, "where": xdsl_where(spec)},
                       f"spec() of {p!r} failed: {exc_brief(spec)}")], set()
    o, text = run_guarded(lambda: str(spec))
    if o != "ok":
        return None, [({"check": "roundtrip", "level": level, "cause": "print", "outcome": o,
                        "exc": type(text).__name__, "where": xdsl_where(text)},
                       f"str(spec) of {p!r} failed: {exc_brief(text)}")], set()
    values = list(spec.parameters.values())
    # features of the field values that are printed (None is printed as an empty value list)
    feats = value_features([getattr(p, k) for k in spec.parameters])
    o, res = run_guarded(lambda: parse_one(text, cls, is_pass))
    if o == "ok" and res[0] == "obj" and same_obj(p, res[1]):
        return text, out, feats
    if o == "resource":
        return text, out, feats
    # ---- failed: diagnose -------------------------------------------------------------------
    if o == "ok" and res[0] == "split":
        outcome, got = "split", f"{len(res[1])} specs {[str(s) for s in res[1]]}"
    elif o == "ok":
        outcome, got = "unequal", repr(res[1])
    else:
        outcome, got = o, exc_brief(res)
    base = {"check": "roundtrip", "level": level, "outcome": outcome}
    if o == "crash":
        base["exc"] = type(res).__name__
        base["where"] = xdsl_where(res)
    detail = f"{p!r} prints as {text!r}; reading it back gives {got}"
    culprits = diagnose_elems(values)
    if culprits:
        for vt, cls_, oc in culprits:
            out.append(({**base, "cause": "value", "vtype": vt, "class": cls_},
                        detail + f" [a {vt} value of class {cls_} does not survive on its own: {oc}]"))
        return text, out, feats
    if outcome == "unequal":
        sc, shape = structural_class(p, res[1], cls)
        out.append(({**base, "cause": "structure", "class": sc, "ftype": shape}, detail))
    elif outcome == "option_error":
        sc, shape = failing_field(p, spec, cls, res)
        out.append(({**base, "cause": "structure", "class": sc, "ftype": shape}, detail))
    else:
        out.append(({**base, "cause": "structure", "class": "syntax",
                     "exc": type(res).__name__ if o != "ok" else "-",
                     "where": xdsl_where(res) if o != "ok" else "-"}, detail))
    return text, out, feats


def run_pass(h, r, label):
    cls, p = build_pass(r)
    level = "synthetic" if r["pass"].startswith("vt-syn-") else "pass"
    text, res, feats = roundtrip_pass(p, cls, bool(r.get("incl_default")), level)
    rec = {"kind": "pass", **{k: r[k] for k in ("pass", "opts", "incl_default") if k in r}}
    h.case(rec, bool(feats & NONTRIVIAL), label=label, sample={"recipe": rec, "text": text})
    for f in sorted(feats):
        h.count("has_" + f)
    for sig, detail in res:
        h.mismatch(sig, rec, detail)


def run_pipeline(h, r, label):
    built = [build_pass(x) for x in r["passes"]]
    rec = {"kind": "pipeline", "passes": r["passes"]}
    passes = tuple(p for _, p in built)
    feats = set()
    res = []
    o, specs = run_guarded(lambda: [p.pipeline_pass_spec() for p in passes])
    text = None
    if o == "ok":
        o, text = run_guarded(lambda: ",".join(str(s) for s in specs))
    if o != "ok":
        e = specs if text is None else text
        res.append(({"check": "roundtrip", "level": "pipeline", "cause": "print", "outcome": o,
                     "exc": type(e).__name__, "where": xdsl_where(e)}, f"printing failed: {exc_brief(e)}"))
    else:
        for p, s in zip(passes, specs):
            feats |= value_features([getattr(p, k) for k in s.parameters])
        o1, got_specs = run_guarded(lambda: list(parse_pipeline(text)))
        o2, got_pipe = run_guarded(lambda: PassPipeline.parse_spec(registry(), text))
        ok1 = o1 == "ok" and len(got_specs) == len(specs) and all(
            same_spec(a, b) for a, b in zip(got_specs, specs))
        ok2 = o2 == "ok" and len(got_pipe.passes) == len(passes) and all(
            same_obj(a, b) for a, b in zip(passes, got_pipe.passes))
        if "resource" in (o1, o2):
            ok1 = ok2 = True
        if not (ok1 and ok2):
            # attribute to the individual passes first
            indiv = []
            for (cls, p) in built:
                _, rs, _ = roundtrip_pass(p, cls, False, "pipeline")
                indiv.extend(rs)
            if indiv:
                seen = set()
                for sig, detail in indiv:
                    k = tuple(sorted(sig.items()))
                    if k not in seen:
                        seen.add(k)
                        res.append((sig, f"in pipeline {text!r}: " + detail))
            else:
                if not ok2:
                    got = exc_brief(got_pipe) if o2 != "ok" else repr(got_pipe.passes)
                    sig = {"check": "roundtrip", "level": "pipeline", "cause": "pipeline_structure",
                           "outcome": o2 if o2 != "ok" else "unequal"}
                    if o2 == "crash":
                        sig["exc"], sig["where"] = type(got_pipe).__name__, xdsl_where(got_pipe)
                    res.append((sig, f"pipeline {passes!r} prints as {text!r}; PassPipeline.parse_spec "
                                     f"gives {got} although every pass round-trips alone"))
                if not ok1:
                    got = exc_brief(got_specs) if o1 != "ok" else repr([str(s) for s in got_specs])
                    sig = {"check": "roundtrip", "level": "pipeline_specs", "cause": "pipeline_structure",
                           "outcome": o1 if o1 != "ok" else "unequal"}
                    if o1 == "crash":
                        sig["exc"], sig["where"] = type(got_specs).__name__, xdsl_where(got_specs)
                    res.append((sig, f"specs {[str(s) for s in specs]} joined as {text!r}; parse_pipeline "
                                     f"gives {got} although every pass round-trips alone"))
    h.case(rec, bool(feats & NONTRIVIAL) and len(passes) > 0, label=label,
           sample={"recipe": rec, "text": text})
    h.count(f"pipeline_len_{len(passes)}")
    for sig, detail in res:
        h.mismatch(sig, rec, detail)


def run_argspec(h, r, label):
    params = {}
    for k, vals in r["params"]:
        params[k] = tuple(dec(v) for v in vals)
    s = ArgSpec(r["name"], params)
    rec = {"kind": "argspec", "name": r["name"], "params": r["params"]}
    feats = value_features(list(params.values()))
    res = []
    o, text = run_guarded(lambda: str(s))
    if o != "ok":
        res.append(({"check": "roundtrip", "level": "argspec", "cause": "print", "outcome": o,
                     "exc": type(text).__name__, "where": xdsl_where(text)}, exc_brief(text)))
        text = None
    else:
        o1, got = run_guarded(lambda: parse_spec(text))
        o2, got_l = run_guarded(lambda: list(parse_pipeline(text)))
        ok1 = o1 == "ok" and same_spec(got, s)
        ok2 = o2 == "ok" and len(got_l) == 1 and same_spec(got_l[0], s)
        if "resource" in (o1, o2):
            ok1 = ok2 = True
        if not (ok1 and ok2):
            if not ok1:
                outcome, gtxt, e = (o1 if o1 != "ok" else "unequal",
                                    exc_brief(got) if o1 != "ok" else repr(got), got)
            else:
                outcome, gtxt, e = (o2 if o2 != "ok" else "unequal",
                                    exc_brief(got_l) if o2 != "ok" else repr(got_l), got_l)
            base = {"check": "roundtrip", "level": "argspec", "outcome": outcome}
            if outcome == "crash":
                base["exc"], base["where"] = type(e).__name__, xdsl_where(e)
            detail = f"{s!r} prints as {text!r}; reading it back gives {gtxt}"
            culprits = diagnose_elems(list(params.values()))
            for vt, cls_, oc in culprits:
                res.append(({**base, "cause": "value", "vtype": vt, "class": cls_},
                            detail + f" [a {vt} value of class {cls_} does not survive on its own: {oc}]"))
            if not culprits:
                res.append(({**base, "cause": "structure",
                             "class": "parse_spec" if not ok1 else "parse_pipeline_only"}, detail))
    h.case(rec, bool(feats & NONTRIVIAL), label=label, sample={"recipe": rec, "text": text})
    for f in sorted(feats):
        h.count("has_" + f)
    for sig, detail in res:
        h.mismatch(sig, rec, detail)


_TEXT_STRUCT = set('{=,"[')


def run_text(h, r, label):
    s = r["s"]
    rec = {"kind": "text", "s": s}
    res = []
    o1, specs = run_guarded(lambda: list(parse_pipeline(s)))
    o2, pipe = run_guarded(lambda: PassPipeline.parse_spec(registry(), s))
    for stage, o, v in (("parse_pipeline", o1, specs), ("PassPipeline.parse_spec", o2, pipe)):
        if o == "crash":
            exc = type(v).__name__
            if isinstance(v, ValueError) and not isinstance(v, UnicodeError):
                exc += "(not raised by a raise statement)"
            res.append(({"check": "arbitrary_text", "stage": stage, "exc": exc, "where": xdsl_where(v)},
                        f"{stage}({s!r}) -> {exc_brief(v)}"))
    if o1 == "ok" and o2 in ("parse_error",):
        res.append(({"check": "arbitrary_text", "stage": "consistency", "kind": "parse_error_after_parse"},
                    f"parse_pipeline({s!r}) succeeds but PassPipeline.parse_spec reports {exc_brief(pipe)}"))
    cls_label = "text_" + ("passes" if o2 == "ok" else o2) + ("" if o1 == "ok" else "_lex")
    h.case(rec, bool(_TEXT_STRUCT & set(s)), label=label, sample=rec)
    h.count(cls_label)
    if o2 == "ok":
        h.count(f"text_parsed_len_{min(len(pipe.passes), 5)}")
    elif o2 in ("parse_error", "option_error"):
        h.discard(o2 + ":" + type(pipe).__name__)
    elif o2 == "resource":
        h.inconclusive("resource:" + type(pipe).__name__)
    for sig, detail in res:
        h.mismatch(sig, rec, detail)
    # what parses is a pipeline: each of its passes must print and parse back to itself
    if o2 == "ok" and pipe.passes:
        h.count("text_reprinted")
        for p in pipe.passes:
            _, rs, feats = roundtrip_pass(p, type(p), False, "parsed_text")
            if feats & NONTRIVIAL:
                h.count("text_reprint_nontrivial")
            for sig, detail in rs:
                h.mismatch(sig, rec, f"from text {s!r}: " + detail)


def replay(h, recipe):
    kind = recipe["kind"]
    if kind == "pass":
        run_pass(h, recipe, "replay")
    elif kind == "pipeline":
        run_pipeline(h, recipe, "replay")
    elif kind == "argspec":
        run_argspec(h, recipe, "replay")
    elif kind == "text":
        run_text(h, recipe, "replay")
    else:
        raise ValueError(f"unknown recipe kind {kind!r}")


# ------------------------------------------------------------------------------------------
# generated search
# ------------------------------------------------------------------------------------------

def ident_strategy():
    return st.one_of(
        st.tuples(st.sampled_from("abekx"), st.text(alphabet="abcxyz0189_-", max_size=7)).map("".join),
        st.sampled_from(["a", "arg_1", "arg-1", "x2", "true", "e5", "mlir-opt", "k", "canonicalize"]))


def argspec_strategy():
    val = st.one_of(st.booleans().map(enc), int_strategy().map(enc), float_strategy().map(enc),
                    str_strategy().map(enc))
    params = st.lists(st.tuples(ident_strategy(), st.lists(val, max_size=4)), max_size=4,
                      unique_by=lambda kv: kv[0]).map(lambda l: [[k, v] for k, v in l])
    return st.fixed_dictionaries({"name": ident_strategy(), "params": params})


TOKENS = ["{", "}", "=", ",", " ", '"', "\\", "-", ".", "e", "+", "[", "]", "true", "false",
          "\\n", "\\t", "\\\\", '\\"', "\\f", "\\r", "\\v", "\\fa", "\\0A", "\\x", "\n", "\t",
          "  ", "{}", "=1", '="a b"', "=1,2", "=1.5", "=-1", "=1e5", "=1.e5", "=.5",
          "mlir-opt[", "mlir-opt", "\u00e9", "\u2603", "\u00a0", "\u0660", "_", "2d-", "0x1"]


def value_text_strategy():
    """Spellings of one option value as a user would type it (plus near misses)."""
    num = st.one_of(
        st.integers(-100, 10 ** 6).map(str),
        st.sampled_from(["0", "-0", "+5", "007", "1.", "1.5", "-0.5", "1.5e3", "1.e5", "2.5E-3", "1e5", "1e-5",
                         "1e+16", ".5", "0x10", "1_000", "12ab", "2d-slice", "inf", "nan", "-inf", "1.5.2",
                         "99999999999999999999999999", "1.7976931348623157e309", "\u0661\u0662"]),
        st.floats(allow_nan=False, allow_infinity=False).map(str),
    )
    esc = st.sampled_from(["\\n", "\\t", "\\\\", '\\"', "\\f", "\\r", "\\v", "\\fa", "\\f0", "\\0A", "\\x41",
                           "\\q", "\\", "a", " ", ",", "}", "{", "=", "\u00e9", "\u2603", "\t", "0", "ff"])
    quoted = st.lists(st.one_of(esc, st.characters(codec="utf-8", exclude_characters='"\\\n\r\x0b\x0c')),
                      max_size=5).map(lambda l: '"' + "".join(l) + '"')
    return st.one_of(num, st.sampled_from(["true", "false", "True", "none", "fast", "static", "wse2", "avx2"]),
                     ident_strategy(), quoted, st.text(max_size=3))


_IDENT_RE = re.compile(r"[A-Za-z_][A-Za-z0-9_-]*$")


def spell_value(v, variant):
    """How a user would type a value on the command line (escapes per the STRING_LIT token)."""
    if isinstance(v, bool):
        return "true" if v else "false"
    if isinstance(v, int):
        return str(v)
    if isinstance(v, float):
        if math.isinf(v) or math.isnan(v):
            return str(v)
        r = repr(v)
        if "e" in r:  # the NUMBER token needs a '.' before the exponent
            mant, ex = r.split("e")
            r = (mant if "." in mant else mant + ".") + "e" + ex
        return r
    assert isinstance(v, str)
    if variant % 2 == 0 and _IDENT_RE.match(v) and v not in ("true", "false"):
        return v
    out = []
    for c in v:
        if c == "\\":
            out.append("\\\\")
        elif c == '"':
            out.append('\\"')
        elif c == "\n":
            out.append("\\n")
        elif c == "\t" and variant % 3 == 0:
            out.append("\\t")
        elif c in "\r\x0b\x0c":
            out.append("\\%02X" % ord(c))
        else:
            out.append(c)
    return '"' + "".join(out) + '"'


def spell_option(key, v, variant):
    if v is None:
        return key
    elems = v if isinstance(v, tuple) else (v,)
    if not elems:
        return key
    return key + "=" + ",".join(spell_value(e, variant) for e in elems)


def structured_text_strategy(pass_fields, recipes):
    """Near-valid pipeline strings in the documented grammar, using real pass names, option keys and
    (for about half of the options) values of the declared field type in command-line spelling."""
    names = sorted(pass_fields)

    def one_pass(name):
        fields = pass_fields[name]
        keys = [f for f, _ in fields]
        key = st.one_of(st.sampled_from(keys), st.sampled_from(keys).map(lambda k: k.replace("_", "-")),
                        ident_strategy()) if keys else ident_strategy()
        untyped = st.tuples(key, st.lists(value_text_strategy(), max_size=3)).map(
            lambda kv: kv[0] + ("=" + ",".join(kv[1]) if kv[1] else ""))
        if fields:
            typed = st.sampled_from(fields).flatmap(
                lambda fh: st.tuples(st.just(fh[0]), strat_for(fh[1]), st.integers(0, 5))).map(
                lambda t: spell_option(t[0].replace("_", "-") if t[2] == 5 else t[0], dec(t[1]), t[2]))
            option = st.one_of(typed, typed, untyped)
            opts = st.one_of(st.lists(option, max_size=4),
                             st.lists(typed, max_size=len(fields), unique_by=lambda o: o.split("=")[0]))
        else:
            opts = st.lists(untyped, max_size=2)
        sep = st.sampled_from([" ", " ", " ", " ", " ", "  ", ",", ""])
        return st.tuples(opts, sep, st.booleans()).map(
            lambda t: name + ("{" + t[1].join(t[0]) + "}" if (t[0] or t[2]) else ""))

    def full(r):
        """every required option present, declared types, command-line spelling"""
        opts = [spell_option(k, dec(v), len(k) + i) for i, (k, v) in enumerate(sorted(r["opts"].items()))]
        return r["pass"] + ("{" + " ".join(opts) + "}" if opts else "")

    full_pass = st.sampled_from(names).flatmap(lambda n: recipes[n]).map(full)
    partial = st.sampled_from(names).flatmap(one_pass)
    rare = st.one_of(st.just("mlir-opt[canonicalize,cse]"), ident_strategy(), st.sampled_from(names))
    a_pass = st.one_of(full_pass, full_pass, full_pass, partial, partial, rare)
    return st.lists(a_pass, min_size=1, max_size=4).map(",".join)


def mutated(base):
    """One or two character-level edits of a near-valid string."""
    edit = st.tuples(st.integers(0, 200), st.sampled_from(["del", "ins", "dup", "swap"]),
                     st.one_of(st.sampled_from(TOKENS), st.characters(codec="utf-8")))

    def apply(args):
        s, edits = args
        for pos, op, tok in edits:
            i = pos % (len(s) + 1)
            if op == "del":
                s = s[:i] + s[i + 1:]
            elif op == "ins":
                s = s[:i] + tok + s[i:]
            elif op == "dup":
                s = s[:i] + s[i:i + 3] + s[i:]
            else:
                s = s[:i] + s[i + 1:i + 2] + s[i:i + 1] + s[i + 2:]
        return s
    return st.tuples(base, st.lists(edit, min_size=1, max_size=2)).map(apply)


def text_strategy(names, keys, pass_fields, recipes):
    tok = st.one_of(
        st.sampled_from(names),
        st.sampled_from(keys),
        st.sampled_from(TOKENS),
        st.integers(0, 10 ** 6).map(str),
        st.characters(codec="utf-8"),
        ident_strategy(),
    )
    structured = structured_text_strategy(pass_fields, recipes)
    return st.one_of(st.lists(tok, max_size=14).map("".join), st.text(max_size=12),
                     structured, structured, mutated(structured), mutated(structured))


def checks(h):
    reg = registry()
    reg_names = sorted(n for n in reg if not n.startswith("vt-syn-"))
    strategies = {}
    with_opts, without = [], []
    for n in reg_names:
        cls = reg[n]()
        if cls.name != n:
            raise AssertionError(f"registry name {n} != class name {cls.name}")
        (with_opts if option_fields(cls) else without).append(n)
        strategies[n] = pass_recipe_strategy(n, cls)
    for c in SYN_ALL:
        strategies[c.name] = pass_recipe_strategy(c.name, c)

    # (a) registered passes, sharded -----------------------------------------------------------
    for i, n in enumerate(without):
        if i % h.nshards != h.shard:
            continue
        for incl in (False, True):
            run_pass(h, {"pass": n, "opts": {}, "incl_default": incl}, "pass_no_options")
    n_pass = h.scale(150, 3000)
    for i, n in enumerate(with_opts):
        if i % h.nshards != h.shard:
            continue
        h.hyp(f"pass:{n}", strategies[n], lambda r: run_pass(h, r, "pass_with_options"), n_pass, 10 + i)

    # (b) synthetic classes ----------------------------------------------------------------------
    syn = st.sampled_from([c.name for c in SYN_ALL]).flatmap(lambda n: strategies[n])
    h.hyp("synthetic", syn, lambda r: run_pass(h, r, "synthetic"), h.scale(600, 12000), 1)

    # (c) pipelines ------------------------------------------------------------------------------
    pool = with_opts * 3 + [c.name for c in SYN_PASSES] * 3 + without[h.shard::h.nshards]
    one = st.sampled_from(pool).flatmap(lambda n: strategies[n]).map(
        lambda r: {"pass": r["pass"], "opts": r["opts"]})
    pipes = st.lists(one, max_size=5).map(lambda l: {"passes": l})
    h.hyp("pipeline", pipes, lambda r: run_pipeline(h, r, "pipeline"), h.scale(400, 8000), 2)

    # (d) ArgSpec level --------------------------------------------------------------------------
    h.hyp("argspec", argspec_strategy(), lambda r: run_argspec(h, r, "argspec"), h.scale(600, 12000), 3)

    # (e) arbitrary strings ----------------------------------------------------------------------
    keys = sorted({f for n in with_opts for f, _, _ in option_fields(reg[n]())}
                  | {f for c in SYN_PASSES for f, _, _ in option_fields(c)})
    keys += [k.replace("_", "-") for k in keys if "_" in k]
    names = with_opts * 2 + [c.name for c in SYN_PASSES] * 2 + without
    pass_fields = {n: [(f, t) for f, t, _ in option_fields(reg[n]())] for n in with_opts + without[:6]}
    pass_fields.update({c.name: [(f, t) for f, t, _ in option_fields(c)] for c in SYN_PASSES})
    h.hyp("text", text_strategy(names, keys, pass_fields, strategies).map(lambda s: {"s": s}),
          lambda r: run_text(h, r, "text"), h.scale(1100, 22000), 4)
