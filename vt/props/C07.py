"""C07 -- Parsing any text terminates promptly and fails only with diagnostics.

Recipes (plain JSON, dispatched on "kind"; every recipe may carry "entry": "module"|"attr"|"type"
and "unreg": bool):
  {"kind": "mut", "chunk": i, "muts": [[k, pos, payload], ...]}   corpus chunk SMALL[i] mutated at token level
  {"kind": "mut", "entry": "attr"|"type", "seed": i, "muts": ...} same over the ATTR_SEEDS / TYPE_SEEDS tables
  {"kind": "seq", "toks": [t, ...]}                                TOKENS[t] joined by " " (GLUE removes the blank)
  {"kind": "eof", "seed": i, "cut": k, "tail": j, "sep": 0|1}     EOF_SEEDS[i] cut at token boundary k + EOF_TAILS[j]
  {"kind": "text", "text": "..."}                                  literal input (known-finding witnesses, atheris)
Oracle: Parser(ctx, text).parse_module() + verify()  (or parse_attribute / parse_type) must end in
  IR | ParseError | DiagnosticException; any other exception = internal error (signature: type + innermost
  xdsl frame + caller in another file + message head); CPU time <= 1 s + 2 ms/char, otherwise the
  hang-confirmation protocol (confirm_hang) decides.
"""
from __future__ import annotations

import os
import re
import resource
import signal
import sys
import time
import traceback

from hypothesis import strategies as st

from vt.run import quiet

ID = "C07"
SHARDS = {"quick": 16, "thorough": 16}
RULE = ("(a) corpus chunks (*.mlir under tests/ and docs/, split on '// -----', <=3000 chars) and tables of "
        "attribute/type texts mutated at token level (insert/glue/delete/replace/duplicate/truncate/cut/append/"
        "swap/duplicate-span/strip-blanks, 1-4 edits) with a fixed table of grammar tokens, keywords, numeric edge "
        "lexemes, non-ASCII letters and digits, quotes and unterminated literals, prefixed identifiers, bracket "
        "runs; (b) sentences of a small context-free grammar of generic ops, regions, block labels, attributes, "
        "types, affine maps and locations (expanded from a list of integers) plus 0-3 random token edits, and "
        "uniformly random token sequences; (b') two exhaustive families: 'end of input' (37 short op/attribute/"
        "type texts cut at every token boundary and continued, glued or after a blank, with each of 39 "
        "incomplete lexemes such as 0x, 1e, \", @, %0#, loc(, so each is also the very end of an input) and "
        "'forward references' (graph-region modules in 4 wrappers whose operands, successors and block "
        "arguments are used before/after their definition: several result indices of one multi-result op, "
        "index out of range, same index twice, use/definition type mismatch; all u, ud, du, uud, udu "
        "line combinations; the same lines are also grammar non-terminals); (c) an atheris coverage-guided campaign (quick: 30 s next to shard 0, "
        "thorough: 8 min next to every shard) whose crash/time-out candidates are re-judged by the same plain "
        "oracle. Entry: Parser(ctx, text).parse_module()+verify(), parse_attribute(), parse_type() in a fresh "
        "Context with all dialects registered lazily (allow_unregistered from the recipe). Oracle: outcome is IR, "
        "ParseError(+subclasses) or DiagnosticException(+subclasses); RecursionError/MemoryError/"
        "NotImplementedError are counted as exclusions; any other exception is an internal error, signature = "
        "type + innermost xdsl frame (file:qualified function) + calling frame in another file + leading words "
        "of the message. Time: CPU budget 1 s + 2 ms/char per input (ITIMER_VIRTUAL); an over-budget input is "
        "re-measured 3 times and is a hang only if all re-runs are over budget and the growth is super-linear in "
        "the region the parser was working on (doubling it costs >=3x, or cutting it makes the input complete "
        ">=8x faster); signature = parser/lexer function that was executing. Non-trivial: text differs from every "
        "corpus chunk and the parser consumed at least one token. By construction (counted under "
        "excluded_by_construction): string literals the lexer regex cannot match are capped at 14 plain "
        "characters (known exponential regex, its witness is replayed un-capped), integer type widths are capped "
        "at 6 digits (value ranges of wider types allocate the width in bits per operation: memory-bound), "
        "bracket nesting is bounded at 40, the address space of the process at 1 GiB (-> MemoryError).")
ASSUMPTIONS = [
    "CPU time of the shard process (ITIMER_VIRTUAL / time.process_time) is the measure of 'time'; "
    "the parser does no blocking I/O",
    "PyRDLError, plain Exception and the other non-Diagnostic xdsl exception classes are internal errors when "
    "they escape the parser (xdsl-opt only reports ParseError and DiagnosticException)",
    "a fresh Context per input; every dialect module is imported once before the measurements start",
    "a hang needs 5 over-budget runs of the same input, each followed by a reference parse that runs at normal "
    "speed (otherwise: inconclusive 'machine_too_noisy_for_timing'); single over-budget runs are inconclusive",
]

PLAIN_CAP = 14       # plain characters allowed in a string literal the lexer regex cannot match
MAX_NEST = 40
MAX_LEN = 3000

# ------------------------------------------------------------------------------------------------
# token table (append only: recipes index into it)
GLUE = "\x00GLUE"
HUGE_INT = "9" * 4400          # beyond Python's default int<->str digit limit (4300)
TOKENS = [
    GLUE,
    # punctuation
    "(", ")", "{", "}", "[", "]", "<", ">", ",", ":", "=", "->", "-", "+", "*", "/", "?", "|", "...",
    ".", "..", "{-#", "#-}", "::", "x", "()", "[]", "{}", "<>", "<{", "}>", "({", "})", "):", "-> (",
    # keywords / bare identifiers
    "true", "false", "loc", "unit", "dense", "opaque", "array", "sparse", "dense_resource",
    "affine_map", "affine_set", "strided", "offset", "tensor", "memref", "vector", "tuple", "complex",
    "index", "i1", "i32", "i64", "si8", "ui16", "f16", "bf16", "f32", "f64", "f80", "f128", "none",
    "i0", "i99999999999", "func.func", "builtin.module", "module", "ceildiv", "floordiv", "mod",
    "symbol", "unknown", "callsite", "fused", "at", "to", "attributes", "private", "public", "step",
    "iter_args", "inf", "nan", "scalable", "xi32>", "2x3xf32", "?x?xi8", "[4]x", "return",
    "arith.constant", "arith.addi", "func.return", "scf.for", "scf.yield", "test.op", "d0", "s0",
    "a", "_", "a.b", "a$b", "builtin.int", "1x", "x1", "2x?x", "*x", "0x", "99999999999x",
    # quoted op names
    '"builtin.module"', '"test.op"', '"func.return"', '"arith.constant"', '"func.func"', '"test.termop"',
    '"unknown.op"', '"builtin.unregistered"', '"a"', '""',
    # numerics
    "0", "1", "-1", "42", "0x0", "0xFF", "0xG", "0X1F", "1e", "1e+", "1e5", "1.", "1.0", "1.5e10",
    "1.0e400", "1.e-400", "0xFFFFFFFFFFFFFFFFFFFF", "0x7F800000", "0x7FF0000000000001", "0x7C00",
    "18446744073709551616", "340282366920938463463374607431768211456", "9" * 40, HUGE_INT, "00",
    "0b1", "1_000", "-0", "-0.0", "- 1", "0.", ".5", "1e309", "4294967296", "-9223372036854775809",
    "0xFFFFFFFFFFFFFFFFFFFFFFFFFFFFFFFFFFFFFFFF", "0x1p3",
    # non-ASCII letters / digits / blanks / control characters
    "\u00e9", "\u00b2", "\u0663", "\uff13", "\u00bd", "\u2167", "x\u00b2", "%\u00e9", "@\u00e9",
    '"\u00e9"', "\u00a0", "\u2028", "\u00df", "_\u00e9", "\uff11\uff12", "%\u0663", "^\u00b2",
    "#\u00b2", "!\u00b2", "\U0001d7d8", "\ufeff", "\x00", "\x0b", "\x0c", "\r", "\t", "\n",
    "%\u00b2", "\u0663\u0663", "i\u0663\u0662", "\u0f33", "\u3007", "\U0001f600", "\ud7ff",
    # quotes, escapes, unterminated literals (short by construction)
    '"', '"abc"', '"abc', '"a\\"', '"\\q"', '"\\"', '"\\0"', '"\\00"', '"\\FF"', '"\\C3\\A9"',
    '"\\80"', '"a\nb"', '@"', '@"sym"', '@""', '@"\\FF"', "'", "`", '"\\n\\t\\\\\\""', '"\\',
    '"a\\0', '"\\FFabc"', '"%s"',
    # prefixed identifiers
    "%0", "%0:", "%0:2", "%0#1", "%0#", "%a", "%-", "%.", "%", "%0#x", "%0#99999999999999999999",
    "%0:0", "%0:-1", "%0:99999999999", "%1", "%arg0", "%c0_i32", "%0, %1",
    "^0", "^0:", "^bb0", "^bb0:", "^bb0(", "^", "^-", "^bb_1", "^a.b", "^$", "^bb1", "^bb1:", "^1",
    "^-1:", "^.:", "^a-b:", "^bb0(%a : i32):",
    "@", "@a", "@a::@b", "@0", "@a::", "@a::@", '@"a"::@"b"', "@f",
    "#", "#a", "#a.b", "#a<", "#0", "#builtin.int<", "#loc", "#map", "#-", "#a.b<", "#builtin",
    "#test.attr", "#builtin.", "#.a", "#a..b", "#loc0", "#builtin.int<1>", "#builtin.unit",
    "!", "!a", "!a.b", "!a.b<", "!0", "!builtin.integer", "!llvm.ptr", "!llvm.struct<(", "!test.type<",
    "!builtin", "!builtin.", "!i32", "!test.type", '!test.type<"a">', "!builtin.index", "!-",
    # comments
    "//", "// -----", "// x\n", "//\n",
    # bracket runs
    "(" * 10, "[" * 10, "<" * 10, "{" * 10, ")" * 10, "]" * 10, ">" * 10, "}" * 10,
    "[[[[[[[[[[1]]]]]]]]]]", "((((((((((i32))))))))))", "tuple<tuple<tuple<tuple<i1>>>>",
    # fragments of well-formed IR
    '"test.op"() : () -> ()', '%0 = "test.op"() : () -> (i32)', '%0:2 = "test.op"() : () -> (i32, i32)',
    '"test.op"() {a = ', "} : () -> ()", '"test.op"() <{a = ', "}> : () -> ()", '"test.op"(%0) : (i32) -> ()',
    '"test.op"() ({', "}) : () -> ()", '"test.op"() [^bb0] : () -> ()', "builtin.module {",
    "func.func @f(%arg0: i32) -> i32 {", "%c = arith.constant 1 : i32", "dense<", "> : tensor<2xi32>",
    "> : tensor<2xf32>", "> : vector<2xf16>", "tensor<2xi32>", "memref<2xi32>", "memref<?xi32, ",
    "vector<[2]xi32>", "affine_map<(d0) -> (d0)>", "affine_map<(d0)[s0] -> (d0 + s0)>",
    "affine_set<(d0) : (d0 >= 0)>", "strided<[1], offset: 0>", "array<i32: 1, 2>", "array<i32>",
    "opaque<\"a\", \"0x00\">", "dense_resource<a>", "loc(unknown)", 'loc("a":1:1)', "loc(#loc)",
    'loc(fused["a", "b"])', 'loc(callsite("a" at "b"))', '"0x0102"', '"0xzz"', '"0x"', '"0x0"',
    "(i32) -> i32", "() -> ()", "complex<f32>", "tuple<i32, f32>", "i32, i32", ": i32", ": f32",
    ": index", ": f16", ": bf16", ": i1", ": i8", ": f64", "(1, 2)", "(1.0, 2.0)", "[1, 2]",
    "{a = 1 : i32}", "{a}", "= ", "attributes {", "#alias = ", "!alias = ", "{-# dialect_resources: {",
    "builtin: { a: \"0x08000000\" }", "} #-}", "sparse<", "[[0, 0]], [1]", "tensor<*xi32>",
    "tensor<2xi32, ", "memref<2xi32, strided<[1]>>", "memref<2xi32, 1 : i32>", "vector<0xi32>",
    "1 : i1", "2 : i1", "-1 : ui8", "256 : i8", "1.0 : i32", "1 : f32", "0x7FC00000 : f32",
    "0xFFFF : f16", "0x1 : f64", "0xFFFFFFFFFFFFFFFFFF : f64", "0x7FC0 : bf16", "1 : index",
    "true : i1", "1.0e400 : f32", "unit", ": none", ": tensor<2xi32>", ": vector<2xi1>",
    "(d0, d1)", "-> (d0 floordiv 0)", "-> (d0 mod 0)", "-> (d0 ceildiv 0)", "(d0)[s0]",
    "d0 * d0", "d0 + 1", "-d0", "d0 floordiv 2", "d0 == 0", "d0 >= 0", "d0 <= 0",
    "strided<[", "], offset: ", "offset: ?", "strided<[?, 1], offset: ?>",
    "2x", "?x", "2", "d1", "==", ">=", "<=", "@b", ")>",
    # forward references (graph-region style): uses of values / blocks / block arguments defined later
    '"test.op"(%x) : (i32) -> ()', '"test.op"(%x#0) : (i32) -> ()', '"test.op"(%x#1) : (i64) -> ()',
    '"test.op"(%x#0, %x#1) : (i32, i64) -> ()', '"test.op"(%x#1, %x#0) : (i64, i32) -> ()',
    '"test.op"(%x#0, %x#0) : (i32, i32) -> ()', '"test.op"(%x#2) : (i32) -> ()',
    '"test.op"(%x#1) : (i32) -> ()', '"test.op"(%x#0, %x#0) : (i32, i64) -> ()',
    '"test.op"(%y, %x#1) : (index, i64) -> ()', '"test.op"(%a0) : (i32) -> ()',
    '"test.termop"() [^fb] : () -> ()', '"test.termop"(%a0) [^fb, ^fb] : (i32) -> ()',
    '%z = "test.op"(%x#1, %z) : (i64, i32) -> (i32)', '"test.op"(%x#99999999999999999999) : (i32) -> ()',
    '"test.op"(%x#0, %x#1, %x#2) : (i32, i64, f32) -> ()',
    '%x:2 = "test.op"() : () -> (i32, i64)', '%x = "test.op"() : () -> (i32)',
    '%x:3 = "test.op"() : () -> (i32, i64, f32)', '%x, %y = "test.op"() : () -> (i32, index)',
    '%y = "test.op"() : () -> (index)', '%x:2 = "test.op"() : () -> (i64, i32)',
    '%x:0 = "test.op"() : () -> ()', "^fb(%a0 : i32):", "^fb(%a0 : i64, %x : i32):", "^fb:",
    '%x:2 = "test.op"(%x#1) : (i64) -> (i32, i64)', '"builtin.module"() ({',
]
FWD_USES = TOKENS[-28:-12]
FWD_DEFS = TOKENS[-12:-1]
FWD_WRAPS = [("", ""), ("builtin.module {", "}"), ('"test.op"() ({', "}) : () -> ()"),
             ('"builtin.module"() ({', "}) : () -> ()")]
TI = {}
for _i, _t in enumerate(TOKENS):
    TI.setdefault(_t, _i)
NTOK = len(TOKENS)

ATTR_SEEDS = [
    "1 : i32", "-1 : i8", "true", "1.0 : f32", "0x7FC00000 : f32", "1.5e10 : f64", "unit", '"abc"',
    '"a\\0Ab"', "[1 : i32, 2.0 : f32, \"a\"]", "{a = 1 : i32, b = [unit]}", "@sym", "@a::@b::@c",
    "dense<1> : tensor<2xi32>", "dense<[1, 2]> : tensor<2xi32>", "dense<[[1.0, 2.0], [3.0, 4.0]]> : tensor<2x2xf32>",
    "dense<\"0x01020304\"> : tensor<1xi32>", "dense<true> : tensor<2xi1>", "dense<(1.0, 2.0)> : tensor<1xcomplex<f32>>",
    "dense<[]> : tensor<0xi32>", "dense<0x7FC00000> : tensor<2xf32>", "dense<-1> : vector<4xi8>",
    "dense<1.0> : tensor<2xbf16>", "dense<[1, 2]> : tensor<2xindex>",
    "sparse<[[0, 0], [1, 1]], [1, 2]> : tensor<2x2xi32>", "opaque<\"dialect\", \"0xDEADBEEF\"> : tensor<4xi8>",
    "dense_resource<blob> : tensor<2xi32>", "array<i32: 1, 2, 3>", "array<f32: 1.0, 2.0>", "array<i1: true, false>",
    "array<i8>", "affine_map<(d0, d1)[s0] -> (d0 + s0, d1 floordiv 2, d0 mod 3)>", "affine_map<() -> ()>",
    "affine_set<(d0)[s0] : (d0 - s0 >= 0, d0 == 0)>", "affine_map<(d0) -> (d0 * 2 + 1, -d0, d0 ceildiv 4)>",
    "strided<[1, ?], offset: ?>", "strided<[]>", "loc(unknown)", "loc(\"file.mlir\":1:2)",
    "loc(\"name\"(\"f\":1:1))", "loc(fused<\"meta\">[unknown, \"a\":1:1])", "loc(callsite(\"a\" at \"b\":1:1))",
    "#builtin.int<1>", "#builtin.unit", "#test.attr", "#unknown.attr<1, [2], \"s\">", "#llvm.fastmath<fast>",
    "#llvm.linkage<external>", "#arith.fastmath<nnan, ninf>", "#builtin.signedness<signed>",
    "i32", "tensor<2xi32>", "(i32) -> f32", "#gpu<dim x>", "#gpu.address_space<global>",
    "#riscv.reg<a0>", "#stencil.index<[1, 2]>", "#hw.param.decl<\"p\": i32>", "#hw<innerNameRef @a::@b>",
    "dense<[1, 2, 3]> : vector<3xi32>",
    "1 : index", "0xFF : i8", "-0.0 : f16", "1e5 : f32", "18446744073709551615 : i64", "1 : ui1", "1 : si1",
    "#complex.number<:f32 1.0, 2.0>", "#memref_stream.stride_pattern<ub = [2], index_map = (d0) -> (d0)>",
    "#dlti.dl_entry<\"a\", 1 : i32>", "#csl<ptr_kind single>", "#varith.x", "#smt.bv<1> : !smt.bv<8>",
    "#transform<any_op>", "#emitc.opaque<\"x\">", "#tosa<x>", "#bufferization<layout_map_option identity_layout_map>",
]
TYPE_SEEDS = [
    "i32", "i1", "si8", "ui64", "index", "f16", "bf16", "f32", "f64", "f80", "f128", "none", "i0",
    "tensor<2x3xf32>", "tensor<?x?xi8>", "tensor<*xf32>", "tensor<2xi32, \"enc\">", "tensor<0xi1>",
    "memref<2xi32>", "memref<?x4xf32, strided<[4, 1], offset: ?>>", "memref<2xi32, affine_map<(d0) -> (d0)>, 1 : i32>",
    "memref<*xi32>", "memref<2xi32, 1>", "vector<4xi32>", "vector<[4]xi32>", "vector<2x[4]x8xf16>", "vector<i32>" ,
    "complex<f32>", "complex<i8>", "tuple<>", "tuple<i32, tuple<f32, index>>", "(i32, f32) -> (i1)", "() -> ()",
    "(i32) -> ((i32) -> i32)", "!builtin.index",
    "!llvm.ptr", "!llvm.struct<(i32, f32)>", "!llvm.struct<\"name\", (i32)>", "!llvm.array<4 x i32>",
    "!llvm.func<i32 (i32, ...)>", "!llvm.void", "!test.type<\"a\">", "!unknown.type<1, [a], {b}>",
    "!riscv.reg<a0>", "!riscv.freg", "!stencil.field<[0,4]x?xf32>", "!stencil.temp<?x?xf64>",
    "!gpu.async.token", "!pdl.operation", "!pdl.range<value>", "!transform.any_op", "!hw.array<4xi8>",
    "!hw.struct<a: i32, b: i1>", "!hw.inout<i1>", "!csl.ptr<i32, #csl<ptr_kind single>, #csl<ptr_const var>>",
    "!csl<dsd mem1d_dsd>", "!emitc.ptr<i32>", "!emitc.opaque<\"t\">", "!emitc.array<2xi32>", "!smt.bv<8>",
    "!smt.bool", "!seq.clock", "!mpi.request",
    "!x86.reg<rax>", "!arm.reg<x0>", "!snitch_stream.readable<!riscv.freg<ft0>>", "!stream.readable<i32>",
    "!memref_stream.readable<f32>", "!irdl.attribute", "!ptr_xdsl.ptr", "!bigint.bigint",
    "!accfg.state<\"a\">", "!accfg.token<\"a\">", "!llvm.ptr<1>", "!llvm.metadata", "!test.param_type<i32>",
    "#dmp.exchange<at [1, 0] size [1, 4] source offset [-1, 0] to [1, 0]>",
]


# end-of-input family: every seed is cut at every token boundary and continued with every incomplete lexeme,
# so that each lexeme also occurs as the very last characters of an input (append only)
EOF_TAILS = ["", "0x", "0", "1e", "1.", "1.0e", "1.0e+", "-", '"', '"\\', "@", '@"', "%", "%0#", "^", "#", "!",
             "<", "[", "(", "{", ":", "::", "->", "loc(", "dense<", "array<i32:", "0b", ".", "0X", "..", "//",
             "{-#", "x", "?", "=", ",", "*", "+"]
EOF_SEEDS = [
    ("module", '"test.op"() : () -> ()'),
    ("module", '%0 = "test.op"() {a = 1 : i32} : () -> (i32)'),
    ("module", "%0 = arith.constant 1 : i32"),
    ("module", "builtin.module { }"),
    ("module", "func.func @f(%a : i32) -> i32 { func.return %a : i32 }"),
    ("module", '"test.op"() ({ ^bb0(%a : i32): "test.termop"() [^bb0] : () -> () }) : () -> ()'),
    ("module", '"test.op"() <{p = dense<[1, 2]> : tensor<2xi32>}> : () -> ()'),
    ("module", '%0 = "test.op"() : () -> (i32) loc("f":1:2)'),
    ("module", "#a = affine_map<(d0) -> (d0)>"),
    ("module", "!t = tuple<i32>"),
    ("module", '%0:2 = "test.op"() : () -> (i32, i64) "test.op"(%0#1) : (i64) -> ()'),
    ("attr", "1 : i32"), ("attr", "1.0 : f32"), ("attr", "0x7FC00000 : f32"),
    ("attr", "dense<[1, 2]> : tensor<2xi32>"), ("attr", "array<i32: 1, 2>"), ("attr", '[1 : i32, "a"]'),
    ("attr", "{a = 1 : i32}"), ("attr", "@a::@b"), ("attr", "affine_map<(d0)[s0] -> (d0 + s0)>"),
    ("attr", "affine_set<(d0) : (d0 >= 0)>"), ("attr", "strided<[1, ?], offset: ?>"), ("attr", 'loc("a":1:1)'),
    ("attr", '"abc"'), ("attr", 'opaque<"d", "0x00"> : tensor<1xi8>'),
    ("attr", "sparse<[[0]], [1]> : tensor<2xi32>"), ("attr", "#builtin.int<1>"),
    ("attr", "dense_resource<a> : tensor<1xi32>"), ("attr", "dense<(1.0, 2.0)> : tensor<1xcomplex<f32>>"),
    ("type", "i32"), ("type", "tensor<2x?xf32>"), ("type", "memref<2xi32, strided<[1]>, 1 : i32>"),
    ("type", "vector<[4]x2xi8>"), ("type", "(i32, f32) -> (i1)"), ("type", "tuple<i32, complex<f32>>"),
    ("type", "!llvm.struct<(i32, f32)>"), ("type", '!test.type<"a">'),
]


def eof_boundaries(text):
    """End offsets of the prefixes of `text` that end at a token boundary (0 = empty prefix)."""
    ends, pos = [0], 0
    for t, blank in split_tokens(text):
        pos += len(t)
        if not blank:
            ends.append(pos)
    return ends


def eof_text(seed, cut, tail, sep):
    entry, text = EOF_SEEDS[seed % len(EOF_SEEDS)]
    ends = eof_boundaries(text)
    return entry, text[:ends[cut % len(ends)]] + (" " if sep else "") + EOF_TAILS[tail % len(EOF_TAILS)]


def fwd_tokens(wrap, lines):
    """Token indices of a module made of FWD_USES/FWD_DEFS lines (index into uses + defs) in wrapper `wrap`."""
    pool = FWD_USES + FWD_DEFS
    w = FWD_WRAPS[wrap % len(FWD_WRAPS)]
    toks = [TI[w[0]]] if w[0] else []
    toks += [TI[pool[int(i) % len(pool)]] for i in lines]
    if w[1]:
        toks.append(TI[w[1]])
    return toks


# ------------------------------------------------------------------------------------------------
# corpus
_SMALL = None
_ALLTEXT = None


def small_chunks():
    """Sorted list of corpus chunk texts of at most MAX_LEN characters."""
    global _SMALL, _ALLTEXT
    if _SMALL is None:
        from vt.corpus import chunks
        cs = sorted(chunks(), key=lambda c: (c[0], c[1]))
        _ALLTEXT = {c[2] for c in cs}
        _SMALL = [c[2] for c in cs if len(c[2]) <= MAX_LEN]
        if not _SMALL:
            raise AssertionError("corpus is empty")
    return _SMALL


def corpus_texts():
    small_chunks()
    return _ALLTEXT


# ------------------------------------------------------------------------------------------------
# my own (crude, total) tokenizer used only to choose mutation points
_TOK = re.compile(
    r'(?P<ws>\s+|//[^\n]*)'
    r'|(?P<str>"(?:[^"\\\n]|\\.)*"?)'
    r'|(?P<num>0x[0-9a-fA-F]+|[0-9]+(?:\.[0-9]*(?:[eE][+-]?[0-9]+)?)?)'
    r'|(?P<id>[%^@#!]?[A-Za-z_$.][A-Za-z0-9_$.]*|[%^#!][0-9]+)'
    r'|(?P<p>->|\.\.\.|\{-\#|\#-\}|.)', re.S)


def split_tokens(text):
    """-> list of [text, is_blank]; the concatenation of the texts is the input."""
    out = []
    for m in _TOK.finditer(text):
        out.append([m.group(0), m.lastgroup == "ws"])
    return out


def _payload(p):
    t = TOKENS[p % NTOK]
    return "" if t == GLUE else t


def mutate(text, muts):
    toks = split_tokens(text)
    for mut in muts:
        kind, pos, pay = int(mut[0]), int(mut[1]), int(mut[2])
        live = [i for i, t in enumerate(toks) if not t[1]]
        if not live:
            toks = [[_payload(pay), False]]
            continue
        i = live[min(len(live) - 1, pos * len(live) // 10000)]
        k = kind % 11
        if k == 0:      # insert with blanks
            toks[i:i] = [[" ", True], [_payload(pay), False], [" ", True]]
        elif k == 1:    # insert glued
            toks[i:i] = [[_payload(pay), False]]
        elif k == 2:    # delete
            del toks[i]
        elif k == 3:    # replace
            toks[i] = [_payload(pay), False]
        elif k == 4:    # duplicate
            toks[i:i] = [[toks[i][0], False], [" ", True]]
        elif k == 5:    # truncate after token i
            del toks[i + 1:]
        elif k == 6:    # drop the last character of token i
            toks[i] = [toks[i][0][:-1], False]
        elif k == 7:    # append payload to token i (glued)
            toks[i] = [toks[i][0] + _payload(pay), False]
        elif k == 8:    # swap with next live token
            j = live.index(i)
            if j + 1 < len(live):
                i2 = live[j + 1]
                toks[i], toks[i2] = toks[i2], toks[i]
        elif k == 9:    # duplicate a span of tokens
            j = min(len(toks), i + 1 + pay % 12)
            toks[i:i] = [list(t) for t in toks[i:j]] + [[" ", True]]
        else:           # strip blanks around token i
            if i + 1 < len(toks) and toks[i + 1][1] and not toks[i + 1][0].startswith("//"):
                del toks[i + 1]
            if i > 0 and toks[i - 1][1] and not toks[i - 1][0].startswith("//"):
                del toks[i - 1]
    return "".join(t[0] for t in toks)


def join_tokens(idx):
    out = []
    glue = True
    for t in idx:
        s = TOKENS[int(t) % NTOK]
        if s == GLUE:
            glue = True
            continue
        if not glue:
            out.append(" ")
        out.append(s)
        glue = False
    return "".join(out)


# ------------------------------------------------------------------------------------------------
# by-construction bounds: unmatched string literals (known exponential regex) and nesting depth
_STR_ELEM = re.compile(r'[^"\\\n\v\f]|\\(?:["nt\\]|[0-9A-Fa-f]{2})')
_NEXT_INTERESTING = re.compile(r'"|//')


def first_unmatched_string(text, start=0):
    """Follow the lexer over comments and string literals. Return (quote_pos, fail_pos, cut_pos, plain) of the
    first literal that MLIRLexer._unescaped_characters_regex cannot match: `plain` is the number of
    un-escaped characters between the quote and the failure point (the regex backtracks over every way to
    split them), `cut_pos` the element boundary after PLAIN_CAP of them. None if all literals match."""
    i, n = start, len(text)
    while True:
        m = _NEXT_INTERESTING.search(text, i)
        if m is None:
            return None
        i = m.start()
        if m.group(0) == "//":
            k = text.find("\n", i)
            if k < 0:
                return None
            i = k + 1
            continue
        j, plain, cut = i + 1, 0, None
        while True:
            if j < n and text[j] == '"':
                j += 1
                break
            e = _STR_ELEM.match(text, j)
            if e is None:
                return (i, j, cut if cut is not None else j, plain)
            if e.end() - j == 1:
                plain += 1
                if plain == PLAIN_CAP:
                    cut = e.end()
            j = e.end()
        i = j


def cap_unmatched_strings(text):
    """-> (text', n_capped). Shorten every unmatched literal to PLAIN_CAP plain characters."""
    capped = 0
    for _ in range(64):
        r = first_unmatched_string(text)
        if r is None or r[3] <= PLAIN_CAP:
            return text, capped
        q, fail, cut, plain = r
        text = text[:cut] + text[fail:]
        capped += 1
    raise AssertionError("cap_unmatched_strings did not converge")


_STRIP = re.compile(r'"(?:[^"\\\n]|\\.)*"?|//[^\n]*')
_WIDE_INT_TYPE = re.compile(r'(?<![A-Za-wyz0-9_$.])([su]?i)([0-9]{6})[0-9]+(?![0-9])')


def cap_integer_widths(text):
    """-> (text', n). Integer types wider than 6 digits (iN, siN, uiN with N >= 10^6; MLIR's limit is 2^24)
    outside string literals and comments are cut to 6 digits: building their value range allocates N bits per
    big-int operation, so the cost follows the width written in the text (memory-bound: seconds on a loaded
    machine from 10^7 bits on, un-interruptible when N approaches the memory limit; see known_findings/proposed_fixes/C07-16.diff)."""
    out, pos, n = [], 0, 0
    for m in _STRIP.finditer(text):
        seg, k = _WIDE_INT_TYPE.subn(r"\1\2", text[pos:m.start()])
        out.append(seg)
        out.append(m.group(0))
        n += k
        pos = m.end()
    seg, k = _WIDE_INT_TYPE.subn(r"\1\2", text[pos:])
    out.append(seg)
    return "".join(out), n + k


def nesting_depth(text):
    d = best = 0
    for c in _STRIP.sub("", text):
        if c in "([{<":
            d += 1
            if d > best:
                best = d
        elif c in ")]}>":
            d = max(0, d - 1)
    return best


# ------------------------------------------------------------------------------------------------
# running the code under test
class _Timeout(BaseException):
    def __init__(self, site, which, where="-"):
        super().__init__(site)
        self.site, self.which, self.where = site, which, where


_XDSL_DIR = None


def _xdsl_dir():
    global _XDSL_DIR
    if _XDSL_DIR is None:
        import xdsl
        _XDSL_DIR = os.path.dirname(os.path.abspath(xdsl.__file__)) + os.sep
    return _XDSL_DIR


def _site_of(filename, func):
    d = _xdsl_dir()
    if filename.startswith(d):
        return "xdsl/" + filename[len(d):].replace(os.sep, "/") + ":" + func
    return None


_PARSER_FILES = ("xdsl/parser/", "xdsl/utils/mlir_lexer.py")


def _on_alarm(signum, frame):
    """site: innermost xdsl frame at the interrupt (varies inside a loop); where: innermost frame of the
    parser/lexer, i.e. what the parser was doing (stable); 'verify' if the parse had finished."""
    site = where = None
    f = frame
    while f is not None:
        s = _site_of(f.f_code.co_filename, f.f_code.co_qualname)
        if s is not None:
            if site is None:
                site = s
            if where is None and s.startswith(_PARSER_FILES):
                where = s
            if where is None and s.startswith("xdsl/ir/core.py:") and s.endswith(".verify"):
                where = "verify"
        f = f.f_back
    raise _Timeout(site or "<outside xdsl>", "cpu" if signum == signal.SIGVTALRM else "wall", where or "-")


_SETUP = False
_WALL_BACKSTOP = True     # off inside the libFuzzer process (libFuzzer owns SIGALRM)


def _setup_process():
    global _SETUP
    if _SETUP:
        return
    _SETUP = True
    signal.signal(signal.SIGVTALRM, _on_alarm)
    if _WALL_BACKSTOP:
        signal.signal(signal.SIGALRM, _on_alarm)
    # a shape such as tensor<99999999999xi8> must end in MemoryError, not in swapping the machine
    try:
        soft, hard = resource.getrlimit(resource.RLIMIT_AS)
        want = 1 << 30     # (a shard with every dialect loaded has a virtual size of ~80 MB)
        if soft == resource.RLIM_INFINITY or soft > want:
            resource.setrlimit(resource.RLIMIT_AS, (want, hard))
    except (ValueError, OSError):  # pragma: no cover
        pass
    _xdsl_dir()
    # import every dialect once (in the parent, before the shards fork): a lazily loaded dialect costs up to
    # a second of compile time, which must not be charged to the first input that mentions it
    from xdsl.dialects import get_all_dialects
    with quiet():
        for _name, factory in sorted(get_all_dialects().items()):
            factory()
    small_chunks()


def budget(n):
    return 1.0 + 0.002 * n


class Outcome:
    __slots__ = ("status", "type", "site", "via", "msg", "msgclass", "cpu", "consumed", "lexpos", "tb")

    def __init__(self):
        self.status = self.type = self.site = self.via = self.msg = self.msgclass = self.tb = None
        self.cpu = 0.0
        self.consumed = False
        self.lexpos = 0

    def __repr__(self):
        return f"Outcome({self.status}, {self.type}, {self.site}, cpu={self.cpu:.3f}, consumed={self.consumed})"


def run_once(entry, text, unreg=True, cap=None):
    """Parse `text` once under a CPU-time cap. Never raises for anything the code under test does."""
    from xdsl.parser import Parser
    from xdsl.utils.exceptions import DiagnosticException, ParseError

    from vt.corpus import make_ctx
    _setup_process()
    if cap is None:
        cap = budget(len(text))
    o = Outcome()
    ctx = make_ctx(unreg)
    box = {}
    t0 = time.process_time()
    try:
        try:
            if _WALL_BACKSTOP:
                signal.setitimer(signal.ITIMER_REAL, 30.0 + 20.0 * cap)   # backstop only
            signal.setitimer(signal.ITIMER_VIRTUAL, cap)
            with quiet():
                p = Parser(ctx, text)
                box["p"] = p
                box["first"] = p._parser_state.current_token
                if entry == "module":
                    m = p.parse_module()
                    m.verify()
                elif entry == "attr":
                    p.parse_attribute()
                elif entry == "type":
                    p.parse_type()
                else:
                    raise AssertionError(entry)
            o.status = "ok"
        finally:
            signal.setitimer(signal.ITIMER_VIRTUAL, 0)
            if _WALL_BACKSTOP:
                signal.setitimer(signal.ITIMER_REAL, 0)
    except _Timeout as t:
        signal.setitimer(signal.ITIMER_VIRTUAL, 0)
        if _WALL_BACKSTOP:
            signal.setitimer(signal.ITIMER_REAL, 0)
        o.status = "timeout" if t.which == "cpu" else "wall_timeout"
        o.site, o.via = t.site, t.where
    except ParseError as e:
        o.status, o.type = "parse_error", type(e).__name__
    except DiagnosticException as e:
        o.status, o.type = "diagnostic", type(e).__name__
    except (RecursionError, MemoryError, NotImplementedError) as e:
        o.status, o.type = "excluded", type(e).__name__
    except Exception as e:
        _crash(o, e)
    o.cpu = time.process_time() - t0
    p = box.get("p")
    if p is not None:
        try:
            o.consumed = p._parser_state.current_token is not box["first"]
            o.lexpos = int(p._parser_state.lexer.pos)
        except Exception:  # pragma: no cover
            pass
    return o


def _innermost(e):
    """-> (site, line, via): innermost xdsl frame, and the innermost xdsl frame in a different file (the code
    that called into the file of `site`: tells a dialect's verifier apart when the raise is in shared code)."""
    frames = []
    tb = e.__traceback__
    while tb is not None:
        code = tb.tb_frame.f_code
        s = _site_of(code.co_filename, code.co_qualname)
        if s is not None:
            frames.append((s, tb.tb_lineno))
        tb = tb.tb_next
    if not frames:
        return None, None, None
    site, line = frames[-1]
    via = "-"
    for s, _ in reversed(frames):
        if s.split(":")[0] != site.split(":")[0]:
            via = s
            break
    return site, line, via


_MSG_HEAD = re.compile(r"(?:[A-Za-z ,.-]|(?<=[a-z])'(?=[a-z]\b))*")


def _msg_class(e):
    """Input-independent head of the exception message (its leading words, up to the first digit, quote or
    bracket): tells root causes apart that share a raise site."""
    s = (str(e).splitlines() or [""])[0]
    return _MSG_HEAD.match(s).group(0)[:60].strip()


def _crash(o, e):
    site, line, via = _innermost(e)
    if site is None:
        raise e  # not raised by the code under test: harness error
    o.status, o.type, o.site, o.via = "crash", type(e).__name__, site, via
    o.msgclass = _msg_class(e)
    o.msg = f"{type(e).__name__}: {str(e)[:300]} (at {site} line {line})"
    o.tb = "".join(traceback.format_exception(type(e), e, e.__traceback__)[-6:])[-1500:]


# ---- hang confirmation -------------------------------------------------------------------------
def _region(text, lexpos):
    """The stretch of input the lexer/parser was working on when interrupted: from the start of the
    blank-delimited word that holds the last character the lexer consumed, to the end of that line
    (at most 256 characters)."""
    p = max(0, min(len(text) - 1, lexpos - 1))
    while p > 0 and text[p].isspace():
        p -= 1
    a = p
    while a > 0 and not text[a - 1].isspace():
        a -= 1
    b = text.find("\n", p)
    b = len(text) if b < 0 else b
    b = min(b, a + 256)
    if b <= a:
        b = min(len(text), a + 1)
    return a, b


_CALIBRATION_TEXT = '%0 = "test.op"() {a = dense<[1, 2]> : tensor<2xi32>} : () -> (i32)'
CALIBRATION_LIMIT = 0.05    # CPU seconds; the reference parse normally takes ~0.0005 s


def machine_is_steady():
    """Time claims are only made while a fixed reference parse runs at (roughly) its normal speed: on a
    starved virtual machine the CPU clock of a process has been seen to advance by seconds during a parse
    that normally takes a millisecond, several times in a row."""
    return run_once("module", _CALIBRATION_TEXT, True, cap=30.0).cpu <= CALIBRATION_LIMIT


def _confirm_hang(entry, text, unreg, first):
    """first: the over-budget Outcome. -> ("hang", site, detail) | ("inconclusive", label, detail)

    1. re-measure alone three times (the third run with twice the budget, to obtain a complete time):
       any run within budget -> inconclusive;
    2. growth must be super-linear in the region the parser was working on: doubling the region costs at
       least 3x the complete time, or cutting the region (by halves) makes the input complete at least
       8x faster than the budget it exceeded. Neither -> inconclusive."""
    T = budget(len(text))
    site, lexpos = (first.site, first.via), first.lexpos
    full = None
    for k in range(3):
        o = run_once(entry, text, unreg, cap=T if k < 2 else 2 * T)
        if o.status == "wall_timeout":
            return ("inconclusive", "wall_clock_backstop", "")
        if o.status != "timeout":
            if o.cpu <= T:
                return ("inconclusive", "over_budget_not_reproduced", o)
            full = o.cpu
        else:
            site, lexpos = (o.site, o.via), o.lexpos
        if not machine_is_steady():
            return ("inconclusive", "machine_too_noisy_for_timing", "")
    a, b = _region(text, lexpos)
    reg = text[a:b]
    head = (f"{full:.2f}s" if full is not None else f"> {2 * T:.2f}s") + \
        f" CPU for {len(text)} chars (budget {T:.2f}s, over budget in 4 runs of 4)"
    if full is not None:
        o = run_once(entry, text[:a] + reg + reg + text[b:], unreg, cap=3.0 * full)
        if o.status == "timeout" or (o.status != "wall_timeout" and o.cpu >= 3.0 * full):
            return ("hang", site, f"{head}; with the {len(reg)}-char region at offset {a} doubled: "
                    f">= {3.0 * full:.2f}s")
    cur = reg
    for _ in range(8):
        half = cur[:len(cur) // 2]
        if half == cur:
            break
        o = run_once(entry, text[:a] + half + text[b:], unreg, cap=T)
        if o.status == "wall_timeout":
            break
        if o.status != "timeout":
            if (full or T) / max(o.cpu, 0.01) >= 8.0:
                return ("hang", site, f"{head}; with the region at offset {a} cut from {len(cur)} to "
                        f"{len(half)} chars it completes in {o.cpu:.3f}s")
            return ("inconclusive", "slow_but_linear", f"half region {o.cpu:.2f}s")
        cur = half
    return ("inconclusive", "hang_region_not_found", f"site {site} lexpos {lexpos}")


def confirm_hang(entry, text, unreg, first):
    """_confirm_hang, and for a 'hang' verdict one last over-budget run of the unchanged input, bracketed by
    two steady reference parses (the growth evidence was collected after the re-measurements)."""
    res = _confirm_hang(entry, text, unreg, first)
    if res[0] == "hang":
        if not machine_is_steady():
            return ("inconclusive", "machine_too_noisy_for_timing", "")
        o = run_once(entry, text, unreg)
        if o.status != "timeout":
            return ("inconclusive", "over_budget_not_reproduced", o) if o.cpu <= budget(len(text)) else \
                ("inconclusive", "slow_but_linear", "final run completed")
        if not machine_is_steady():
            return ("inconclusive", "machine_too_noisy_for_timing", "")
    return res


# ------------------------------------------------------------------------------------------------
def build(recipe):
    """-> (entry, unreg, text)"""
    kind = recipe["kind"]
    entry = recipe.get("entry", "module")
    unreg = bool(recipe.get("unreg", True))
    if kind == "text":
        text = recipe["text"]
    elif kind == "seq":
        text = join_tokens(recipe["toks"])
    elif kind == "eof":
        entry, text = eof_text(int(recipe["seed"]), int(recipe["cut"]), int(recipe["tail"]), int(recipe["sep"]))
    elif kind == "mut":
        if entry == "module":
            cs = small_chunks()
            base = cs[int(recipe["chunk"]) % len(cs)]
        elif entry == "attr":
            base = ATTR_SEEDS[int(recipe["seed"]) % len(ATTR_SEEDS)]
        else:
            base = TYPE_SEEDS[int(recipe["seed"]) % len(TYPE_SEEDS)]
        text = mutate(base, recipe["muts"])
    else:
        raise AssertionError(kind)
    return entry, unreg, text


def judge(h, recipe, raw=False, regression=False, distinct=False, label=None):
    """Plain oracle on one recipe. raw=True (replay of literal witnesses): no by-construction capping.
    regression=True: a committed replay, not a generated case (not counted as non-trivial coverage)."""
    entry, unreg, text = build(recipe)
    kind = recipe["kind"]
    if not raw:
        text2, ncap = cap_unmatched_strings(text)
        if ncap:
            h.exclude("unmatched_string_literal_capped_to_%d_chars" % PLAIN_CAP)
            text = text2
        text2, ncap = cap_integer_widths(text)
        if ncap:
            h.exclude("integer_type_width_capped_to_6_digits")
            text = text2
        if nesting_depth(text) > MAX_NEST:
            h.exclude("nesting_deeper_than_%d" % MAX_NEST)
            return
    try:
        text.encode("utf-8")
    except UnicodeEncodeError:
        h.exclude("lone_surrogate_not_a_text")
        return
    o = run_once(entry, text, unreg)
    nt = o.consumed and text not in corpus_texts() and not regression
    label = f"{'replay' if regression else (label or kind)}:{entry}:{o.status}"
    h.case(recipe, nt, label=label, distinct=distinct,
           sample={"recipe": recipe, "text": text[:300], "outcome": o.status})
    if o.status == "excluded":
        h.exclude(o.type)
    elif o.status == "wall_timeout":
        h.inconclusive("wall_clock_backstop")
    elif o.status == "crash":
        h.mismatch({"check": "exception", "type": o.type, "site": o.site, "via": o.via, "msg": o.msgclass},
                   recipe,
                   f"{o.msg}\ninput ({len(text)} chars, entry={entry}, allow_unregistered={unreg}): "
                   f"{text[:400]!r}\n{o.tb}")
    elif o.status == "timeout":
        verdict, what, detail = confirm_hang(entry, text, unreg, o)
        if verdict == "hang":
            h.mismatch({"check": "time", "site": what[0], "in": what[1]}, recipe,
                       f"{detail}\ninput ({len(text)} chars, entry={entry}): {text[:400]!r}")
        else:
            h.inconclusive(what)
            if what == "over_budget_not_reproduced":
                o = detail      # the re-run that completed within budget: judge its outcome instead
                if o.status == "excluded":
                    h.exclude(o.type)
                elif o.status == "crash":
                    h.mismatch({"check": "exception", "type": o.type, "site": o.site, "via": o.via,
                                "msg": o.msgclass}, recipe,
                               f"{o.msg}\ninput ({len(text)} chars, entry={entry}, allow_unregistered={unreg}): "
                               f"{text[:400]!r}\n{o.tb}")
    return o


def replay(h, recipe):
    judge(h, recipe, raw=(recipe.get("kind") == "text"), regression=True)


# ------------------------------------------------------------------------------------------------
# generators
# (b) a small context-free grammar of near-valid text. Symbols: "$name" non-terminal, "$name?" optional,
# "$name*" 0..3 juxtaposed, "$name*," 0..3 comma separated, "$name+," 1..3 comma separated; anything else is
# a terminal that must be in TOKENS. The first alternative of a non-terminal must not be recursive (it is
# taken beyond depth GRAMMAR_DEPTH). A sentence is expanded deterministically from a list of integers
# (the choices Hypothesis draws and shrinks); the recipe holds the resulting token indices.
GRAMMAR_DEPTH = 9


def _alts(*words):
    return [[w] for w in words]


GRAMMAR = {
    "int": _alts("0", "1", "-1", "42", "0x0", "0xFF", "0X1F", "0xFFFFFFFFFFFFFFFFFFFF", "0x7F800000",
                 "0x7FF0000000000001", "0x7C00", "18446744073709551616", "00", "-0", "4294967296",
                 "-9223372036854775809", "true", "false", "\u00b2", "\u0663", "\uff13", "9" * 40,
                 "0xFFFFFFFFFFFFFFFFFFFFFFFFFFFFFFFFFFFFFFFF", "340282366920938463463374607431768211456", "2"),
    "float": _alts("1.0", "1.", "1e5", "1.5e10", "1.0e400", "1.e-400", "-0.0", "0.", "1e309", "1e", "1e+",
                   "inf", "nan"),
    "num": [["$int"], ["$float"], ["-", "$int"], ["-", "$float"]],
    "scalar": _alts("i32", "i1", "i64", "si8", "ui16", "f16", "bf16", "f32", "f64", "f80", "f128", "index",
                    "none", "i0", "i99999999999", "complex<f32>"),
    "dim": [["2x", GLUE], ["1x", GLUE], ["?x", GLUE], ["*x", GLUE], ["0x", GLUE], ["[4]x", GLUE],
            ["99999999999x", GLUE], ["2x?x", GLUE]],
    "str": _alts('"abc"', '""', '"a"', '"\\FF"', '"\\C3\\A9"', '"\\80"', '"0x0102"', '"0xzz"', '"0x"', '"0x0"',
                 '"\u00e9"', '"\\n\\t\\\\\\""', '"\\q"', '"\\0"', '"abc', '"%s"'),
    "ident": _alts("a", "_", "a.b", "a$b", "d0", "s0", "x", "\u00e9", "_\u00e9", "true", "loc", "dense"),
    "key": [["$ident"], ["$str"]],
    "shapedkw": _alts("tensor", "memref", "vector"),
    "type": [["$scalar"], ["$scalar"],
             ["$shapedkw", "<", GLUE, "$dim*", "$scalar", GLUE, ">"],
             ["$shapedkw", "<", GLUE, "$dim*", "$type", GLUE, ">"],
             ["$shapedkw", "<", GLUE, "$dim*", "$scalar", ",", "$attr", ">"],
             ["memref", "<", GLUE, "$dim*", "$scalar", ",", "$attr", ",", "$attr", ">"],
             ["tuple", "<", "$type*,", ">"], ["complex", "<", "$type", ">"],
             ["(", "$type*,", ")", "->", "$type"], ["(", "$type*,", ")", "->", "(", "$type*,", ")"],
             ["$dtype"], ["$dtypeopen", "$attr*,", "$dtypeclose"]],
    "dtype": _alts("!a", "!a.b", "!test.type", "!builtin.index", "!llvm.ptr", "!builtin", "!i32", "!0",
                   "!\u00b2", '!test.type<"a">'),
    "dtypeopen": _alts("!a.b<", "!test.type<", "!llvm.struct<("),
    "dtypeclose": _alts(">", ")>", ")"),
    "tlit": [["$num"], ["$num"], ["[", "$tlit*,", "]"], ["(", "$num", ",", "$num", ")"], ["$str"]],
    "aff": [["d0"], ["s0"], ["0"], ["1"], ["-1"], ["2"], ["d1"], ["$aff", "$affop", "$aff"], ["(", "$aff", ")"],
            ["-", "$aff"]],
    "affop": _alts("+", "-", "*", "floordiv", "ceildiv", "mod"),
    "affcmp": _alts("==", ">=", "<="),
    "affid": _alts("d0", "s0", "a", "d1"),
    "dims": [["(", "$affid*,", ")"]],
    "syms": [[], ["[", "$affid*,", "]"]],
    "affconstr": [["$aff", "$affcmp", "$aff"]],
    "loc": [["loc(unknown)"], ['loc("a":1:1)'], ["loc(#loc)"], ["loc", "(", "$locbody", ")"]],
    "locbody": [["unknown"], ["$str", ":", "$int", ":", "$int"], ["$str", "(", "$loc", ")"],
                ["fused", "[", "$locbody*,", "]"], ["fused", "<", "$attr", ">", "[", "$locbody*,", "]"],
                ["callsite", "(", "$locbody", "at", "$locbody", ")"], ["#loc"], ["#a"], ["#0"], ["$str"]],
    "stride": [["$int"], ["?"]],
    "symref": [["$symroot", "$symnest*"]],
    "symroot": _alts("@a", "@f", '@"sym"', "@0", "@", '@""', "@\u00e9", '@"\\FF"'),
    "symnest": [[GLUE, "::", GLUE, "@a"], [GLUE, "::", GLUE, "@b"], [GLUE, "::", GLUE, '@"sym"'],
                [GLUE, "::", GLUE, "@"]],
    "dattr": _alts("#a", "#a.b", "#builtin.unit", "#test.attr", "#loc", "#map", "#0", "#builtin", "#\u00b2",
                   "#builtin.int<1>"),
    "dattropen": _alts("#a<", "#a.b<", "#builtin.int<"),
    "entry": [["$key", "=", "$attr"], ["$key"]],
    "attr": [["$num", ":", "$type"], ["$num"], ["$str"], ["unit"], ["$type"], ["$loc"],
             ["[", "$attr*,", "]"], ["{", "$entry*,", "}"],
             ["dense", "<", "$tlit", ">", ":", "$type"], ["dense", "<", ">", ":", "$type"],
             ["sparse", "<", "$tlit", ",", "$tlit", ">", ":", "$type"],
             ["opaque", "<", "$str", ",", "$str", ">", ":", "$type"],
             ["dense_resource", "<", "$key", ">", ":", "$type"],
             ["array", "<", "$scalar", ":", "$num*,", ">"], ["array", "<", "$scalar", ">"],
             ["affine_map", "<", "$dims", "$syms", "->", "(", "$aff*,", ")", ">"],
             ["affine_set", "<", "$dims", "$syms", ":", "(", "$affconstr*,", ")", ">"],
             ["strided", "<", "[", "$stride*,", "]", ">"],
             ["strided", "<", "[", "$stride*,", "]", ",", "offset", ":", "$stride", ">"],
             ["$symref"], ["$dattr"], ["$dattropen", "$attr*,", ">"]],
    "ssa": _alts("%0", "%1", "%a", "%arg0", "%0#1", "%0#", "%0#x", "%0#99999999999999999999", "%\u00e9",
                 "%\u00b2", "%\u0663", "%-", "%.", "%"),
    "resname": _alts("%0", "%0:2", "%0:0", "%0:-1", "%0:99999999999", "%0:", "%a", "%0, %1", "%\u0663", "%1"),
    "res": [[], [], ["$resname", "="]],
    "opname": _alts('"test.op"', '"unknown.op"', '"builtin.module"', '"func.return"', '"arith.constant"',
                    '"func.func"', '"test.termop"', '"builtin.unregistered"', '"a"', '""', '"abc'),
    "succ": _alts("^bb0", "^0", "^bb1", "^1", "^-", "^a.b"),
    "succs": [[], [], ["[", "$succ*,", "]"]],
    "props": [[], [], ["<{", "$entry*,", "}>"]],
    "regions": [[], [], ["(", "$region+,", ")"]],
    "attrdict": [[], ["{", "$entry*,", "}"]],
    "restypes": [["$type"], ["(", "$type*,", ")"]],
    "op": [["$res", "$opname", "(", "$ssa*,", ")", "$succs", "$props", "$regions", "$attrdict", ":",
            "(", "$type*,", ")", "->", "$restypes", "$loc?"]],
    "blockarg": [["$ssa", ":", "$type", "$loc?"]],
    "label": [["^bb0:"], ["^0:"], ["^bb1:"], ["^-1:"], ["^.:"], ["^a-b:"], ["^bb0(%a : i32):"], ["^\u00b2"],
              ["$labelname", ":"], ["$labelname", "(", "$blockarg*,", ")", ":"]],
    "labelname": _alts("^bb0", "^0", "^1", "^bb_1", "^a.b", "^$", "^-", "^"),
    "block": [["$op*"], ["$label", "$op*"]],
    "region": [["{", "$block*", "}"]],
    "aliasname": _alts("#alias = ", "!alias = ", "#a", "!a", "#map", "#loc"),
    "eq": [[], ["="]],
    "vis": [[], ["private"], ["public"]],
    "funcarg": [["$ssa", ":", "$type"]],
    "funcres": [[], ["->", "$type"]],
    "top1": [["$op"], ["$op"], ["$op"],
             ["$aliasname", "$eq", "$attr"],
             ["builtin.module", "$region"], ["builtin.module", "@a", "attributes {", "a", "=", "$attr", "}", "$region"],
             ["func.func", "$vis", "$symroot", "(", "$funcarg*,", ")", "$funcres", "$region?"],
             ["$res", "arith.constant", "$attr"], ["$res", "arith.constant", "$num", ":", "$type"],
             ["{-# dialect_resources: {", "builtin: { a: \"0x08000000\" }", "} #-}"]],
    "module": [["$top1"], ["$top1", "$top1"], ["$top1", "$top1", "$top1"], ["$fwdmod"], ["$fwdmod", "$top1"]],
    # values, blocks and block arguments used before (and after) their definition, several result indices of
    # one multi-result op, indices out of range, use/definition type mismatches
    "fwduse": [[t] for t in FWD_USES],
    "fwddef": [[t] for t in FWD_DEFS],
    "fwdbody": [["$fwduse", "$fwddef"], ["$fwduse", "$fwduse*", "$fwddef", "$fwduse*"],
                ["$fwduse", "$fwddef", "$fwduse", "$fwddef"], ["$fwddef", "$fwduse", "$fwduse*"],
                ["$fwduse", "$fwduse*"]],
    "fwdmod": [["$fwdbody"], ["builtin.module {", "$fwdbody", "}"],
               ['"test.op"() ({', "$fwdbody", "}) : () -> ()"],
               ['"builtin.module"() ({', "$fwdbody", "}) : () -> ()"]],
}


def _check_grammar():
    for name, alts in GRAMMAR.items():
        for alt in alts:
            for s in alt:
                if s.startswith("$"):
                    base = s[1:].rstrip("?*+,")
                    if base not in GRAMMAR:
                        raise AssertionError(f"grammar: unknown non-terminal {s} in {name}")
                elif s not in TI:
                    raise AssertionError(f"grammar: terminal {s!r} of {name} is not in TOKENS")


_check_grammar()


def expand(start, choices):
    """Deterministic expansion of GRAMMAR[start] driven by the integer list `choices` -> token indices."""
    it = iter(choices)
    out = []

    def nxt(n):
        return int(next(it, 0)) % n

    def go(sym, depth):
        if len(out) > 400:
            return
        if not sym.startswith("$"):
            out.append(TI[sym])
            return
        name = sym[1:]
        if name.endswith("?"):
            if nxt(2):
                go("$" + name[:-1], depth)
            return
        if name.endswith("*,") or name.endswith("+,"):
            lo = 1 if name.endswith("+,") else 0
            k = lo + nxt(4 - lo) if depth <= GRAMMAR_DEPTH else lo
            for j in range(k):
                if j:
                    out.append(TI[","])
                go("$" + name[:-2], depth)
            return
        if name.endswith("*"):
            k = nxt(4) if depth <= GRAMMAR_DEPTH else 0
            for j in range(k):
                go("$" + name[:-1], depth)
            return
        alts = GRAMMAR[name]
        alt = alts[nxt(len(alts))] if depth <= GRAMMAR_DEPTH else alts[0]
        for s in alt:
            go(s, depth + 1)

    go("$" + start, 0)
    return out


def sentences(start):
    edit = st.tuples(st.integers(0, 3), st.integers(0, 9999), st.integers(0, NTOK - 1))

    def make(args):
        toks, edits = expand(start, args[0]), args[1]
        for k, pos, pay in edits:
            i = pos * (len(toks) + 1) // 10000
            if k == 0:
                toks.insert(i, pay)
            elif k == 1 and toks:
                del toks[min(i, len(toks) - 1)]
            elif k == 2 and toks:
                toks[min(i, len(toks) - 1)] = pay
            elif k == 3:
                toks[i:i] = [pay, TI[GLUE]]
        return toks[:300]
    return st.tuples(st.lists(st.integers(0, 255), max_size=150), st.lists(edit, max_size=3)).map(make)


def strategies(h):
    nsmall = len(small_chunks())
    mut = st.tuples(st.integers(0, 10), st.integers(0, 9999), st.integers(0, NTOK - 1)).map(list)
    muts = st.lists(mut, min_size=1, max_size=4)
    unreg = st.sampled_from([True, True, True, False])
    s_mut = st.builds(lambda c, m, u: {"kind": "mut", "chunk": c, "muts": m, "unreg": u},
                      st.integers(0, nsmall - 1), muts, unreg)
    s_mut_attr = st.builds(lambda s, m: {"kind": "mut", "entry": "attr", "seed": s, "muts": m},
                           st.integers(0, len(ATTR_SEEDS) - 1), muts)
    s_mut_type = st.builds(lambda s, m: {"kind": "mut", "entry": "type", "seed": s, "muts": m},
                           st.integers(0, len(TYPE_SEEDS) - 1), muts)
    s_seq = st.builds(lambda t, u: {"kind": "seq", "toks": t, "unreg": u}, sentences("module"), unreg)
    s_seq_attr = st.builds(lambda t: {"kind": "seq", "entry": "attr", "toks": t}, sentences("attr"))
    s_seq_type = st.builds(lambda t: {"kind": "seq", "entry": "type", "toks": t}, sentences("type"))
    s_rand = st.builds(lambda t, e: {"kind": "seq", "entry": e, "toks": t},
                       st.lists(st.integers(0, NTOK - 1), min_size=1, max_size=12),
                       st.sampled_from(["module", "attr", "type"]))
    return [("mutate_chunk", s_mut, 10), ("mutate_attr", s_mut_attr, 3), ("mutate_type", s_mut_type, 2),
            ("grammar_module", s_seq, 5), ("grammar_attr", s_seq_attr, 3), ("grammar_type", s_seq_type, 2),
            ("random_tokens", s_rand, 1)]


def enumerate_families(h):
    """Deterministic, exhaustive-within-bounds families (sharded by index, identical in both tiers)."""
    n = 0
    # end of input: every seed x every token boundary x every incomplete lexeme, glued and after a blank
    for si, (_entry, text) in enumerate(EOF_SEEDS):
        for cut in range(len(eof_boundaries(text))):
            for tail in range(len(EOF_TAILS)):
                for sep in (0, 1):
                    n += 1
                    if n % h.nshards == h.shard:
                        judge(h, {"kind": "eof", "seed": si, "cut": cut, "tail": tail, "sep": sep}, distinct=True)
    # forward references: u | u d | u u d | u d u | d u  in every wrapper (u: use line, d: definition line)
    nu, nd = len(FWD_USES), len(FWD_DEFS)
    us, ds = range(nu), range(nu, nu + nd)
    shapes = [[(u,) for u in us], [(u, d) for u in us for d in ds], [(d, u) for u in us for d in ds],
              [(u, v, d) for u in us for v in us for d in ds], [(u, d, v) for u in us for v in us for d in ds]]
    for wrap in range(len(FWD_WRAPS)):
        for shape in shapes:
            for lines in shape:
                n += 1
                if n % h.nshards == h.shard:
                    judge(h, {"kind": "seq", "toks": fwd_tokens(wrap, lines)}, distinct=True, label="fwd")


if __name__ != "__main__":
    _setup_process()


def checks(h):
    _setup_process()
    # warm-up, not measured: the first parse in a freshly forked shard pays for copy-on-write of the heap
    import gc
    for _ in range(3):
        run_once("module", '%0 = "test.op"() {a = dense<[1, 2]> : tensor<2xi32>} : () -> (i32)', True, cap=30.0)
    gc.collect()
    unit = h.scale(100, 1500)       # examples per weight unit and shard (weights sum to 26)
    passes = h.scale(1, 2)          # each pass allows MAX_ROUNDS more collect-then-shrink rounds
    # (c) quick: one 30 s campaign next to shard 0; thorough: one 8 min campaign next to every shard
    fuzz = None
    if h.quick and h.shard == 0:
        fuzz = FuzzCampaign(30, h.seed, 8)
    elif not h.quick:
        fuzz = FuzzCampaign(480, h.seed * 100 + h.shard, 1)
    if fuzz is not None:
        import importlib.util
        if importlib.util.find_spec("atheris") is None:
            h.inconclusive("atheris_not_installed")
            fuzz = None
    if fuzz is not None:
        fuzz.start()
    try:
        enumerate_families(h)

        def body(recipe):
            judge(h, recipe)

        for salt, (name, strat, weight) in enumerate(strategies(h)):
            for k in range(passes):
                h.hyp(name, strat, body, unit * weight // passes, seed_salt=10 * salt + k,
                      shrink_budget_s=h.scale(15, 60))
    finally:
        if fuzz is not None:
            fuzz.finish(h)


# ------------------------------------------------------------------------------------------------
# (c) coverage-guided campaign (atheris / libFuzzer), run as a subprocess:
#     python -m vt.props.C07 --fuzz SCRATCH_DIR SECONDS SEED SEED_CORPUS_STRIDE
# The target applies the same by-construction bounds and the same run_once(); every input whose outcome is
# a crash or a time-out is written to SCRATCH_DIR/findings.json (shortest per outcome class). The parent
# re-judges those texts with the plain oracle (judge) -- nothing is reported from inside the fuzzer.
# Only the parser, lexer, context, affine and builtin modules are instrumented (instrumenting every dialect
# costs ~30 s of start-up).
_FUZZ_INSTRUMENT = ("xdsl.parser", "xdsl.utils.mlir_lexer", "xdsl.utils.lexer", "xdsl.ir.affine",
                    "xdsl.dialects.builtin", "xdsl.irdl.declarative_assembly_format", "xdsl.context")
class FuzzCampaign:
    """One atheris campaign in a scratch directory; start() returns at once, finish() waits, re-judges the
    candidate inputs with the plain oracle and removes the scratch directory."""

    def __init__(self, seconds, seed, stride):
        self.seconds, self.seed, self.stride = int(seconds), int(seed), int(stride)
        self.scratch = self.proc = self.log = None

    def start(self):
        import subprocess
        import tempfile
        self.scratch = tempfile.mkdtemp(prefix="vt-c07-")
        env = dict(os.environ)
        env["PYTHONPATH"] = os.pathsep.join(p for p in sys.path if p)
        self.log = open(os.path.join(self.scratch, "fuzz.log"), "wb")
        cmd = [sys.executable, "-m", "vt.props.C07", "--fuzz", self.scratch, str(self.seconds),
               str(self.seed), str(self.stride)]
        self.proc = subprocess.Popen(cmd, env=env, stdout=self.log, stderr=subprocess.STDOUT, cwd=self.scratch)

    def finish(self, h):
        import json
        import shutil
        import subprocess
        try:
            try:
                rc = self.proc.wait(timeout=self.seconds * 4 + 180)
            except subprocess.TimeoutExpired:   # the campaign is best effort: stop it, keep what it found
                self.proc.kill()
                self.proc.wait()
                rc = "killed"
            self.log.close()
            path = os.path.join(self.scratch, "findings.json")
            if not os.path.exists(path):
                with open(os.path.join(self.scratch, "fuzz.log"), "rb") as f:
                    tail = f.read()[-600:].decode("utf-8", "replace")
                h.inconclusive("atheris_campaign_did_not_report")
                h.notes.append(f"atheris rc={rc}: {tail}")
                return
            with open(path, encoding="utf-8") as f:
                data = json.load(f)
            h.count("atheris_executions", data["executions"])
            h.count("atheris_candidates", len(data["findings"]))
            for key in sorted(data["findings"]):
                judge(h, {"kind": "text", "text": data["findings"][key]})
        finally:
            shutil.rmtree(self.scratch, ignore_errors=True)


def _fuzz_main(scratch, seconds, seed, stride):
    global _WALL_BACKSTOP
    import json

    import atheris
    _WALL_BACKSTOP = False
    root = os.path.dirname(os.path.abspath(__import__("xdsl").__file__))
    skip = []
    for dp, _dn, fn in os.walk(root):
        for f in fn:
            if f.endswith(".py"):
                mod = "xdsl." + os.path.relpath(os.path.join(dp, f), root)[:-3].replace(os.sep, ".")
                mod = mod[:-9] if mod.endswith(".__init__") else mod
                if not any(mod == w or mod.startswith(w + ".") for w in _FUZZ_INSTRUMENT):
                    skip.append(mod)
    with atheris.instrument_imports(include=["xdsl"], exclude=skip):
        _setup_process()
    corpus_dir = os.path.join(scratch, "corpus")
    os.makedirs(corpus_dir, exist_ok=True)
    seeds = [t for t in small_chunks() if len(t) <= 2048]
    for i, text in enumerate(seeds):
        if i % stride == seed % stride:
            with open(os.path.join(corpus_dir, f"seed{i:04d}"), "w", encoding="utf-8") as f:
                f.write(text)
    with open(os.path.join(scratch, "tokens.dict"), "w", encoding="ascii") as f:
        for t in TOKENS:
            if t != GLUE and 0 < len(t.encode("utf-8")) <= 48:
                f.write('"' + "".join("\\x%02x" % b for b in t.encode("utf-8")) + '"\n')
    state = {"n": 0, "findings": {}}

    def dump():
        tmp = os.path.join(scratch, "findings.json.tmp")
        with open(tmp, "w", encoding="utf-8") as f:
            json.dump({"executions": state["n"], "findings": state["findings"]}, f)
        os.replace(tmp, os.path.join(scratch, "findings.json"))

    def one_input(data):
        state["n"] += 1
        if state["n"] % 100 == 0:
            dump()
        text = data.decode("utf-8", "ignore")
        text, _ = cap_unmatched_strings(text)
        text, _ = cap_integer_widths(text)
        if nesting_depth(text) > MAX_NEST:
            return
        o = run_once("module", text, True)
        if o.status in ("crash", "timeout"):
            key = f"{o.status}|{o.type}|{o.site}"
            old = state["findings"].get(key)
            if old is None or len(text) < len(old):
                state["findings"][key] = text
                dump()

    dump()
    argv = ["c07-fuzz", corpus_dir, f"-max_total_time={int(seconds)}", "-max_len=4096", f"-seed={int(seed)}",
            "-dict=" + os.path.join(scratch, "tokens.dict"), "-rss_limit_mb=4096",
            "-print_final_stats=0", "-verbosity=0", "-artifact_prefix=" + scratch + os.sep]
    atheris.Setup(argv, one_input)
    atheris.Fuzz()


if __name__ == "__main__":
    if len(sys.argv) == 6 and sys.argv[1] == "--fuzz":
        _fuzz_main(sys.argv[2], float(sys.argv[3]), int(sys.argv[4]), int(sys.argv[5]))
