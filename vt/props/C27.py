"""C27 — PDL patterns act the same interpreted or compiled to pdl_interp.

Path A: `PDLRewritePattern` (xdsl/interpreters/pdl.py) under `PatternRewriteWalker`, as
`apply-pdl` does.  Path B: `ConvertPDLToPDLInterpPass` on a module holding the same pattern, then
`PDLInterpRewritePattern` over the produced `matcher` / `rewriters`, as `apply-pdl-interp` does.
Both on clones of one payload module with one walker configuration.  Oracle: the positional
canonical forms (`vt.canon.canon`) of the two resulting payloads are equal.

Recipes (plain JSON, every list/int may be shrunk; the builders are total: an out-of-range index is
taken modulo the pool, a reference to something that does not exist is dropped):

  {"kind": "gen", "pattern": PAT, "payload": PAY, "recursive": bool, "greedy": bool}
  {"kind": "corpus", "key": "<file>#<chunk>#<n>[~test.op]", "payload": PAY, "recursive": ..., "greedy": ...}
  {"kind": "corpus_own", "key": ..., ...}     payload = the non-pdl top-level ops of that chunk
  {"kind": "text", "pattern_text": "<mlir>", "payload": PAY, ...}   committed witnesses of corpus patterns
  recursive = PatternRewriteWalker(apply_recursively=...); greedy = both patterns wrapped in a
  GreedyRewritePatternApplier (dead-code elimination on), as ApplyPDLPass does.

Signatures: {"check": "one_path_raises", path, stage, exc, where (innermost xdsl frame), msg} and
{"check": "payload_differs", pattern_features (= match + rewrite features), match_features,
 rewrite_features, payload_features, recursive, greedy,
 "m:<f>"/"r:<f>"/"p:<f>": "1" per feature} where the features are those of the case after an internal
delta-debugging pass that keeps the sub-oracle fixed (run_one), i.e. of the shrunk pattern.

  Throughout, 0 is the plainest choice, so lowering an int never adds a constraint.
  PAT = {"types": [pt..]            pdl.type pool, index into PTYPES (0 = unconstrained)
         "attrs": [[kind, x]..]     pdl.attribute pool: [0,_] free, [1,v] = ATTRV[v], [2,t] typed by pool type t
         "operands": [t..]          pdl.operand pool: 0 untyped, t>0 typed by pool type t-1
         "ops": [OP..]              matched pdl.operation ops, root LAST; OP = {"n","a","at","r"}
                                    "n" index into PNAMES (last = no name), "a" operands:
                                    [0,0] an operand of its own | [0,i>0] pool operand i-1 (reuse = identity)
                                    [1,j,idx,share] result idx of ops[j], j < own index; share=1 reuses the
                                    pdl.result value already declared for (j,idx) instead of a new pdl.result
                                    "at" [[ANAMES idx, pool attr]..], "r" [0 = a type of its own | t>0 pool type t-1]
         "rw": [ACTION..]}          [0,t] erase | [1,t,[VAL..]] replace with values |
                                    [2,t,NEWOP] replace with new op | [3,0,NEWOP] create op
                                    t = index into the matched ops, root first
         VAL = [0,i] i-th declared pdl.operand | [1,k,idx,in_match] result of matched op k | [2,j,idx] result of created op j
         NEWOP = {"n","a":[VAL..],"at":[[name,[0,attr var]|[1,v,in_match]]..],"r":[[0,type var]|[1,t,in_match]..]}
  PAY = {"ops": [{"n","a":[value index..],"at":[[name,val]..],"pr":[[name,val]..],"r":[type..]}..]}
        names/values/types are indices into NAMES/ATTRV/TYPES or literal MLIR text (corpus vocabulary);
        values are the 4 function arguments (i32,i32,i64,index) followed by all op results in order.
"""
from __future__ import annotations

import re
import signal
import traceback
from functools import lru_cache

from hypothesis import strategies as st

from vt.run import quiet

ID = "C27"
SHARDS = {"quick": 16, "thorough": 16}
RULE = ("generated single-pattern PDL modules (root pdl.operation named test.op/arith.addi/muli/subi or "
        "unnamed, 0-3 operands each a fresh pdl.operand, a reused one (identity), a typed one or a result of "
        "a nested matched pdl.operation (depth<=2, DAG reuse), constant/free/typed pdl.attribute "
        "constraints on attributes and properties, constant/free/shared pdl.type result constraints; "
        "rewrite = erase / replace with matched values / replace with a newly created op reusing matched "
        "operands, attributes, types or new constants / extra created ops, on the root or a nested op) and "
        "every pdl.pattern of the repository .mlir corpus with a pdl.rewrite body and no native "
        "constraint/rewrite, each extracted into its own module, plus a variant of it with the op names "
        "unknown to xDSL (MLIR's foo.op) replaced by test.op so that it can match; payloads = straight-line func bodies "
        "over test.op/arith ops built from instances of the pattern (generic instantiation of the pdl "
        "match DAG), mutated near-misses (other name, other operand, dropped/changed attribute, other "
        "type, extra/missing operand or result), chains feeding a match into another and random ops; "
        "corpus chunks that carry their own payload are also run on it. Oracle: canon(payload after "
        "PDLRewritePattern) == canon(payload after convert-pdl-to-pdl-interp + PDLInterpRewritePattern), "
        "same driver on both paths (PatternRewriteWalker apply_recursively False, True as well for "
        "rewrites that create no op; bare pattern or, for both, GreedyRewritePatternApplier with its "
        "dead-code elimination as ApplyPDLPass uses); an exception on exactly one path is a violation, on both a discard; a "
        "watchdog turns non-termination into inconclusive. Non-trivial: the payload was changed by at "
        "least one path.")
ASSUMPTIONS = ["vt.canon positional isomorphism is the intended notion of 'equivalent IR'",
               "a pattern that makes both paths raise is outside the domain (discarded)",
               "the two PDL passes differ in their driver (ApplyPDLPass wraps the pattern in a "
               "GreedyRewritePatternApplier that also erases dead pure ops, ApplyPDLInterpPass does not); "
               "the property is about the pattern, so both paths always get the same driver",
               "the converted module is driven exactly as ApplyPDLInterpPass drives it "
               "(Interpreter + PDLInterpFunctions + PDLInterpRewritePattern on func 'matcher')"]

PNAMES = ["test.op", "arith.addi", "arith.muli", "arith.subi", None]
NAMES = ["test.op", "arith.addi", "arith.muli", "arith.subi"]
PTYPES = [None, "i32", "i64", "index"]
TYPES = ["i32", "i64", "index"]
ANAMES = ["attr", "prop1", "overflowFlags"]
ATTRV = ["unit", "0 : i32", "1 : i32", "1 : i64", "\"s\"", "i32",
         "#arith.overflow<none>", "#arith.overflow<nsw>", "[]"]
FALSY_ATTRV = ("0 : i32", "[]")      # attributes whose Python truth value is False
ARG_TYPES = ["i32", "i32", "i64", "index"]
TEST_PROPS = ("prop1", "prop2", "prop3")
ARITH_BIN = ("arith.addi", "arith.muli", "arith.subi", "arith.andi", "arith.ori", "arith.xori",
             "arith.divui", "arith.divsi", "arith.remui", "arith.remsi", "arith.shli")
OVERFLOW_OPS = ("arith.addi", "arith.muli", "arith.subi", "arith.shli")
INT_TYPE = re.compile(r"^(i[1-9][0-9]*|index)$")
TIME_BUDGET_S = 20.0     # per path; wall times on the shared box are inflated several-fold


class RecipeInvalid(Exception):
    """The recipe does not describe a case (only reachable while shrinking)."""


class _Timeout(BaseException):
    pass


# =================================================================================================
# pattern recipe -> MLIR text + features
def _mod(i, n):
    return int(i) % n


def pattern_text(pat):
    """(MLIR text of a module holding the pattern, match features, rewrite features, decreasing)."""
    ops_in = pat["ops"]
    if not ops_in:
        raise RecipeInvalid("no matched operation")
    ptypes = [_mod(t, len(PTYPES)) for t in pat["types"]]
    pattrs = [(_mod(k, 3), x) for k, x in pat["attrs"]]
    poperands = [max(0, int(t)) for t in pat["operands"]]

    # ---- resolve operand references between the matched ops, then keep what the root reaches ----
    ops = []
    for k, op in enumerate(ops_in):
        args = []
        for a in op["a"]:
            if a[0] == 1 and k > 0 and ops[_mod(a[1], k)]["nres"]:
                j = _mod(a[1], k)
                args.append(("r", j, _mod(a[2], ops[j]["nres"]), bool(a[3])))
            else:
                args.append(("o", max(0, int(a[1]))))
        ops.append({"n": PNAMES[_mod(op["n"], len(PNAMES))], "a": args, "at": op["at"], "r": op["r"],
                    "nres": len(op["r"])})
    root = len(ops) - 1
    reach, todo = {root}, [root]
    while todo:
        k = todo.pop()
        for a in ops[k]["a"]:
            if a[0] == "r" and a[1] not in reach:
                reach.add(a[1])
                todo.append(a[1])
    order = sorted(reach)
    targets = sorted(reach, reverse=True)       # root first

    mf, rf = set(), set()                       # match / rewrite features
    type_lines, attr_lines, operand_lines, op_lines, rw_lines = [], [], [], [], []
    late_consts = []                            # match-section constants only the rewrite uses
    late_results: dict = {}                     # op index -> pdl.result lines only the rewrite uses
    counter = [0]

    def fresh(prefix):
        counter[0] += 1
        return f"%{prefix}{counter[0]}"

    pool_t: dict = {}
    all_types: list = []
    t_uses: dict = {}

    def tref(t):
        """0 = an unconstrained type of its own, t>0 = pool type variable t-1."""
        if t <= 0 or not ptypes:
            ssa = fresh("ft")
            type_lines.append(f"{ssa} = pdl.type")
            all_types.append(ssa)
            return ssa
        i = _mod(t - 1, len(ptypes))
        if i not in pool_t:
            c = PTYPES[ptypes[i]]
            pool_t[i] = f"%t{i}"
            type_lines.append(f"%t{i} = pdl.type" + (f" : {c}" if c else ""))
            all_types.append(pool_t[i])
            if c:
                mf.add("type_const")
        t_uses[i] = t_uses.get(i, 0) + 1
        if t_uses[i] > 1:
            mf.add("type_shared")
        return pool_t[i]

    pool_a: dict = {}

    def aref(ai):
        i = _mod(ai, len(pattrs))
        if i not in pool_a:
            kind, x = pattrs[i]
            if kind == 1:
                val = ATTRV[_mod(x, len(ATTRV))]
                attr_lines.append(f"%a{i} = pdl.attribute = {val}")
                mf.add("attr_const_falsy" if val in FALSY_ATTRV else "attr_const")
            elif kind == 2 and ptypes:
                attr_lines.append(f"%a{i} = pdl.attribute : {tref(1 + _mod(x, len(ptypes)))}")
                mf.add("attr_typed")
            else:
                attr_lines.append(f"%a{i} = pdl.attribute")
                mf.add("attr_free")
            pool_a[i] = f"%a{i}"
        return pool_a[i]

    pool_o: dict = {}
    all_operands: list = []

    def oref(i):
        """0 = an operand of its own, i>0 = pool operand variable i-1 (reuse = identity constraint)."""
        if i <= 0 or not poperands:
            ssa = fresh("fo")
            operand_lines.append(f"{ssa} = pdl.operand")
            all_operands.append(ssa)
            return ssa
        k = _mod(i - 1, len(poperands))
        if k in pool_o:
            mf.add("operand_identity")
            return pool_o[k]
        pool_o[k] = f"%o{k}"
        if poperands[k] > 0 and ptypes:
            operand_lines.append(f"%o{k} = pdl.operand : {tref(poperands[k])}")
            mf.add("operand_typed")
        else:
            operand_lines.append(f"%o{k} = pdl.operand")
        all_operands.append(pool_o[k])
        return pool_o[k]

    def op_line(name_ssa, name, arg_ssas, at, res_ssas):
        s = f"{name_ssa} = pdl.operation"
        if name is not None:
            s += f' "{name}"'
        if arg_ssas:
            s += " (" + ", ".join(arg_ssas) + " : " + ", ".join("!pdl.value" for _ in arg_ssas) + ")"
        if at:
            s += " {" + ", ".join(f'"{nm}" = {v}' for nm, v in at) + "}"
        if res_ssas:
            s += " -> (" + ", ".join(res_ssas) + " : " + ", ".join("!pdl.type" for _ in res_ssas) + ")"
        return s

    result_vals: dict = {}         # (op, idx) -> ssa of a pdl.result in the match section
    for k in order:
        op = ops[k]
        arg_ssas = []
        for a in op["a"]:
            if a[0] == "o":
                arg_ssas.append(oref(a[1]))
                continue
            _, j, idx, share = a
            mf.add("nested_op")
            if idx > 0:
                mf.add("nested_result_index_gt0")
            if share and (j, idx) in result_vals:
                mf.add("result_value_reused")
                arg_ssas.append(result_vals[(j, idx)])
            else:
                v = fresh("r")
                op_lines.append(f"{v} = pdl.result {idx} of %op{j}")
                result_vals.setdefault((j, idx), v)
                arg_ssas.append(v)
        at, seen = [], set()
        for nm, ai in op["at"]:
            nm = ANAMES[_mod(nm, len(ANAMES))]
            if pattrs and nm not in seen:
                seen.add(nm)
                at.append((nm, aref(ai)))
        if op["n"] is None:
            mf.add("opname_any")
        if k == root and not op["r"]:
            mf.add("root_no_results")
        op_lines.append(op_line(f"%op{k}", op["n"], arg_ssas, at, [tref(t) for t in op["r"]]))
        op_lines.append(("late", k))

    # ---- rewrite ---------------------------------------------------------------------------
    created = []      # (ssa, nres)
    decreasing = True
    gone = set()

    def val_ref(v, replacing=None):
        """SSA name for a value reference of the rewrite, None if there is no such value or using it
        would make the rewrite illegal (a result of an op that is already gone or being replaced)."""
        if v[0] == 0:
            if not all_operands:
                return None
            rf.add("reuse_matched_operand")
            return all_operands[_mod(v[1], len(all_operands))]
        if v[0] == 1:
            k = targets[_mod(v[1], len(targets))]
            if not ops[k]["nres"] or k in gone or k == replacing:
                return None
            idx = _mod(v[2], ops[k]["nres"])
            if v[3]:
                if (k, idx) not in result_vals:
                    ssa = fresh("r")
                    late_results.setdefault(k, []).append(f"{ssa} = pdl.result {idx} of %op{k}")
                    result_vals[(k, idx)] = ssa
                    rf.add("result_in_match_used_in_rewrite")
                else:
                    rf.add("reuse_matched_result")
                return result_vals[(k, idx)]
            ssa = fresh("rr")
            rw_lines.append(f"{ssa} = pdl.result {idx} of %op{k}")
            rf.add("result_of_matched_in_rewrite")
            return ssa
        if v[0] == 2:
            cands = [(s, nr) for s, nr in created if nr > 0]
            if not cands:
                return None
            s, nr = cands[_mod(v[1], len(cands))]
            ssa = fresh("rr")
            rw_lines.append(f"{ssa} = pdl.result {_mod(v[2], nr)} of {s}")
            rf.add("result_of_created_op")
            return ssa
        raise RecipeInvalid("bad value reference")

    def new_op(spec, nres=None):
        """Create an op; nres = number of results it must declare (None: as the recipe says; an empty
        result list always stays empty: no results / types inferred from the replaced op)."""
        nonlocal decreasing
        decreasing = False
        name = NAMES[_mod(spec["n"], len(NAMES))]
        arg_ssas = [s for s in (val_ref(v) for v in spec["a"]) if s is not None]
        res_spec = list(spec["r"])
        if nres is not None and res_spec:
            res_spec = (res_spec + [res_spec[-1]] * nres)[:nres]
        at, seen = [], set()
        for nm, ref in spec["at"]:
            nm = ANAMES[_mod(nm, len(ANAMES))]
            if nm in seen:
                continue
            if ref[0] == 0:
                if not pool_a:
                    continue
                keys = sorted(pool_a)
                at.append((nm, pool_a[keys[_mod(ref[1], len(keys))]]))
                rf.add("reuse_matched_attr")
            else:
                ssa = fresh("ca")
                val = ATTRV[_mod(ref[1], len(ATTRV))]
                line = f"{ssa} = pdl.attribute = {val}"
                if ref[2]:
                    late_consts.append(line)
                    rf.add("const_attr_in_match_used_in_rewrite" + ("_falsy" if val in FALSY_ATTRV else ""))
                else:
                    rw_lines.append(line)
                at.append((nm, ssa))
                rf.add("new_attr_const")
            seen.add(nm)
        res = []
        for ref in res_spec:
            if ref[0] == 0 and all_types:
                res.append(all_types[_mod(ref[1], len(all_types))])
                rf.add("reuse_matched_type")
            else:
                ssa = fresh("ct")
                line = f"{ssa} = pdl.type : {TYPES[_mod(ref[1], len(TYPES))]}"
                if len(ref) > 2 and ref[2]:
                    late_consts.append(line)
                    rf.add("const_type_in_match_used_in_rewrite")
                else:
                    rw_lines.append(line)
                res.append(ssa)
                rf.add("new_type_const")
        if not res:
            rf.add("new_op_no_result_types")
        ssa = fresh("new")
        rw_lines.append(op_line(ssa, name, arg_ssas, at, res))
        created.append((ssa, len(res)))
        return ssa

    def phase(act):
        """Legal order of the rewrite: ops are created while the root still marks the insertion
        point; nested matched ops are erased / replaced by values once their user is gone."""
        kind = _mod(act[0], 4)
        if kind == 3:
            return 0
        if targets[_mod(act[1], len(targets))] == root:
            return 2
        return 1 if kind == 2 else 3

    for act in sorted(pat["rw"], key=phase):
        kind = _mod(act[0], 4)
        k = targets[_mod(act[1], len(targets))]
        if kind != 3 and k in gone:
            continue
        if kind != 3 and k != root:
            rf.add("rewrite_inner_target")
        if kind == 0:
            rw_lines.append(f"pdl.erase %op{k}")
            rf.add("erase")
            gone.add(k)
        elif kind == 1:
            # a legal replacement: as many values as the op has results, none of them its own
            vals = [s for s in (val_ref(v, replacing=k) for v in act[2]) if s is not None]
            if vals:
                vals = (vals + [vals[-1]] * ops[k]["nres"])[:ops[k]["nres"]]
            if vals:
                # the trailing attr-dict keeps the parser from reading the next line's result
                # name as the optional replacement operation
                rw_lines.append(f"pdl.replace %op{k} with (" + ", ".join(vals) + " : "
                                + ", ".join("!pdl.value" for _ in vals) + ") {}")
                rf.add("replace_with_values")
            else:
                rw_lines.append(f"pdl.erase %op{k}")
                rf.add("erase")
            gone.add(k)
        elif kind == 2:
            ssa = new_op(act[2], ops[k]["nres"])
            rw_lines.append(f"pdl.replace %op{k} with {ssa}")
            rf.add("replace_with_new_op")
            gone.add(k)
        else:
            new_op(act[2])
            rf.add("create_extra_op")
    if not gone and not created:
        rf.add("empty_rewrite")

    body = late_consts + type_lines + attr_lines + operand_lines
    for line in op_lines:
        if isinstance(line, tuple):
            body.extend(late_results.get(line[1], []))
        else:
            body.append(line)
    text = ("builtin.module {\n  pdl.pattern : benefit(1) {\n"
            + "".join(f"    {line}\n" for line in body)
            + f"    pdl.rewrite %op{root} {{\n"
            + "".join(f"      {line}\n" for line in rw_lines)
            + "    }\n  }\n}\n")
    return text, sorted(mf), sorted(rf), decreasing



# =================================================================================================
# payload recipe -> MLIR text
def _lit(vocab, x):
    if isinstance(x, bool):
        raise RecipeInvalid("bool where a vocabulary entry is expected")
    if isinstance(x, int):
        return vocab[_mod(x, len(vocab))]
    if isinstance(x, str) and x:
        return x
    raise RecipeInvalid("empty literal")


def payload_text(pay):
    """Total builder: (text of a verified straight-line function, payload features). Ops of the arith
    dialect that would not verify with the requested shape are emitted as test.op instead (a
    wrong-name near miss). Features: `attr_shadows_property` an op carries one name both in its
    property and in its attribute dictionary; `operand_is_nonfirst_result` some operand is the
    second or a later result of its defining op."""
    vtypes = list(ARG_TYPES)
    lines = []
    feats = set()
    nonfirst: set = set()       # value indices that are a second or later result of their op
    for op in pay["ops"]:
        name = _lit(NAMES, op["n"])
        args = [_mod(a, len(vtypes)) for a in op["a"]]
        if nonfirst.intersection(args):
            feats.add("operand_is_nonfirst_result")
        res = [_lit(TYPES, t) for t in op["r"]]
        at, pr = {}, {}
        for nm, v in op["at"]:
            at.setdefault(_lit(ANAMES, nm), _lit(ATTRV, v))
        for nm, v in op["pr"]:
            pr.setdefault(_lit(ANAMES, nm), _lit(ATTRV, v))
        atys = [vtypes[a] for a in args]
        if name in ARITH_BIN:
            ok = (len(args) == 2 and len(res) == 1 and atys[0] == atys[1] == res[0]
                  and INT_TYPE.match(res[0]) is not None)
            if ok:
                flags = pr.get("overflowFlags")
                pr = {}
                if name in OVERFLOW_OPS:
                    pr["overflowFlags"] = flags if flags in ("#arith.overflow<none>", "#arith.overflow<nsw>") \
                        else "#arith.overflow<none>"
            else:
                name = "test.op"
        elif name == "arith.constant":
            val = pr.get("value", at.get("value"))
            m = re.match(r"^-?\d+ : (\S+)$", val or "")
            if len(args) == 0 and len(res) == 1 and m and m.group(1) == res[0] and INT_TYPE.match(res[0]):
                pr = {"value": val}
                at.pop("value", None)
            else:
                name = "test.op"
        elif name not in ("test.op", "test.pureop"):
            name = "test.op"
        if name in ("test.op", "test.pureop"):
            for nm in list(pr):
                if nm not in TEST_PROPS or name == "test.pureop":
                    at.setdefault(nm, pr.pop(nm))
        if set(at) & set(pr):
            feats.add("attr_shadows_property")
        first = len(vtypes)
        vtypes.extend(res)
        nonfirst.update(range(first + 1, first + len(res)))
        lhs = ", ".join(f"%v{first + i}" for i in range(len(res)))
        s = (lhs + " = " if res else "") + f'"{name}"(' + ", ".join(f"%v{a}" for a in args) + ")"
        if pr:
            s += " <{" + ", ".join(f'"{k}" = {v}' for k, v in sorted(pr.items())) + "}>"
        if at:
            s += " {" + ", ".join(f'"{k}" = {v}' for k, v in sorted(at.items())) + "}"
        s += " : (" + ", ".join(atys) + ") -> (" + ", ".join(res) + ")"
        lines.append(s)
    hdr = ", ".join(f"%v{i} : {t}" for i, t in enumerate(ARG_TYPES))
    return ("builtin.module {\n  func.func @f(" + hdr + ") {\n"
            + "".join(f"    {line}\n" for line in lines) + "    func.return\n  }\n}\n"), sorted(feats)


# =================================================================================================
# the two paths
def _ctx():
    from vt.corpus import make_ctx, reset_global_state
    reset_global_state()
    return make_ctx(True)


def parse_verified(ctx, text, what):
    from xdsl.parser import Parser
    from xdsl.utils.exceptions import ParseError, VerifyException
    try:
        m = Parser(ctx, text).parse_module()
        m.verify()
    except (ParseError, VerifyException) as e:
        raise RecipeInvalid(f"{what} does not parse/verify: {e!s:.300}\n{text}") from e
    return m


def _drive(pattern, payload, recursive, greedy):
    """The one walker configuration both paths are driven with. `greedy` wraps the pattern in a
    GreedyRewritePatternApplier (dead-code elimination on, folding off) as ApplyPDLPass does; the
    bare pattern is what ApplyPDLInterpPass uses. The wrapper is never applied to one path only."""
    from xdsl.pattern_rewriter import GreedyRewritePatternApplier, PatternRewriteWalker
    if greedy:
        pattern = GreedyRewritePatternApplier([pattern])
    PatternRewriteWalker(pattern, apply_recursively=recursive).rewrite_module(payload)


def apply_interpreted(ctx, pat_module, payload, recursive, greedy):
    from xdsl.dialects import pdl
    from xdsl.interpreters.pdl import PDLRewritePattern
    (rw,) = [op for op in pat_module.walk() if isinstance(op, pdl.RewriteOp)]
    _drive(PDLRewritePattern(rw, ctx, None), payload, recursive, greedy)


def convert(ctx, pat_module):
    from xdsl.transforms.convert_pdl_to_pdl_interp.conversion import ConvertPDLToPDLInterpPass
    ConvertPDLToPDLInterpPass().apply(ctx, pat_module)


def apply_compiled(ctx, interp_module, payload, recursive, greedy):
    from xdsl.dialects import pdl_interp
    from xdsl.interpreter import Interpreter
    from xdsl.interpreters.pdl_interp import PDLInterpFunctions
    from xdsl.transforms.apply_pdl_interp import PDLInterpRewritePattern
    matcher = None
    for cur in interp_module.walk():
        if isinstance(cur, pdl_interp.FuncOp) and cur.sym_name.data == "matcher":
            matcher = cur
            break
    assert matcher is not None, "matcher function not found"
    interpreter = Interpreter(interp_module)
    impls = PDLInterpFunctions()
    PDLInterpFunctions.set_ctx(interpreter, ctx)
    interpreter.register_implementations(impls)
    _drive(PDLInterpRewritePattern(matcher, interpreter, impls), payload, recursive, greedy)


def _alarm(signum, frame):
    raise _Timeout()


def guarded(fn, *args):
    """('ok', None) | ('raise', exc_info dict) | ('timeout', None)"""
    old = signal.signal(signal.SIGALRM, _alarm)
    try:
        try:
            signal.setitimer(signal.ITIMER_REAL, TIME_BUDGET_S)
            with quiet():
                fn(*args)
        finally:
            # disarm before anything else runs (an alarm landing inside an `except` block below
            # would escape); one landing right here still surfaces as _Timeout and is caught
            signal.setitimer(signal.ITIMER_REAL, 0)
        return "ok", None
    except _Timeout:
        return "timeout", None
    except Exception as e:  # classified, never swallowed: compared between the two paths below
        return "raise", exc_info(e)
    finally:
        signal.setitimer(signal.ITIMER_REAL, 0)
        signal.signal(signal.SIGALRM, old)


def exc_info(e):
    where = "?"
    for fr in reversed(traceback.extract_tb(e.__traceback__)):
        fn = fr.filename.replace("\\", "/")
        if "/xdsl/" in fn:
            where = fn.split("/xdsl/", 1)[1] + ":" + fr.name
            break
    msg = str(e).split("\n")[0]
    m = re.search(r"No value for key <\w+\[([^\]]*)\].*operation: ([\w.]+)", msg)
    if m:
        msg = f"No value for key: result of {m.group(2)}"
    msg = re.sub(r"name_hint: [^,>]*", "name_hint: _", msg)
    msg = re.sub(r"\d+", "N", msg)[:110]
    return {"exc": type(e).__name__, "where": where, "msg": msg}


def show(module):
    """Generic-format text (rewrites may create ops the custom printers cannot print)."""
    import io
    from xdsl.printer import Printer
    out = io.StringIO()
    Printer(stream=out, print_generic_format=True).print_op(module)
    return out.getvalue()


def _strip_ext(t):
    if isinstance(t, tuple):
        if len(t) == 2 and t[0] in ("ext", "extb") and isinstance(t[1], int):
            return (t[0],)
        return tuple(_strip_ext(x) for x in t)
    return t


def evaluate(pat_text, pay_text, recursive, greedy=False):
    """Returns (outcome, info): outcome in same|differs|one_raises|both_raise|timeout."""
    from vt.canon import canon, first_diff
    ctx = _ctx()
    pat = parse_verified(ctx, pat_text, "pattern")
    payload = parse_verified(ctx, pay_text, "payload")
    before = canon(payload)
    pa, pb = payload.clone(), payload.clone()
    if canon(pa) != before or canon(pb) != before:
        raise AssertionError("clone of payload is not canon-equal to the payload")
    pat_a, pat_b = pat.clone(), pat.clone()

    ra = guarded(apply_interpreted, ctx, pat_a, pa, recursive, greedy)
    rb = guarded(convert, ctx, pat_b)
    stage = "convert"
    if rb[0] == "ok":
        stage = "apply"
        rb = guarded(apply_compiled, ctx, pat_b, pb, recursive, greedy)
    if ra[0] == "timeout" or rb[0] == "timeout":
        return "timeout", {"a": ra[0], "b": rb[0]}
    # a value that is no longer defined inside the module (both rewrites left the same dangling
    # operand) is ("ext", id) in canon; ids of two clones never agree, compare those by position only
    ca, cb = _strip_ext(canon(pa)), _strip_ext(canon(pb))
    before = _strip_ext(before)
    changed = (ra[0] == "ok" and ca != before) or (rb[0] == "ok" and cb != before)
    if ra[0] == "raise" and rb[0] == "raise":
        return "both_raise", {"a": ra[1], "b": rb[1], "stage": stage}
    if ra[0] == "raise" or rb[0] == "raise":
        path = "interpreted" if ra[0] == "raise" else "compiled"
        info = ra[1] if ra[0] == "raise" else rb[1]
        return "one_raises", {"path": path, "stage": stage if path == "compiled" else "apply",
                              "info": info, "changed": changed, "after_a": show(pa), "after_b": show(pb)}
    if ca != cb:
        return "differs", {"diff": first_diff(ca, cb), "after_a": show(pa), "after_b": show(pb),
                           "changed": True}
    return "same", {"changed": changed}


# =================================================================================================
# corpus patterns
@lru_cache(maxsize=1)
def corpus_patterns():
    """key -> (pattern module text, own payload text or None, decreasing); deduplicated by pattern
    text. decreasing: the rewrite creates no operation, so applying it recursively terminates."""
    from xdsl.dialects import pdl
    from xdsl.dialects.builtin import ModuleOp, StringAttr
    from xdsl.utils.exceptions import VerifyException
    from vt.corpus import chunks, make_ctx, parse_chunk
    out, seen = {}, set()
    strict_ctx = make_ctx(False)
    for rel, idx, text in chunks():
        if "pdl.pattern" not in text:
            continue
        m = parse_chunk(text)
        if m is None:
            continue
        pats = [o for o in m.body.block.ops if isinstance(o, pdl.PatternOp)]
        others = [o for o in m.body.block.ops if not isinstance(o, pdl.PatternOp)]
        own = None
        if pats and others and not any(o.name.startswith(("pdl.", "pdl_interp.")) for x in others
                                       for o in x.walk()):
            pm = m.clone()
            for o in list(pm.body.block.ops):
                if isinstance(o, pdl.PatternOp):
                    o.detach()
            own = str(pm)
        for i, p in enumerate(pats):
            rw = p.body.block.last_op
            if not isinstance(rw, pdl.RewriteOp) or rw.name_ is not None or rw.body is None \
                    or not rw.body.blocks or rw.root is None:
                continue
            if any(isinstance(o, (pdl.ApplyNativeConstraintOp, pdl.ApplyNativeRewriteOp)) for o in p.walk()):
                continue
            single = ModuleOp([p.clone()])
            try:
                single.verify()
            except VerifyException:
                continue
            ptxt = str(single)
            decreasing = not any(isinstance(o, pdl.OperationOp) for o in rw.body.walk())
            if ptxt not in seen:
                seen.add(ptxt)
                out[f"{rel}#{idx}#{i}"] = (ptxt, own, decreasing)
            # Most corpus patterns come from MLIR's tests and name ops that do not exist here
            # ("foo.op"), so they can never match. A second variant of the same pattern with every
            # unregistered op name replaced by "test.op" (matcher and rewrite alike) can.
            renamed = False
            for o in single.walk():
                if isinstance(o, pdl.OperationOp) and o.opName is not None \
                        and strict_ctx.get_optional_op(o.opName.data) is None:
                    o.opName = StringAttr("test.op")
                    renamed = True
            if renamed:
                try:
                    single.verify()
                except VerifyException:
                    continue
                rtxt = str(single)
                if rtxt not in seen:
                    seen.add(rtxt)
                    out[f"{rel}#{idx}#{i}~test.op"] = (rtxt, None, decreasing)
    return out


# =================================================================================================
# generic instantiation of a pdl match DAG into payload ops (used while *generating*)
def enc(vocab, s):
    return vocab.index(s) if s in vocab else s


class Instantiator:
    def __init__(self, draw, ops, vtypes):
        self.draw, self.ops, self.vtypes = draw, ops, vtypes
        self.env: dict = {}

    def pick(self, n):
        return self.draw(st.integers(0, n - 1))

    def type_of(self, v):
        from xdsl.dialects import pdl
        if v not in self.env:
            o = v.owner
            if isinstance(o, pdl.TypeOp) and o.constantType is not None:
                self.env[v] = str(o.constantType)
            else:
                self.env[v] = TYPES[self.pick(len(TYPES))]
        return self.env[v]

    def types_of(self, v):
        from xdsl.dialects import pdl
        if isinstance(v.owner, pdl.TypeOp):
            return [self.type_of(v)]
        if v not in self.env:
            o = v.owner
            if isinstance(o, pdl.TypesOp) and o.constantTypes is not None:
                self.env[v] = [str(t) for t in o.constantTypes.data]
            else:
                self.env[v] = [TYPES[self.pick(len(TYPES))] for _ in range(self.pick(3))]
        return self.env[v]

    def attr_of(self, v):
        from xdsl.dialects import pdl
        if v not in self.env:
            o = v.owner
            if isinstance(o, pdl.AttributeOp) and o.value is not None:
                self.env[v] = str(o.value)
            elif isinstance(o, pdl.AttributeOp) and o.value_type is not None:
                ty = self.type_of(o.value_type)
                self.env[v] = f"1 : {ty}" if INT_TYPE.match(ty) else "1 : i32"
            else:
                self.env[v] = ATTRV[self.pick(len(ATTRV))]
        return self.env[v]

    def value_of_type(self, ty):
        cands = [i for i, t in enumerate(self.vtypes) if t == ty]
        if not cands:
            self.emit({"n": 0, "a": [], "at": [], "pr": [], "r": [enc(TYPES, ty)]}, [ty])
            return len(self.vtypes) - 1
        return cands[self.pick(len(cands))]

    def emit(self, op, res_types):
        self.ops.append(op)
        first = len(self.vtypes)
        self.vtypes.extend(res_types)
        return first

    def values_of(self, v):
        """Payload value indices a pdl value / range of values stands for."""
        from xdsl.dialects import pdl
        if v in self.env:
            return self.env[v]
        o = v.owner
        if isinstance(o, pdl.OperandOp):
            if o.value_type is not None:
                r = [self.value_of_type(self.type_of(o.value_type))]
            else:
                r = [self.pick(len(self.vtypes))]
        elif isinstance(o, pdl.OperandsOp):
            if o.value_type is not None:
                r = [self.value_of_type(t) for t in self.types_of(o.value_type)]
            else:
                r = [self.pick(len(self.vtypes)) for _ in range(self.pick(3))]
        elif isinstance(o, pdl.ResultOp):
            first, nres = self.op_of(o.parent_)
            i = o.index.value.data
            r = [first + i] if i < nres else [self.pick(len(self.vtypes))]
        elif isinstance(o, pdl.ResultsOp):
            first, nres = self.op_of(o.parent_)
            if o.index is None:
                r = list(range(first, first + nres))
            else:
                i = o.index.value.data
                r = [first + i] if i < nres else []
        else:
            r = [self.pick(len(self.vtypes))]
        self.env[v] = r
        return r

    def op_of(self, v):
        """Emit an instance of the pdl.operation defining v; (first result value index, #results)."""
        from xdsl.dialects import pdl
        if v in self.env:
            return self.env[v]
        o = v.owner
        if not isinstance(o, pdl.OperationOp):
            r = (self.emit({"n": 0, "a": [], "at": [], "pr": [], "r": [0]}, ["i32"]), 1)
            self.env[v] = r
            return r
        args = []
        for a in o.operand_values:
            args.extend(self.values_of(a))
        res = []
        for t in o.type_values:
            res.extend(self.types_of(t))
        name = o.opName.data if o.opName is not None else NAMES[self.pick(len(NAMES))]
        at, pr = [], []
        for nm, av in zip(o.attributeValueNames.data, o.attribute_values):
            val = self.attr_of(av)
            is_prop = (nm.data in TEST_PROPS) if name.startswith("test.") else (nm.data in ("overflowFlags", "value"))
            (pr if is_prop else at).append([enc(ANAMES, nm.data), enc(ATTRV, val)])
        op = {"n": enc(NAMES, name), "a": args, "at": at, "pr": pr, "r": [enc(TYPES, t) for t in res]}
        r = (self.emit(op, res), len(res))
        self.env[v] = r
        return r


def mutate(draw, op, nvalues):
    """One near-miss edit of a payload op recipe (in place); returns the label."""
    kind = draw(st.sampled_from(["name", "operand", "operand", "drop_attr", "attr_value", "type",
                                 "add_operand", "drop_operand", "add_result", "drop_result",
                                 "attr_to_other_dict", "shadow_attr"]))
    pick = lambda n: draw(st.integers(0, n - 1))  # noqa: E731
    if kind == "name":
        op["n"] = pick(len(NAMES))
    elif kind == "operand" and op["a"]:
        op["a"][pick(len(op["a"]))] = pick(nvalues)
    elif kind == "drop_attr" and (op["at"] or op["pr"]):
        lst = op["at"] if op["at"] and (not op["pr"] or pick(2)) else op["pr"]
        lst.pop(pick(len(lst)))
    elif kind == "attr_value" and (op["at"] or op["pr"]):
        lst = op["at"] if op["at"] and (not op["pr"] or pick(2)) else op["pr"]
        lst[pick(len(lst))][1] = pick(len(ATTRV))
    elif kind == "type" and op["r"]:
        op["r"][pick(len(op["r"]))] = pick(len(TYPES))
    elif kind == "add_operand":
        op["a"].insert(pick(len(op["a"]) + 1), pick(nvalues))
    elif kind == "drop_operand" and op["a"]:
        op["a"].pop(pick(len(op["a"])))
    elif kind == "add_result":
        op["r"].append(pick(len(TYPES)))
    elif kind == "drop_result" and op["r"]:
        op["r"].pop()
    elif kind == "attr_to_other_dict" and (op["at"] or op["pr"]):
        if op["at"] and (not op["pr"] or pick(2)):
            op["pr"].append(op["at"].pop(pick(len(op["at"]))))
        else:
            op["at"].append(op["pr"].pop(pick(len(op["pr"]))))
    elif kind == "shadow_attr" and op["pr"]:
        # the same name in the property and in the attribute dictionary, different values
        nm = op["pr"][pick(len(op["pr"]))][0]
        op["at"].append([nm, pick(len(ATTRV))])
    else:
        return "none"
    return kind


def random_op(draw, nvalues):
    pick = lambda n: draw(st.integers(0, n - 1))  # noqa: E731
    name = pick(len(NAMES))
    if name == 0:
        return {"n": 0, "a": [pick(nvalues) for _ in range(pick(4))],
                "at": [[pick(len(ANAMES)), pick(len(ATTRV))] for _ in range(pick(2))],
                "pr": [[1, pick(len(ATTRV))] for _ in range(pick(2))],
                "r": [pick(len(TYPES)) for _ in range(pick(3))]}
    t = pick(len(TYPES))
    return {"n": name, "a": [pick(nvalues), pick(nvalues)], "at": [],
            "pr": [[2, 6 + pick(2)]], "r": [t]}   # overflowFlags none/nsw


def _vtypes_of(ops):
    """Value types of a payload recipe as the builder will see them (before arith fix-ups, which
    never change result types)."""
    vt = list(ARG_TYPES)
    for op in ops:
        vt.extend(_lit(TYPES, t) for t in op["r"])
    return vt


@st.composite
def payloads(draw, pat_text, max_segments):
    """Payload recipe for a pattern given as MLIR text."""
    from xdsl.dialects import pdl
    ctx = _ctx()
    pm = parse_verified(ctx, pat_text, "pattern")
    pattern = next(o for o in pm.walk() if isinstance(o, pdl.PatternOp))
    rw = pattern.body.block.last_op
    root = rw.root
    ops: list = []
    nseg = draw(st.integers(1, max_segments))
    for _ in range(nseg):
        seg = draw(st.sampled_from(["match", "match", "near", "near", "random", "chain"]))
        vtypes = _vtypes_of(ops)
        if seg == "random" or root is None:
            ops.append(random_op(draw, len(vtypes)))
            continue
        start = len(ops)
        inst = Instantiator(draw, ops, vtypes)
        first, nres = inst.op_of(root)
        if seg == "near":
            victim = ops[draw(st.integers(start, len(ops) - 1))]
            mutate(draw, victim, len(_vtypes_of(ops[:start])) or 1)
        elif seg == "chain" and nres:
            # a second instance whose operands are fed by the first instance's results
            inst2 = Instantiator(draw, ops, _vtypes_of(ops))
            inst2.op_of(root)
            last = ops[-1]
            if last["a"]:
                last["a"][draw(st.integers(0, len(last["a"]) - 1))] = first
        if draw(st.integers(0, 3)) == 0:
            # a user of the instance's results (so that erasing is not always legal)
            vt = _vtypes_of(ops)
            ops.append({"n": 0, "a": [draw(st.integers(0, len(vt) - 1))], "at": [], "pr": [], "r": []})
    return {"ops": ops}


# ---- generated patterns ---------------------------------------------------------------------------
@st.composite
def patterns(draw):
    pick = lambda n: draw(st.integers(0, n - 1))  # noqa: E731
    ntypes = 1 + pick(3)
    types = [draw(st.sampled_from([0, 0, 0, 1, 2])) for _ in range(ntypes)]
    attrs = []
    for _ in range(pick(3)):
        kind = draw(st.sampled_from([0, 1, 1, 1, 2]))
        attrs.append([kind, (1 if pick(4) == 0 else pick(len(ATTRV))) if kind == 1 else pick(ntypes)])
    noper = 1 + pick(3)
    operands = [draw(st.sampled_from([0, 0, 0, 1, 2, 3])) for _ in range(noper)]
    nops = draw(st.sampled_from([1, 1, 1, 2, 2, 3]))
    ops = []
    for k in range(nops):
        name = draw(st.sampled_from([0, 0, 0, 1, 1, 2, 3, 4]))
        nargs = draw(st.sampled_from([0, 1, 2, 2, 2, 3])) if name in (0, 4) else draw(st.sampled_from([2, 2, 2, 1, 3]))
        args = []
        for ai in range(nargs):
            if k > 0 and (draw(st.integers(0, 2)) == 0 or (ai == 0 and draw(st.booleans()))):
                args.append([1, k - 1 if draw(st.booleans()) else pick(k), pick(2), pick(4) == 0 and 1 or 0])
            else:
                args.append([0, draw(st.sampled_from([0, 0, 1, 1, 2, 3]))])
        nres = draw(st.sampled_from([0, 1, 1, 1, 1, 2, 2, 2])) if name in (0, 4) \
            else draw(st.sampled_from([1, 1, 1, 1, 1, 1, 0, 2]))
        if k < nops - 1 and nres == 0:
            nres = 1 + pick(2)
        res = [draw(st.sampled_from([0, 0, 1, 1, 2, 3])) for _ in range(nres)]
        at = []
        if attrs:
            for _ in range(draw(st.sampled_from([0, 0, 1, 1, 2]))):
                at.append([pick(len(ANAMES)) if name in (0, 4) else draw(st.sampled_from([2, 2, 0])),
                           pick(len(attrs))])
        ops.append({"n": name, "a": args, "at": at, "r": res})
    root_nres = len(ops[-1]["r"])

    ncreated = [0]

    def valref(avoid=None):
        c = draw(st.sampled_from([0, 0, 0, 1, 1, 1, 2, 2]))
        if c == 2 and not ncreated[0]:
            c = draw(st.sampled_from([0, 1]))
        if c == 1:
            # targets are numbered root first: prefer a nested matched op when there is one
            k = 1 + pick(nops - 1) if nops > 1 and draw(st.booleans()) else pick(nops)
            if k != avoid:          # (the results of the op being replaced cannot replace it)
                return [1, k, pick(2), pick(2)]
            c = 0
        if c == 0:
            return [0, pick(4)]
        return [2, pick(2), pick(2)]

    def newop(nres):
        name = draw(st.sampled_from([0, 0, 1, 2, 3]))
        nargs = draw(st.sampled_from([0, 1, 2, 2, 3])) if name == 0 else 2
        at = []
        for _ in range(draw(st.sampled_from([0, 0, 1, 2]))):
            ref = [0, pick(3)] if (attrs and draw(st.booleans())) else [1, pick(len(ATTRV)), pick(4) == 0 and 1 or 0]
            at.append([pick(len(ANAMES)), ref])
        res = [[0, pick(3)] if draw(st.integers(0, 2)) else [1, pick(len(TYPES)), pick(4) == 0 and 1 or 0]
               for _ in range(nres)]
        return {"n": name, "a": [valref() for _ in range(nargs)], "at": at, "r": res}

    rw = []
    for _ in range(draw(st.sampled_from([0, 0, 0, 1, 1, 2]))):
        rw.append([3, 0, newop(draw(st.sampled_from([0, 1, 1, 2, 2])))])   # created before the root goes away
        ncreated[0] += 1
    nact = draw(st.sampled_from([1, 1, 1, 2]))
    for i in range(nact):
        kind = draw(st.sampled_from([0, 1, 1, 1, 2, 2, 2, 2]))
        t = 0 if (i == 0 or draw(st.booleans())) else pick(nops)
        tn = root_nres if t == 0 else len(ops[max(0, nops - 1 - t)]["r"])
        if kind == 0:
            rw.append([0, t])
        elif kind == 1:
            rw.append([1, t, [valref(avoid=t) for _ in range(tn)]])
        else:
            rw.append([2, t, newop(tn)])
    return {"types": types, "attrs": attrs, "operands": operands, "ops": ops, "rw": rw}


@st.composite
def gen_cases(draw, max_segments):
    pat = draw(patterns())
    text, _, _, decreasing = pattern_text(pat)
    pay = draw(payloads(text, max_segments))
    rec = bool(decreasing and draw(st.integers(0, 2)) == 0)
    return {"kind": "gen", "pattern": pat, "payload": pay, "recursive": rec,
            "greedy": draw(st.integers(0, 3)) == 0}


@st.composite
def corpus_cases(draw, keys, max_segments):
    key = draw(st.sampled_from(keys))
    text, _, decreasing = corpus_patterns()[key]
    pay = draw(payloads(text, max_segments))
    rec = bool(decreasing and draw(st.integers(0, 2)) == 0)
    return {"kind": "corpus", "key": key, "payload": pay, "recursive": rec,
            "greedy": draw(st.integers(0, 3)) == 0}


# =================================================================================================
# one case
def texts_of(recipe):
    """(pattern text, payload text, match features, rewrite features, payload features)"""
    kind = recipe["kind"]
    if kind == "gen":
        ptxt, mf, rf, _ = pattern_text(recipe["pattern"])
        paytxt, pf = payload_text(recipe["payload"])
        return ptxt, paytxt, mf, rf, pf
    if kind == "text":          # self-contained witness: the pattern module as MLIR text
        paytxt, pf = payload_text(recipe["payload"])
        return recipe["pattern_text"], paytxt, ["text"], [], pf
    pats = corpus_patterns()
    if recipe["key"] not in pats:
        raise RecipeInvalid(f"corpus pattern {recipe['key']} not found")
    ptxt, own, _ = pats[recipe["key"]]
    feats = ["corpus:" + recipe["key"]]
    if kind == "corpus":
        paytxt, pf = payload_text(recipe["payload"])
        return ptxt, paytxt, feats, [], pf
    if kind == "corpus_own":
        if own is None:
            raise RecipeInvalid("chunk has no payload of its own")
        return ptxt, own, feats, [], []
    raise RecipeInvalid(f"unknown kind {kind}")


def classify(recipe):
    """Run the oracle on one recipe -> (sig | None, detail, outcome, info, feats)."""
    ptxt, paytxt, mf, rf, pf = texts_of(recipe)
    feats = mf + rf + ["payload:" + f for f in pf]
    recursive = bool(recipe.get("recursive", False))
    greedy = bool(recipe.get("greedy", False))
    outcome, info = evaluate(ptxt, paytxt, recursive, greedy)
    sig, detail = None, ""
    if outcome == "differs":
        sig = {"check": "payload_differs", "pattern_features": ",".join(mf + rf),
               "match_features": ",".join(mf),
               "rewrite_features": ",".join(rf), "payload_features": ",".join(pf),
               "recursive": recursive, "greedy": greedy}
        # one marker key per feature of the (minimised) case, so that a known finding can name the
        # feature its defect needs without fixing the incidental rest of the list
        for f in mf:
            sig["m:" + f] = "1"
        for f in rf:
            sig["r:" + f] = "1"
        for f in pf:
            sig["p:" + f] = "1"
        detail = (f"first difference {info['diff']}\n--- pattern\n{ptxt}--- payload\n{paytxt}"
                  f"--- interpreted (PDLRewritePattern)\n{info['after_a']}\n"
                  f"--- compiled (convert-pdl-to-pdl-interp + PDLInterpRewritePattern)\n{info['after_b']}")
    elif outcome == "one_raises":
        e = info["info"]
        sig = {"check": "one_path_raises", "path": info["path"], "stage": info["stage"],
               "exc": e["exc"], "where": e["where"], "msg": e["msg"]}
        detail = (f"{info['path']} path raised {e['exc']}: {e['msg']} at {e['where']}; the other path "
                  f"completed (payload changed by it: {info['changed']})\n--- pattern\n{ptxt}"
                  f"--- payload\n{paytxt}")
    return sig, detail, outcome, info, feats


def _same_class(sig):
    """Predicate used for the internal minimisation: same sub-oracle and same failure site, the
    pattern features are free to become fewer."""
    def fixed(sg):
        return {k: v for k, v in sg.items()
                if k not in ("pattern_features", "match_features", "rewrite_features", "payload_features")
                and k[1:2] != ":"}
    keep = fixed(sig)

    def pred(r):
        try:
            s2 = classify(r)[0]
        except RecipeInvalid:
            return False
        return s2 is not None and fixed(s2) == keep
    return pred


# create `"test.op"() {attr = "s"}` in front of every matched root and remove nothing
MARKER_REWRITE = [[3, 0, {"n": 0, "a": [], "at": [[0, [1, 4, 0]]], "r": []}]]
_MINIMISED: dict = {}     # digest(unminimised signature) -> (signature, detail, recipe) of its minimised form


def run_one(h, recipe, label):
    sig, detail, outcome, info, feats = classify(recipe)
    if outcome == "timeout":
        h.inconclusive(f"watchdog:{info['a']}/{info['b']}")
        h.case(recipe, False, label=label + ":timeout")
        return
    if outcome == "both_raise":
        a, b = info["a"], info["b"]
        if a["exc"] == b["exc"]:
            h.discard(f"both_raise:{a['exc']}")
        else:
            h.discard(f"both_raise_differently:{a['exc']}/{b['exc']}")
        h.case(recipe, False, label=label + ":both_raise")
        return
    changed = bool(info.get("changed"))
    sample = None
    if changed and len(h.samples) < 6:
        ptxt, paytxt = texts_of(recipe)[:2]
        sample = {"pattern": ptxt, "payload": paytxt, "recursive": bool(recipe.get("recursive")),
                  "greedy": bool(recipe.get("greedy"))}
    h.case(recipe, changed, label=label, sample=sample)
    if changed:
        h.count("nt_kind:" + label)
        if sig is None:
            h.count("nt_both_paths_agree")      # changed payload, clean comparison, equal result
        for f in feats:
            if not f.startswith("corpus:"):
                h.count("nt_feat:" + f)
        if recipe.get("recursive"):
            h.count("nt_recursive")
    if sig is None:
        return
    if sig["check"] == "one_path_raises" and sig["exc"] == "ValueError" and sig["where"] == "ir/core.py:erase" \
            and recipe["kind"] == "gen":
        # "op still has uses": the rewrite is illegal for this payload op, which only shows on one path
        # when the two matchers disagree about that op. Name the root cause: re-run the matcher with a
        # rewrite that only marks the matched root (creates an op, removes nothing).
        marked = dict(recipe, pattern=dict(recipe["pattern"], rw=MARKER_REWRITE))
        s2, d2, _, _, _ = classify(marked)
        if s2 is not None and s2["check"] == "payload_differs":
            h.count("erase_symptom_traced_to_matcher")
            recipe, sig = marked, s2
            detail = ("(found as: " + detail.split("\n")[0] + ")\nthe two matchers accept different ops "
                      "(rewrite replaced by a marker op):\n" + d2)
    if sig["check"] == "payload_differs" and not h._shrinking and recipe["kind"] != "corpus_own":
        # the signature names the features of the *minimised* pattern: minimise here, keeping the
        # sub-oracle fixed, then report the small recipe (the harness' own shrink then has nothing
        # left to do and keeps this signature).
        from vt.run import digest
        from vt.shrink import shrink
        import json
        memo_key = digest(sig)
        if memo_key not in _MINIMISED:
            small = shrink(json.loads(json.dumps(recipe)), _same_class(sig), 25.0 if h.quick else 60.0)
            s2, d2, _, _, _ = classify(small)
            _MINIMISED[memo_key] = (s2, d2, small) if s2 is not None and s2["check"] == sig["check"] \
                else (sig, detail, recipe)
            h.count("internal_minimisations")
        sig, detail, recipe = _MINIMISED[memo_key]
    h.mismatch(sig, recipe, detail)


def replay(h, recipe):
    run_one(h, recipe, "replay")


def checks(h):
    keys = sorted(corpus_patterns())
    h.count("corpus_patterns", 0)
    if h.shard == 0:
        h.count("corpus_patterns", len(keys))
    # corpus chunks on the payload they come with (both walker modes)
    own = [k for k in keys if corpus_patterns()[k][1] is not None]
    for i, k in enumerate(own):
        if i % h.nshards != h.shard:
            continue
        for rec in ((False, True) if corpus_patterns()[k][2] else (False,)):
            for greedy in (False, True):
                run_one(h, {"kind": "corpus_own", "key": k, "recursive": rec, "greedy": greedy}, "corpus_own")

    segs = h.scale(4, 6)

    def body_gen(r):
        run_one(h, r, "gen")

    def body_corpus(r):
        run_one(h, r, "corpus")

    h.hyp("generated_patterns", gen_cases(segs), body_gen, h.scale(180, 3500), 1, shrink_budget_s=10.0)
    h.hyp("corpus_patterns", corpus_cases(keys, segs), body_corpus, h.scale(50, 700), 2,
          shrink_budget_s=10.0)
