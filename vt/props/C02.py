"""C02 — Cloning yields an independent equivalent copy and leaves other IR untouched.

Recipe kinds:
  {"kind": "clone_op",  "mod": <irgen recipe>, "op": i, "without_regions": bool, "edits": [steps]}
  {"kind": "clone_into","mod": <irgen recipe>, "src": i, "dst": j|None (None: fresh region),
                        "dst_from": <irgen recipe>|None, "index": k|None, "mappers": bool, "edits": [steps]}
  {"kind": "apply_to_clone", "mod": <irgen recipe>|None, "chunk": int|None, "pass": name}
Oracle: independent canonical form (vt.canon) + object-identity snapshots.
"""
from __future__ import annotations

from hypothesis import strategies as st

from vt import canon as C
from vt import invariants, irgen
from vt.props import C01

ID = "C02"
SHARDS = {"quick": 16, "thorough": 16}
RULE = ("irgen modules (multi-block regions, forward block refs, graph-region use-before-def, values "
        "captured from enclosing regions); entry points Operation.clone / clone_without_regions on every "
        "op position, Region.clone, Region.clone_into(dest, index, mappers) with dest empty or already "
        "containing IR and every index incl. None, ModulePass.apply_to_clone with mutating passes; "
        "followed by a C01 edit history and attribute edits on the copy (or the source). Oracle: source "
        "canonical form + identity snapshot unchanged; pre-existing destination objects unchanged; "
        "canon(copy)==canon(source part) with inside refs positional and outside refs identical; no "
        "shared objects; edits on one side invisible on the other. Non-trivial: source has >=2 blocks in "
        "a region, an outside or forward reference, or the destination is non-empty.")
ASSUMPTIONS = ["vt.canon canonical form is a correct positional isomorphism check"]

PASSES = ["dce", "canonicalize", "cse", "constant-fold-interp"]


def all_ops(module):
    return [o for o in module.walk() if o is not module]


def all_regions(module):
    out = []
    for o in module.walk():
        out.extend(o.regions)
    return out


def strip_regions(c):
    """canon of an op with every region emptied (what clone_without_regions must produce)."""
    return c[:7] + (tuple(("region", ()) for _ in c[7]),)


def nontrivial_source(node) -> bool:
    from xdsl.ir import Operation, Region
    regions = []
    ops = list(node.walk())
    inner_vals = set()
    for o in ops:
        regions.extend(o.regions)
        inner_vals.update(id(r) for r in o.results)
        for r in o.regions:
            for b in r.blocks:
                inner_vals.update(id(a) for a in b.args)
    if isinstance(node, Region):
        regions.append(node)
        for b in node.blocks:
            inner_vals.update(id(a) for a in b.args)
    if any(len(r.blocks) >= 2 for r in regions):
        return True
    seen = set()
    for o in ops:  # outside reference or forward reference
        for v in o.operands:
            if id(v) not in inner_vals:
                return True
            if id(v) not in seen and not any(v is a for a in getattr(o.parent, "args", ())):
                pass
        seen.update(id(r) for r in o.results)
    return False


def edit_and_compare(h, recipe, edited_root, other_root, what, edits):
    """Apply a C01 history + attribute edits to edited_root; other_root must not change."""
    from xdsl.dialects.builtin import UnitAttr
    before_c, before_i = C.canon(other_root), C.identity_snapshot(other_root)
    m = C01.Machine.__new__(C01.Machine)
    m.roots, m.erased, m.log, m.counter = [edited_root], [], [], 0
    for o in list(edited_root.walk()) if hasattr(edited_root, "walk") else []:
        o.attributes["c02_edit"] = UnitAttr()
        o.properties["c02_edit"] = UnitAttr()
    for stp in edits:
        try:
            m.step(*stp)
        except (ValueError, AssertionError, IndexError, KeyError):
            break
    if C.canon(other_root) != before_c or C.identity_snapshot(other_root) != before_i:
        h.mismatch({"check": "edit_visible", "side": what}, recipe,
                   f"edits applied to the {what} changed the other side: "
                   + C.first_diff(before_c, C.canon(other_root)))
        return False
    return True


def run_clone_op(h, r):
    from xdsl.ir import Operation
    built = irgen.build(r["mod"])
    module = built.module
    ops = all_ops(module) + [module]
    op = ops[r["op"] % len(ops)]
    src_c, src_i = C.canon(module), C.identity_snapshot(module)
    op_c = C.canon(op)
    wr = r.get("without_regions")
    first_copy = None
    if r.get("shared_mappers"):
        # the mappers are in/out parameters: cloning the same op again with the same dictionaries
        # must still give a copy that only refers to itself
        vm, bm = {}, {}
        first_copy = op.clone_without_regions(vm, bm) if wr else op.clone(vm, bm)
        copy = op.clone_without_regions(vm, bm) if wr else op.clone(vm, bm)
    else:
        copy = op.clone_without_regions() if wr else op.clone()
    nt = nontrivial_source(op) and not wr
    h.case(r, nt, label="clone_op_without_regions" if wr else "clone_op")
    if C.canon(module) != src_c or C.identity_snapshot(module) != src_i:
        h.mismatch({"check": "source_changed", "entry": "clone_op"}, r,
                   C.first_diff(src_c, C.canon(module)))
        return
    exp = strip_regions(op_c) if wr else op_c
    got = C.canon(copy)
    if got != exp:
        h.mismatch({"check": "copy_not_equivalent", "entry": "clone_without_regions" if wr else "clone_op"},
                   r, C.first_diff(exp, got))
        return
    if C.object_ids(copy) & C.object_ids(module):
        h.mismatch({"check": "shared_object", "entry": "clone_op"}, r, "copy shares IR objects with the source")
        return
    if first_copy is not None:
        h.count("shared_mappers")
        if C.canon(first_copy) != exp:
            h.mismatch({"check": "copy_not_equivalent", "entry": "clone_op_shared_mappers", "which": "first"}, r,
                       C.first_diff(exp, C.canon(first_copy)))
            return
        if C.object_ids(copy) & C.object_ids(first_copy):
            h.mismatch({"check": "shared_object", "entry": "clone_op_shared_mappers"}, r,
                       "two copies made with the same mapper dictionaries share IR objects")
            return
    errs = invariants.check([module, copy] + ([first_copy] if first_copy is not None else []))
    if errs:
        h.mismatch({"check": "invariant", "entry": "clone_op", "code": errs[0][0]}, r, str(errs[:3]))
        return
    has_ext = "'ext'" in repr(got)
    if r.get("edit_source") and not has_ext:
        # (a copy that references outside values is legitimately a *user* of source values, so
        # replacing those in the source updates the copy's operands; only closed copies compare)
        edit_and_compare(h, r, module, copy, "source", r.get("edits", []))
    else:
        edit_and_compare(h, r, copy, module, "copy", r.get("edits", []))


def run_clone_into(h, r):
    from xdsl.ir import Region
    built = irgen.build(r["mod"])
    module = built.module
    regions = all_regions(module)
    src = regions[r["src"] % len(regions)]
    dst_kind = r.get("dst")
    holder = None
    if dst_kind is None:
        dst = Region()
    elif r.get("dst_from") is not None:
        holder = irgen.build(r["dst_from"]).module
        dregs = all_regions(holder)
        dst = dregs[dst_kind % len(dregs)]
    else:
        cands = [g for g in regions if g is not src and not src.is_ancestor(g)]
        if not cands:
            dst = Region()
        else:
            dst = cands[dst_kind % len(cands)]
    n_before = len(dst.blocks)
    index = r.get("index")
    if index is not None:
        index = index % (n_before + 1)
    pre_blocks = list(dst.blocks)
    dst_root = dst.get_toplevel_object()
    roots = [module] + ([dst_root] if dst_root is not module else [])
    snaps = [(C.canon(x), C.identity_snapshot(x)) for x in roots]
    pre_snap = [C.identity_snapshot(b) for b in pre_blocks]
    pre_canon = C.canon_blocklist(pre_blocks) if pre_blocks else None
    src_c = C.canon(src)
    nsrc = len(src.blocks)
    vm, bm = ({}, {}) if r.get("mappers") else (None, None)
    label = "clone_into_nonempty" if n_before else "clone_into_empty"
    h.case(r, nontrivial_source(src) or n_before > 0, label=label)
    plain = index is None and r.get("plain") and n_before == 0
    if plain:
        new_region = src.clone()
        dst = new_region
        n_before, pre_blocks, pre_snap, pre_canon = 0, [], [], None
    else:
        src.clone_into(dst, index, vm, bm)
    pos = n_before if index is None else index
    now = list(dst.blocks)
    sigbase = {"entry": "clone_into", "dest": "nonempty" if n_before else "empty",
               "index": "none" if index is None else ("end" if index == n_before else "inner")}
    # 1. source (and, when separate, the tree holding the destination's old content) unchanged
    if dst_root is module or dst.get_toplevel_object() is module:
        # destination is inside the source module: compare source region and old blocks separately
        if C.canon(src) != src_c:
            h.mismatch({"check": "source_changed", **sigbase}, r, C.first_diff(src_c, C.canon(src)))
            return
    else:
        if (C.canon(module), C.identity_snapshot(module)) != snaps[0]:
            h.mismatch({"check": "source_changed", **sigbase}, r, C.first_diff(snaps[0][0], C.canon(module)))
            return
    # 2. destination layout: old blocks keep identity/order, new blocks at `pos`
    if len(now) != n_before + nsrc:
        h.mismatch({"check": "dest_block_count", **sigbase}, r, f"{len(now)} blocks, expected {n_before + nsrc}")
        return
    new_blocks = now[pos:pos + nsrc]
    old_now = now[:pos] + now[pos + nsrc:]
    if [id(b) for b in old_now] != [id(b) for b in pre_blocks]:
        h.mismatch({"check": "dest_layout", **sigbase}, r, "pre-existing blocks moved or new blocks at wrong index")
        return
    if [C.identity_snapshot(b) for b in old_now] != pre_snap:
        h.mismatch({"check": "dest_content_changed", **sigbase}, r,
                   "pre-existing destination IR was modified: "
                   + (C.first_diff(pre_canon, C.canon_blocklist(old_now)) if pre_canon else ""))
        return
    # 3. the new blocks are an equivalent copy: inside refs positional, outside refs identical
    got = C.canon_blocklist(new_blocks)
    if got != src_c:
        h.mismatch({"check": "copy_not_equivalent", **sigbase}, r, C.first_diff(src_c, got))
        return
    src_ids = C.object_ids(src)
    for b in new_blocks:
        if C.object_ids(b) & src_ids:
            h.mismatch({"check": "shared_object", **sigbase}, r, "copy shares IR objects with the source")
            return
    if r.get("mappers") and not plain:
        for sb, nb in zip(src.blocks, new_blocks):
            if bm.get(sb) is not nb:
                h.mismatch({"check": "block_mapper", **sigbase}, r, "block_mapper does not map source blocks to their copies")
                return
    troots = {id(module): module}
    t = dst.get_toplevel_object()
    troots[id(t)] = t
    errs = invariants.check(list(troots.values()))
    if errs:
        h.mismatch({"check": "invariant", **sigbase, "code": errs[0][0]}, r, str(errs[:3]))
        return
    # 4. later edits on the copy are invisible in the source (only when the copy is a separate tree)
    if t is not module:
        edit_and_compare(h, r, t, module, "copy", r.get("edits", []))


_ctx = {}


def run_apply_to_clone(h, r):
    from xdsl.context import Context
    from xdsl.transforms import get_all_passes
    from vt import corpus
    from vt.run import quiet
    if r.get("chunk") is not None:
        ch = corpus.chunks()
        text = ch[r["chunk"] % len(ch)][2]
        module = corpus.parse_chunk(text)
        if module is None:
            h.discard("chunk_rejected")
            return
        label = "apply_to_clone_corpus"
    else:
        module = irgen.build(r["mod"]).module
        label = "apply_to_clone_gen"
    pname = r["pass"]
    if "passes" not in _ctx:
        _ctx["passes"] = get_all_passes()
    pcls = _ctx["passes"][pname]()
    ctx = corpus.make_ctx()
    before_c, before_i = C.canon(module), C.identity_snapshot(module)
    try:
        with quiet():
            _, out = pcls().apply_to_clone(ctx, module)
    except Exception as e:  # the pass reported failure; the original must still be untouched
        out = None
        h.count("pass_raised")
    changed = out is not None and C.canon(out) != before_c
    h.case(r, changed, label=label)
    if C.canon(module) != before_c or C.identity_snapshot(module) != before_i:
        h.mismatch({"check": "original_changed", "entry": "apply_to_clone", "pass": pname}, r,
                   C.first_diff(before_c, C.canon(module)))
        return
    if out is not None and (C.object_ids(out) & C.object_ids(module)):
        h.mismatch({"check": "shared_object", "entry": "apply_to_clone", "pass": pname}, r,
                   "result shares IR objects with the original module")


def run(h, r):
    k = r["kind"]
    if k == "clone_op":
        run_clone_op(h, r)
    elif k == "clone_into":
        run_clone_into(h, r)
    elif k == "apply_to_clone":
        run_apply_to_clone(h, r)
    else:
        raise AssertionError(k)


def replay(h, recipe):
    run(h, recipe)


def checks(h):
    step = st.tuples(st.integers(0, len(C01.ACTIONS) - 1), st.integers(0, 63), st.integers(0, 63),
                     st.integers(0, 63), st.integers(0, 7)).map(list)
    edits = st.lists(step, max_size=12)
    mods = irgen.module_recipes(depth=2, max_ops=3, max_blocks=3)
    s_op = st.fixed_dictionaries({"kind": st.just("clone_op"), "mod": mods, "op": st.integers(0, 60),
                                  "without_regions": st.booleans(), "edit_source": st.booleans(),
                                  "shared_mappers": st.booleans(),
                                  "edits": edits})
    s_into = st.fixed_dictionaries({
        "kind": st.just("clone_into"), "mod": mods, "src": st.integers(0, 40),
        "dst": st.one_of(st.none(), st.integers(0, 40)),
        "dst_from": st.one_of(st.none(), irgen.module_recipes(depth=1, max_ops=2, max_blocks=3)),
        "index": st.one_of(st.none(), st.integers(0, 6)), "mappers": st.booleans(),
        "plain": st.booleans(), "edits": edits})
    s_pass = st.fixed_dictionaries({"kind": st.just("apply_to_clone"), "mod": mods, "chunk": st.none(),
                                    "pass": st.sampled_from(PASSES)})
    s_pass_corpus = st.fixed_dictionaries({"kind": st.just("apply_to_clone"), "mod": st.none(),
                                           "chunk": st.integers(0, 5000), "pass": st.sampled_from(PASSES)})
    n = h.scale(30, 400)
    h.hyp("clone_op", s_op, lambda r: run(h, r), n, 1)
    h.hyp("clone_into", s_into, lambda r: run(h, r), n * 2, 2)
    h.hyp("apply_to_clone_gen", s_pass, lambda r: run(h, r), max(10, n // 3), 3)
    h.hyp("apply_to_clone_corpus", s_pass_corpus, lambda r: run(h, r), max(10, n // 3), 4)
