"""C05 — Custom assembly formats round-trip for every registered operation.

Recipe kinds:
  {"kind": "corpus", "file": relpath, "idx": chunk index in file}        whole chunk, custom form
  {"kind": "variant", "file", "idx", "muts": [[kind, a, b], ...]}        valid-by-check mutation first
Oracle: canon(parse(custom_print(m))) == canon(m) == canon(parse(generic_print(m))) under the C04
normalisations.  A failure is attributed to the op(s) whose custom form is responsible by re-printing
with only that op name in custom form (everything else generic).
"""
from __future__ import annotations

import io

from hypothesis import strategies as st

from vt import canon as C
from vt import corpus
from vt.props.C04 import exc_site, parse_fresh, print_generic

ID = "C05"
SHARDS = {"quick": 16, "thorough": 16}
RULE = ("every verifying chunk of the .mlir corpus (tests/ and docs/, all dialects) printed with custom "
        "assembly formats and re-parsed in a fresh context; plus a systematic sweep of single-point "
        "variants: for the first instance of every custom-format op name in every chunk, add a "
        "discardable attribute, drop each attribute, drop each property, set each property with a "
        "declared default to that default; for the first instance of every (op name, operand count, "
        "integer-array shape) with a variadic operand definition, duplicate / remove one operand with "
        "the segment-size arrays following -- kept only if verify() accepts the variant. Oracle: canonical form of the re-parsed module equals the "
        "original's and the generic round-trip's (modulo default-valued properties / inherent attrs in "
        "the attr-dict). Failures are attributed per op name by printing only that op in custom form. "
        "Non-trivial: the module contains at least one op with a custom print.")
ASSUMPTIONS = ["vt.canon canonical form is a correct positional isomorphism check",
               "generic-form round trip (C04) is the baseline: chunks whose generic form does not round-trip are excluded here"]


INJECTED = ["extra", "value", "operandSegmentSizes", "sym_name", "x.y"]


def make_selective_printer(stream, only):
    from xdsl.printer import Printer

    class SelectivePrinter(Printer):
        def print_op(self, op):
            old = self.print_generic_format
            self.print_generic_format = op.name not in only
            try:
                super().print_op(op)
            finally:
                self.print_generic_format = old
    return SelectivePrinter(stream=stream)


def print_custom(op, only=None) -> str:
    from xdsl.printer import Printer
    s = io.StringIO()
    p = Printer(stream=s) if only is None else make_selective_printer(s, only)
    p.print_op(op)
    return s.getvalue()


def custom_op_names(module):
    from xdsl.dialects.builtin import UnregisteredOp
    from xdsl.ir import Operation
    names = {}
    for o in module.walk():
        if isinstance(o, UnregisteredOp):
            continue
        if type(o).print is not Operation.print:
            names[o.name] = names.get(o.name, 0) + 1
    return names


def attempt(module, base, only=None):
    """Returns None if the custom round trip is fine, else (kind, detail, site)."""
    from xdsl.utils.exceptions import ParseError
    try:
        text = print_custom(module, only)
    except Exception as e:
        return ("print_raises:" + type(e).__name__, repr(e)[:300], exc_site(e))
    try:
        m2 = parse_fresh(text)
    except ParseError as e:
        return ("reparse_fails", str(e)[:500] + "\n--- custom text:\n" + text[:1200], exc_site(e))
    except Exception as e:
        return ("reparse_raises:" + type(e).__name__, repr(e)[:300] + "\n--- custom text:\n" + text[:1200], exc_site(e))
    try:
        c2 = C.canon(m2, normalize=True)
    except Exception as e:
        return ("canon_raises:" + type(e).__name__, repr(e)[:300], "")
    if c2 != base:
        what = C.op_diff(base, c2)
        if what.startswith("attrs:-") and what[7:] in INJECTED:
            what = "attrs:-<discardable>"
        return ("not_equivalent", C.first_diff(base, c2) + "\n--- custom text:\n" + text[:1200], what)
    return None


def check_module(h, r, module, label):
    from xdsl.utils.exceptions import DiagnosticException, ParseError
    names = custom_op_names(module)
    h.case(r, bool(names), label=label, sample={k: r[k] for k in r if k != "muts"} | {"custom_ops": sorted(names)[:8]})
    if not names:
        return
    base = C.canon(module, normalize=True)
    # baseline: the generic form must round-trip (otherwise this is C04's finding, not a custom-format one)
    try:
        mg = parse_fresh(print_generic(module))
        if C.canon(mg, normalize=True) != base:
            h.discard("generic_roundtrip_differs(C04)")
            return
    except Exception:
        h.discard("generic_roundtrip_fails(C04)")
        return
    for n in names:
        h.count("custom_op_instances", names[n])
    whole = attempt(module, base)
    if whole is None:
        h.count("chunks_ok")
        return
    culprits = []
    for n in sorted(names):
        res = attempt(module, base, only={n})
        if res is not None:
            culprits.append((n, res))
    if not culprits:
        kind, detail, site = whole
        h.mismatch({"check": kind.split(":")[0], "op": "<combination:" + ",".join(sorted(names)[:4]) + ">",
                    "exc": kind.partition(":")[2] or "-", "what": site or "-"}, r, detail)
        return
    for n, (kind, detail, site) in culprits:
        h.mismatch({"check": kind.split(":")[0], "op": n, "exc": kind.partition(":")[2] or "-",
                    "what": site or "-"}, r, f"op {n}: {detail}")


BIG = 12000   # chunks larger than this are swept one self-contained top-level op at a time


def self_contained(op) -> bool:
    inner = set()
    for o in op.walk():
        inner.update(id(x) for x in o.results)
        for rg in o.regions:
            for b in rg.blocks:
                inner.update(id(a) for a in b.args)
    return all(id(v) in inner for o in op.walk() for v in o.operands)


def load_chunk(r):
    from xdsl.dialects.builtin import ModuleOp
    for rel, idx, text in corpus.chunks():
        if rel == r["file"] and idx == r["idx"]:
            m = corpus.parse_chunk(text)
            if m is None or r.get("top") is None:
                return m
            tops = list(m.body.block.ops)
            if r["top"] >= len(tops) or not self_contained(tops[r["top"]]):
                return None
            op = tops[r["top"]]
            op.detach()
            sub = ModuleOp([op])
            try:
                sub.verify()
            except Exception:
                return None
            return sub
    return None


# ---- valid-by-check mutation --------------------------------------------------------------------
def mutate(module, muts) -> int:
    """Apply mutations that keep the module verifying; returns how many were kept."""
    from xdsl.dialects.builtin import IntegerAttr, StringAttr, UnitAttr, i64
    from xdsl.utils.exceptions import DiagnosticException
    pool = [UnitAttr(), IntegerAttr(7, i64), StringAttr("v")]
    kept = 0
    for kind, a, b in muts:
        ops = [o for o in module.walk() if o is not module]
        if not ops:
            break
        o = ops[a % len(ops)]
        undo = None
        k = kind % 5
        if k == 0:      # add a discardable attribute
            key = INJECTED[b % 5]
            if key in o.attributes or key in o.properties:
                continue
            o.attributes[key] = pool[b % len(pool)]
            undo = lambda o=o, key=key: o.attributes.pop(key)
        elif k == 1:    # drop an attribute
            keys = sorted(o.attributes)
            if not keys:
                continue
            key = keys[b % len(keys)]
            old = o.attributes.pop(key)
            undo = lambda o=o, key=key, old=old: o.attributes.__setitem__(key, old)
        elif k == 2:    # drop a property
            keys = sorted(o.properties)
            if not keys:
                continue
            key = keys[b % len(keys)]
            old = o.properties.pop(key)
            undo = lambda o=o, key=key, old=old: o.properties.__setitem__(key, old)
        elif k == 3:    # set a property to its declared default / make a default explicit
            get_def = getattr(type(o), "get_irdl_definition", None)
            if get_def is None:
                continue
            defs = [(n, d) for n, d in get_def().properties.items() if getattr(d, "default_value", None) is not None]
            if not defs:
                continue
            n, d = defs[b % len(defs)]
            old = o.properties.get(n)
            o.properties[n] = d.default_value
            undo = (lambda o=o, n=n, old=old: o.properties.__setitem__(n, old)) if old is not None else \
                   (lambda o=o, n=n: o.properties.pop(n))
        else:           # replace a property value by a pool value
            keys = sorted(o.properties)
            if not keys:
                continue
            key = keys[b % len(keys)]
            old = o.properties[key]
            o.properties[key] = pool[(a + b) % len(pool)]
            undo = lambda o=o, key=key, old=old: o.properties.__setitem__(key, old)
        try:
            module.verify()
            kept += 1
        except Exception:
            undo()
    return kept


class _Timeout(BaseException):
    pass


def _alarm(signum, frame):
    raise _Timeout()


def run(h, r):
    """One case under a 40 s watchdog (a printer or parser that loops is inconclusive here, it is
    C07's subject; the case is named in the evidence notes)."""
    import signal
    signal.signal(signal.SIGALRM, _alarm)
    signal.setitimer(signal.ITIMER_REAL, 40)
    try:
        _run(h, r)
    except _Timeout:
        h.inconclusive("case_timeout")
        h.notes.append(f"timeout: {r.get('file')}#{r.get('idx')} {r.get('mut')}")
    finally:
        signal.setitimer(signal.ITIMER_REAL, 0)


def _run(h, r):
    module = load_chunk(r)
    if module is None:
        h.discard("chunk_rejected")
        return
    if r["kind"] == "sweep":
        if not apply_sweep_mut(module, r["mut"]):
            h.discard("variant_does_not_verify")
            return
        check_module(h, r, module, "sweep_" + r["mut"][0])
        return
    if r["kind"] == "variant":
        kept = mutate(module, r.get("muts", []))
        if not kept:
            h.discard("no_valid_mutation")
            return
        check_module(h, r, module, "variant")
    else:
        check_module(h, r, module, "corpus")


def replay(h, recipe):
    run(h, recipe)


def sweep_jobs(module):
    """Deterministic single-point variants: for the first instance of every custom-format op name in
    the module: add a discardable attribute, drop each attribute / property, set each property that has
    a declared default to that default; for the first instance of every (op name, operand count) with a
    variadic/optional operand definition and every distinct (operand count, dense integer arrays) shape: duplicate / remove one operand (see change_operand_count)."""
    seen = set()
    seen_shape = set()
    jobs = []
    from xdsl.ir import Operation
    for pos, o in enumerate(module.walk()):
        if o is module or type(o).print is Operation.print:
            continue
        get_def = getattr(type(o), "get_irdl_definition", None)
        # operand-count variants: first instance of every (op name, operand count, integer arrays) shape
        if get_def is not None and any(_is_variadic(d) for _, d in get_def().operands):
            n = len(o.operands)
            shape = (f"{n}/" + "|".join(",".join(map(str, v)) for _, _, v in _int_arrays(o)))[:80]
            if (o.name, shape) not in seen_shape:
                seen_shape.add((o.name, shape))
                idxs = sorted(set(list(range(min(n, 6))) + list(range(max(0, n - 2), n))))
                for i in idxs:
                    jobs.append(["dup_operand", pos, f"{i}/{shape}"])
                    jobs.append(["del_operand", pos, f"{i}/{shape}"])
        if o.name in seen:
            continue
        seen.add(o.name)
        jobs.append(["add", pos, "extra"])
        for k in sorted(o.attributes):
            jobs.append(["drop_attr", pos, k])
        for k in sorted(o.properties):
            jobs.append(["drop_prop", pos, k])
        if get_def is not None:
            for n, d in get_def().properties.items():
                dv = getattr(d, "default_value", None)
                if dv is not None and o.properties.get(n) != dv:
                    jobs.append(["default", pos, n])
    return jobs


def _is_variadic(d) -> bool:
    from xdsl.irdl import VariadicDef
    return isinstance(d, VariadicDef)      # OptionalDef is a VariadicDef


def _int_arrays(o):
    """(container name, key, values) of every dense i32/i64 array attached to the op."""
    from xdsl.dialects.builtin import DenseArrayBase, IntegerType
    for cname, cont in (("properties", o.properties), ("attributes", o.attributes)):
        for k in sorted(cont):
            a = cont[k]
            if isinstance(a, DenseArrayBase) and isinstance(a.elt_type, IntegerType):
                yield cname, k, list(a.get_values())


def _set_array(o, cname, k, vals):
    from xdsl.dialects.builtin import DenseArrayBase
    cont = getattr(o, cname)
    cont[k] = DenseArrayBase.from_list(cont[k].elt_type, vals)


def change_operand_count(module, o, i, delta) -> bool:
    """Duplicate (delta=+1) or remove (delta=-1) operand i of o, keeping the instance valid: the segment
    size attribute of an AttrSizedOperandSegments op follows; if the op still does not verify, the first
    single-entry +-1 adjustment of another dense integer array of the op (ops that encode a variadic of
    variadics in an extra segments property, e.g. cf.switch) that makes the module verify is taken."""
    from xdsl.irdl import AttrSizedOperandSegments
    ops = list(o.operands)
    if i >= len(ops):
        return False
    new = ops[:i + 1] + [ops[i]] + ops[i + 1:] if delta > 0 else ops[:i] + ops[i + 1:]
    opt = next((x for x in type(o).get_irdl_definition().options if isinstance(x, AttrSizedOperandSegments)), None)
    seg_key = None
    if opt is not None:
        cont = opt.container(o)
        if opt.attribute_name not in cont:
            return False
        sizes = list(cont[opt.attribute_name].get_values())
        acc = 0
        for s_i, sz in enumerate(sizes):
            if i < acc + sz:
                sizes[s_i] += delta
                break
            acc += sz
        else:
            return False
        seg_key = opt.attribute_name
        _set_array(o, "properties" if opt.as_property else "attributes", seg_key, sizes)
    o.operands = new
    try:
        module.verify()
        return True
    except Exception:
        pass
    for cname, k, vals in list(_int_arrays(o)):
        if k == seg_key:
            continue
        for j in range(len(vals)):
            if vals[j] + delta < 0:
                continue
            trial = list(vals)
            trial[j] += delta
            _set_array(o, cname, k, trial)
            try:
                module.verify()
                return True
            except Exception:
                _set_array(o, cname, k, vals)
    return False


def apply_sweep_mut(module, mut) -> bool:
    from xdsl.dialects.builtin import UnitAttr
    kind, pos, key = mut
    ops = list(module.walk())
    if pos >= len(ops):
        return False
    o = ops[pos]
    if kind == "add":
        if key in o.attributes or key in o.properties:
            return False
        o.attributes[key] = UnitAttr()
    elif kind == "drop_attr":
        if key not in o.attributes:
            return False
        del o.attributes[key]
    elif kind == "drop_prop":
        if key not in o.properties:
            return False
        del o.properties[key]
    elif kind == "default":
        d = type(o).get_irdl_definition().properties[key]
        o.properties[key] = d.default_value
    elif kind in ("dup_operand", "del_operand"):
        return change_operand_count(module, o, int(key.split("/")[0]), 1 if kind == "dup_operand" else -1)
    else:
        raise AssertionError(kind)
    try:
        module.verify()
    except Exception:
        return False   # not a valid instance: outside the domain
    return True


def checks(h):
    ch = corpus.chunks()
    files = sorted({rel for rel, _, _ in ch})
    # quick: attribute/property sweeps and the plain corpus round trip on a seed-dependent sixth of the
    # corpus FILES; operand-count variants on all files, de-duplicated per shard instead of per file.
    # thorough: everything on every file. Every quick case is also a thorough case.
    attr_files = [f for i, f in enumerate(files) if (i + h.seed) % 6 == 0] if h.quick else files
    rest = [f for f in files if f not in set(attr_files)]
    # files are the unit of sharding and of de-duplication, so that the set of cases does not depend on
    # the number of shards: per file, every (op name, mutation) is exercised on its first instance
    mine = {f for i, f in enumerate(attr_files) if i % h.nshards == h.shard} | \
           {f for i, f in enumerate(rest) if i % h.nshards == h.shard}
    attr_files = set(attr_files)
    done: set = set()
    gdone: set = set()
    cur = None
    for rel, idx, text in ch:
        if rel not in mine:
            continue
        full = rel in attr_files
        if rel != cur:
            cur, done = rel, set()
        r = {"kind": "corpus", "file": rel, "idx": idx}
        if full:
            run(h, r)
        if len(text) <= BIG:
            units = [r]
        else:
            # a big chunk: sweep each self-contained top-level op (e.g. a func.func) as its own module,
            # so that one variant does not cost a round trip of the whole file
            whole = load_chunk(r)
            ntop = len(list(whole.body.block.ops)) if whole is not None else 0
            units = [{"kind": "corpus", "file": rel, "idx": idx, "top": k} for k in range(ntop)]
            if h.quick:
                units = units[:12]   # quick: the first 12 top-level ops of a big chunk; thorough: all
        for unit in units:
            module = load_chunk(unit)
            if module is None:
                continue
            for mut in sweep_jobs(module):
                opnd = mut[0].endswith("_operand")
                if not full and not opnd:
                    continue
                opname = list(module.walk())[mut[1]].name
                key = (opname, mut[0], mut[2])
                seen = done
                if h.quick and opnd:
                    # quick: first and last operand position; one instance per (op, operand count)
                    i, n = mut[2].split("/")[:2]
                    if int(i) not in (0, int(n) - 1):
                        continue
                    key, seen = (opname, mut[0], i, n), gdone
                if key in seen:
                    continue
                seen.add(key)
                run(h, {**unit, "kind": "sweep", "mut": mut})
