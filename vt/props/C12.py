"""C12 — Worklist, union-find and scoped dictionary follow their abstract models.

Recipe: {"kind": "worklist"|"ids"|"ds"|"scoped", "seq": [[op, args...], ...], ...}
Oracle: plain Python reference models, compared after every call (return value / raised
exception class), observers evaluated on a deep copy so that they do not perturb the history
unless they are themselves part of the sequence.
"""
from __future__ import annotations

import copy
import itertools

from hypothesis import strategies as st

ID = "C12"
SHARDS = {"quick": 16, "thorough": 16}
RULE = ("exhaustive enumeration of all operation sequences of length L over a small universe "
        "(worklist: push/pop/remove/bool over 3 items; union-find: union/union_left/find/add over "
        "<=4 elements, int and generic variants; scoped dict: set over 3 nested scopes, 2 keys, "
        "values None/0/1/''/False) plus Hypothesis-generated longer sequences; every return "
        "value compared with a list/partition/chain-of-dicts model after every call. "
        "Non-trivial: worklist sequence with remove followed by re-push of the same item or pop "
        "after remove; union-find sequence with a union joining two classes of which one has "
        ">=2 members; scoped sequence where an inner scope shadows a key with a falsy value.")
ASSUMPTIONS = ["reference models (list, set of frozensets, chain of dicts) are correct",
               "DisjointSet is used with distinct hashable values (documented use)"]

VALUES = [None, 0, 1, "", False]


# ----------------------------------------------------------------------------------------------
# worklist
def run_worklist(seq):
    from xdsl.utils.worklist import Worklist
    w = Worklist()
    model: list = []
    for i, (op, *args) in enumerate(seq):
        if op == "push":
            w.push(args[0])
            if args[0] not in model:
                model.append(args[0])
            got = exp = None
        elif op == "remove":
            w.remove(args[0])
            if args[0] in model:
                model.remove(args[0])
            got = exp = None
        elif op == "bool":
            got, exp = bool(w), bool(model)
        elif op == "pop":
            try:
                got = ("ok", w.pop())
            except IndexError:
                got = ("IndexError",)
            exp = ("ok", model.pop()) if model else ("IndexError",)
        else:
            raise AssertionError(op)
        if got != exp:
            return ({"check": "worklist", "op": op}, f"step {i} {op}{args}: got {got!r} expected {exp!r}")
    # drain: remaining content must be exactly the model in LIFO order
    rest = []
    w2 = copy.deepcopy(w)
    while w2:
        rest.append(w2.pop())
    if rest != model[::-1]:
        return ({"check": "worklist", "op": "drain"}, f"final content {rest!r} expected {model[::-1]!r}")
    return None


def nt_worklist(seq):
    removed = set()
    for op, *a in seq:
        if op == "remove":
            removed.add(a[0])
        elif op == "push" and a[0] in removed:
            return True
        elif op == "pop" and removed:
            return True
    return False


# ----------------------------------------------------------------------------------------------
# union-find
class PartModel:
    def __init__(self, n):
        self.classes = [frozenset([i]) for i in range(n)]
        self.n = n

    def cls(self, x):
        for c in self.classes:
            if x in c:
                return c
        raise KeyError(x)

    def union(self, a, b):
        ca, cb = self.cls(a), self.cls(b)
        if ca == cb:
            return False
        self.classes = [c for c in self.classes if c not in (ca, cb)] + [ca | cb]
        return True

    def add(self):
        self.classes.append(frozenset([self.n]))
        self.n += 1
        return self.n - 1


def _observe_ids(real, model, generic, names):
    """Full observation on a deep copy; returns error text or None."""
    r = copy.deepcopy(real)
    n = model.n
    find = (lambda i: names.index(r.find(names[i]))) if generic else (lambda i: r[i])
    reps = {}
    for i in range(n):
        try:
            reps[i] = find(i)
        except Exception as e:  # noqa
            return f"find({i}) raised {type(e).__name__}"
        if reps[i] not in model.cls(i):
            return f"find({i})={reps[i]} not a member of its class {sorted(model.cls(i))}"
    for c in model.classes:
        if len({reps[i] for i in c}) != 1:
            return f"class {sorted(c)} has several representatives {[reps[i] for i in sorted(c)]}"
    for i in range(n):
        for j in range(n):
            conn = r.connected(names[i], names[j]) if generic else r.connected(i, j)
            if conn != (model.cls(i) == model.cls(j)):
                return f"connected({i},{j})={conn}"
    roots = list(r.roots())
    roots_i = [names.index(x) for x in roots] if generic else roots
    if sorted(roots_i) != sorted({reps[i] for i in range(n)}):
        return f"roots()={roots_i} expected {sorted(set(reps.values()))}"
    size = len(r) if generic else r.value_count()
    if size != n:
        return f"size {size} expected {n}"
    if not generic:
        for bad in (-1, n):
            try:
                r[bad]
                return f"find({bad}) out of range did not raise"
            except KeyError:
                pass
    else:
        try:
            r.find("zz")
            return "find(missing) did not raise"
        except KeyError:
            pass
    return None


def run_ds(seq, n0, generic):
    from xdsl.utils.disjoint_set import DisjointSet, IntDisjointSet
    names = ["a", "b", "c", "d", "e", "f", "g", "h"]
    real = DisjointSet(names[:n0]) if generic else IntDisjointSet(size=n0)
    model = PartModel(n0)
    kind = "ds" if generic else "ids"
    key = (lambda i: names[i]) if generic else (lambda i: i)
    for i, (op, *a) in enumerate(seq):
        if op in ("union", "union_left"):
            x, y = a
            if op == "union_left":
                rr = copy.deepcopy(real)
                left_rep = rr.find(key(x)) if generic else rr[x]
            got = getattr(real, op)(key(x), key(y))
            exp = model.union(x, y)
            if got != exp:
                return ({"check": kind, "op": op}, f"step {i} {op}{a}: returned {got} expected {exp}")
            if op == "union_left":
                rr = copy.deepcopy(real)
                now = rr.find(key(x)) if generic else rr[x]
                if now != left_rep:
                    return ({"check": kind, "op": "union_left_rep"},
                            f"step {i} union_left{a}: representative {left_rep}->{now}")
        elif op == "find":
            got = real.find(key(a[0])) if generic else real[a[0]]
            gi = names.index(got) if generic else got
            if gi not in model.cls(a[0]):
                return ({"check": kind, "op": "find"}, f"step {i} find({a[0]})={gi}")
        elif op == "add":
            if generic:
                real.add(names[model.n])
                model.add()
            else:
                got = real.add()
                exp = model.add()
                if got != exp:
                    return ({"check": kind, "op": "add"}, f"step {i} add returned {got} expected {exp}")
        else:
            raise AssertionError(op)
        err = _observe_ids(real, model, generic, names)
        if err:
            return ({"check": kind, "op": "observe_after_" + op}, f"step {i} after {op}{a}: {err}")
    return None


def nt_ds(seq, n0):
    m = PartModel(n0)
    for op, *a in seq:
        if op in ("union", "union_left"):
            ca, cb = m.cls(a[0]), m.cls(a[1])
            if ca != cb and max(len(ca), len(cb)) >= 2:
                return True
            m.union(*a)
        elif op == "add":
            m.add()
    return False


def ds_ops(n, allow_add):
    ops = []
    for i in range(n):
        for j in range(n):
            if i != j:
                ops.append(["union", i, j])
                ops.append(["union_left", i, j])
    for i in range(n):
        ops.append(["find", i])
    if allow_add:
        ops.append(["add"])
    return ops


def enum_ds(n0, nmax, L):
    """All sequences of exactly length L with dynamic alphabet (add grows the universe)."""
    def rec(prefix, n):
        if len(prefix) == L:
            yield list(prefix)
            return
        for op in ds_ops(n, n < nmax):
            prefix.append(op)
            yield from rec(prefix, n + 1 if op[0] == "add" else n)
            prefix.pop()
    yield from rec([], n0)


# ----------------------------------------------------------------------------------------------
# scoped dict
def run_scoped(seq, nscopes, shape="chain"):
    from xdsl.utils.scoped_dict import ScopedDict
    scopes = []
    parents = []
    for i in range(nscopes):
        if shape == "chain" or i == 0:
            p = i - 1
        else:  # "fork": scopes 1.. are all children of scope 0
            p = 0
        parents.append(p)
        scopes.append(ScopedDict(scopes[p] if p >= 0 else None, name=f"s{i}"))
    model = [dict() for _ in range(nscopes)]

    def lookup(si, k):
        while si >= 0:
            if k in model[si]:
                return (True, model[si][k])
            si = parents[si]
        return (False, None)

    keys = sorted({a[1] for op, *a in seq if op == "set"} | {"k0", "k1"})
    for i, (op, *a) in enumerate(seq):
        if op == "set":
            si, k, vi = a
            scopes[si][k] = VALUES[vi]
            model[si][k] = VALUES[vi]
        else:
            raise AssertionError(op)
        for si in range(nscopes):
            for k in keys:
                found, val = lookup(si, k)
                sd = scopes[si]
                obs = {}
                try:
                    obs["getitem"] = ("ok", sd[k])
                except KeyError:
                    obs["getitem"] = ("KeyError",)
                obs["get"] = ("ok", sd.get(k))
                obs["get_default"] = ("ok", sd.get(k, "DEFAULT"))
                obs["contains"] = ("ok", k in sd)
                exp = {
                    "getitem": ("ok", val) if found else ("KeyError",),
                    "get": ("ok", val if found else None),
                    "get_default": ("ok", val if found else "DEFAULT"),
                    "contains": ("ok", found),
                }
                for form in exp:
                    g, e = obs[form], exp[form]
                    same = g == e and (len(g) < 2 or type(g[1]) is type(e[1]))
                    if not same:
                        vcls = "None" if (found and val is None) else "other"
                        return ({"check": "scoped", "form": form, "value": vcls},
                                f"step {i}: scope {si} key {k}: {form} -> {g!r} expected {e!r}")
    return None


def nt_scoped(seq, nscopes, shape="chain"):
    # an inner scope holds a falsy value for a key that an outer scope also defines
    defs = {}
    for op, si, k, vi in seq:
        defs.setdefault(k, {})[si] = VALUES[vi]
    for k, d in defs.items():
        for si, v in d.items():
            if si > 0 and not v and any(sj < si for sj in d):
                return True
    return False


# ----------------------------------------------------------------------------------------------
def _guard(kind, fn, *args):
    """An exception the model does not predict (anything but the compared IndexError/KeyError
    outcomes, which are caught where they are expected) is a disagreement with the model."""
    try:
        return fn(*args)
    except Exception as e:
        import traceback
        fr = [f for f in traceback.extract_tb(e.__traceback__) if "/xdsl/" in f.filename]
        site = (fr[-1].filename.split("/xdsl/", 1)[1] + ":" + fr[-1].name) if fr else "harness"
        if not fr:
            raise
        return ({"check": kind, "op": "unexpected_exception", "exc": type(e).__name__, "site": site},
                f"{type(e).__name__}: {e} raised inside {site}")


def run_recipe(h, r):
    kind = r["kind"]
    seq = r["seq"]
    if kind == "worklist":
        res, nt = _guard(kind, run_worklist, seq), nt_worklist(seq)
    elif kind in ("ids", "ds"):
        res, nt = _guard(kind, run_ds, seq, r["n0"], kind == "ds"), nt_ds(seq, r["n0"])
    elif kind == "scoped":
        res = _guard(kind, run_scoped, seq, r["nscopes"], r.get("shape", "chain"))
        nt = nt_scoped(seq, r["nscopes"])
    else:
        raise AssertionError(kind)
    return res, nt


def replay(h, recipe):
    res, nt = run_recipe(h, recipe)
    h.case(recipe, nt, label="replay")
    if res:
        h.mismatch(res[0], recipe, res[1])


def _enum(h, kind, gen, extra):
    for idx, seq in enumerate(gen):
        if idx % h.nshards != h.shard:
            continue
        r = dict(kind=kind, seq=[list(x) for x in seq], **extra)
        res, nt = run_recipe(h, r)
        h.case(r, nt, label="enum_" + kind, distinct=True)
        if res:
            h.mismatch(res[0], r, res[1])


def checks(h):
    q = h.quick
    items = ["a", "b", "c"]
    wl_ops = [["push", x] for x in items] + [["remove", x] for x in items] + [["pop"], ["bool"]]
    _enum(h, "worklist", itertools.product(wl_ops, repeat=5 if q else 7), {})
    _enum(h, "ids", enum_ds(2, 4, 3 if q else 4), {"n0": 2})
    _enum(h, "ids", enum_ds(3, 4, 3 if q else 4), {"n0": 3})
    _enum(h, "ds", enum_ds(3, 3, 3 if q else 4), {"n0": 3})
    sd_ops = [["set", s, k, v] for s in range(3) for k in ("k0", "k1") for v in (0, 1, 2)]
    _enum(h, "scoped", itertools.product(sd_ops, repeat=3 if q else 4), {"nscopes": 3})
    sd_ops2 = [["set", s, "k0", v] for s in range(3) for v in range(5)]
    _enum(h, "scoped", itertools.product(sd_ops2, repeat=3 if q else 4), {"nscopes": 3})
    sd_ops3 = [["set", s, "k0", v] for s in range(3) for v in (0, 2, 3)]
    _enum(h, "scoped", itertools.product(sd_ops3, repeat=3 if q else 4),
          {"nscopes": 3, "shape": "fork"})
    h.exhaustive = True

    # longer random histories
    wl_item = st.sampled_from(["a", "b", "c", "d", "e"])
    wl_op = st.one_of(st.tuples(st.just("push"), wl_item), st.tuples(st.just("remove"), wl_item),
                      st.just(("pop",)), st.just(("bool",))).map(list)
    strat_wl = st.builds(lambda s: {"kind": "worklist", "seq": s}, st.lists(wl_op, min_size=4, max_size=40))
    idx = st.integers(0, 5)
    ds_op = st.one_of(st.tuples(st.sampled_from(["union", "union_left"]), idx, idx),
                      st.tuples(st.just("find"), idx)).map(list)
    strat_ds = st.builds(lambda k, s: {"kind": k, "n0": 6, "seq": s},
                         st.sampled_from(["ids", "ds"]), st.lists(ds_op, min_size=3, max_size=25))
    sd_op = st.tuples(st.just("set"), st.integers(0, 3), st.sampled_from(["k0", "k1", "k2"]),
                      st.integers(0, 4)).map(list)
    strat_sd = st.builds(lambda sh, s: {"kind": "scoped", "nscopes": 4, "shape": sh, "seq": s},
                         st.sampled_from(["chain", "fork"]), st.lists(sd_op, min_size=2, max_size=12))

    def body(r):
        res, nt = run_recipe(h, r)
        h.case(r, nt, label="random_" + r["kind"])
        if res:
            h.mismatch(res[0], r, res[1])

    n = h.scale(150, 2500)
    h.hyp("random_worklist", strat_wl, body, n, 1)
    h.hyp("random_ds", strat_ds, body, n, 2)
    h.hyp("random_scoped", strat_sd, body, n, 3)
