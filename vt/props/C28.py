"""C28 -- Equality saturation preserves program results.

Pipeline under test (the one of docs/notebooks/eqsat.py and tests/filecheck/transforms/{eqsat-*,apply-eqsat-pdl-interp}),
every pass constructed through its public dataclass and applied to the module, `module.verify()` after every pass
(what the xdsl-opt driver does between passes):

    eqsat-create-eclasses
    apply-eqsat-pdl-interp{pdl_interp_file=<scratch>/rules-*.mlir max_iterations=1..4}     (kind "rules" only)
    eqsat-add-costs{default=1 [cost_file=<scratch>/costs-*.json]}
    eqsat-extract

The rules file is produced from a PDL pattern module by xDSL's own `convert-pdl-to-pdl-interp` followed by
`convert-pdl-interp-to-eqsat-pdl-interp` (no mlir-opt here; `apply-eqsat-pdl` itself shells out to mlir-opt).

Rule library: every rule is ONE pair of terms (lhs, rhs) over variables a,b,c, constants ("k", n) and binary arith
ops.  From that one term pair are derived (1) the PDL pattern text and (2) the two term evaluators that validate
`lhs == rhs` with vt.refsem.arith_eval on boundary x boundary (x boundary) + pseudo-random operands (exhaustive for
one i8 variable) for every type the rule is used at.  A rule failing validation is a harness error.
Rules that contain constants are instantiated per type (`pdl.type : iN`, `pdl.attribute = n : iN`).
Each rule is also compiled on its own once per process and the compiled matcher is inspected: it must contain one
`pdl_interp.check_attribute` per constant of the lhs and one `pdl_interp.are_equal ... : !pdl.value` per repeated
variable use.  A rule whose compilation raises or drops such a predicate (defects of convert-pdl-to-pdl-interp,
property C27: e.g. `pdl.attribute = 0 : i32` is tested for truthiness and dropped) is NOT a sound rule as compiled;
it is excluded from the library of this process and counted (`excluded: rule_miscompiled:<name>`).

Recipes:
  {"kind": "rules",   "ty": "i8"|"i32"|"i64"|"index", "rules": [rule names], "iters": 1..4, "costs": {op name: 1..9},
   "prog": <progen recipe>}
  {"kind": "norules", "ty": ..., "costs": {...}, "prog": <progen recipe>}         create-eclasses, add-costs, extract

Signatures:
  {"check": "pipeline_raises", "pass", "exc", "site"}          a pass raised something that is not a stated limitation
  {"check": "intermediate_invalid" | "output_invalid", "pass", "why"}   module.verify() fails after that pass
  {"check": "eclass_left", "ops", "kind"}                      equivalence.* ops survive eqsat-extract
  {"check": "output_not_ssa" | "output_cyclic", "kind"}        an operand is used before / without being defined
  {"check": "result_changed", "rules", "ops"}                  refsem results differ; rules / op kinds of the case after
                                                               the internal minimisation ("(not minimised)" once the
                                                               per-process minimisation budget is used up)
  {"check": "norules_structure", "ops"}                        (b): op multisets differ after cse + unused-op removal
"""
from __future__ import annotations

import atexit
import contextlib
import io
import itertools
import json
import os
import shutil
import signal
import tempfile
import traceback
import zlib

from hypothesis import strategies as st

from vt import progen, refsem
from vt.run import digest, quiet

ID = "C28"
SHARDS = {"quick": 16, "thorough": 16}
RULE = ("progen single-block pure integer functions: 2-7 statements of the rule vocabulary (addi muli subi andi ori xori "
        "shli, constants 0/1/2/-1/3/5, duplicated ops) followed by <=5 progen statements; one of i8/i32/i64/index, in "
        "the flavours arith / mixed (+i1: cmpi select min/max right shifts) / two (+ a second width and casts) / "
        "funcs2 (two functions in the module); 0-3 arguments, 1-2 results. (a) x a list of 0..6 rules (empty in 1 of "
        "10) from a library of sound PDL rewrites (commutativity of addi/muli/andi/ori/xori, associativity of "
        "addi/muli both ways, a&a->a, a|a->a, a*(b+c)<->a*b+a*c, x+0->x, x*1->x, x*0->0, x*2<->x<<1, x-x->0, "
        "x^x->0, x+x->x*2, a-b->a+b*-1), each validated against vt.refsem before use and compiled by "
        "convert-pdl-to-pdl-interp + convert-pdl-interp-to-eqsat-pdl-interp into a scratch file, max_iterations "
        "1..4, unit costs or a random per-op cost table (1..9) through cost_file: eqsat-create-eclasses, "
        "apply-eqsat-pdl-interp, eqsat-add-costs, eqsat-extract; (b) no rules: eqsat-create-eclasses, "
        "eqsat-add-costs, eqsat-extract. module.verify() after every pass as xdsl-opt does. Oracle: the output "
        "verifies, contains no equivalence.* op, every operand is defined before its use (if not, the check goes on "
        "with the topologically re-ordered output; a cyclic output is its own violation), and vt.refsem gives the "
        "same results before/after (compare_results) for every function on 6 recipe-derived input vectors + the "
        "boundary grid (<=2 arguments; all 256 values for one i8 argument); (b) additionally: after running xDSL's "
        "cse and dropping unused operations on both, the multisets of non-constant operation names are equal. "
        "Exceptions: DiagnosticException / InterpretationError / assertion messages that state a limitation ('not "
        "supported', 'only supports') are discards, anything else raised by a pass on these valid inputs is a "
        "violation (pipeline_raises). A CPU-time watchdog per case gives inconclusive. A result_changed case is "
        "minimised inside the check (rules and statements deleted) and its signature names the rules and op kinds of "
        "the minimised case. Non-trivial: after apply-eqsat-pdl-interp at least one e-class op has >=2 operands.")
ASSUMPTIONS = ["vt.refsem implements the MLIR arith/func semantics (self-test table run once per process)",
               "the rule library is sound: every rule instance is validated term-against-term with refsem.arith_eval "
               "before it is admitted; the PDL text and the validated terms are generated from the same term pair",
               "convert-pdl-to-pdl-interp compiles a rule faithfully when the compiled matcher of that rule alone has "
               "one check_attribute per lhs constant and one value are_equal per repeated variable use (rules for "
               "which it does not are excluded: that pass is property C27's subject)",
               "xDSL's cse pass is deterministic (used only to normalise both sides in the no-rules structural "
               "comparison)",
               "verifying the module between passes, as xdsl-opt does, is part of using the pipeline"]

TYPES = ["i8", "i32", "i64", "index"]
TIME_BUDGET_CPU_S = 6.0

# ---------------------------------------------------------------------------------------------
# rule library: name -> (lhs term, rhs term)
# ---------------------------------------------------------------------------------------------


def K(n):
    return ("k", n)


def _comm(op):
    return (op, "a", "b"), (op, "b", "a")


def _assoc(op):
    return (op, (op, "a", "b"), "c"), (op, "a", (op, "b", "c"))


RULES = {
    "comm_addi": _comm("addi"), "comm_muli": _comm("muli"), "comm_andi": _comm("andi"),
    "comm_ori": _comm("ori"), "comm_xori": _comm("xori"),
    "assoc_addi": _assoc("addi"), "assoc_addi_rev": _assoc("addi")[::-1],
    "assoc_muli": _assoc("muli"), "assoc_muli_rev": _assoc("muli")[::-1],
    "and_self": (("andi", "a", "a"), "a"),
    "or_self": (("ori", "a", "a"), "a"),
    "distrib": (("muli", "a", ("addi", "b", "c")), ("addi", ("muli", "a", "b"), ("muli", "a", "c"))),
    "factor": (("addi", ("muli", "a", "b"), ("muli", "a", "c")), ("muli", "a", ("addi", "b", "c"))),
    # typed (contain constants)
    "add_zero": (("addi", "a", K(0)), "a"),
    "mul_one": (("muli", "a", K(1)), "a"),
    "mul_zero": (("muli", "a", K(0)), K(0)),
    "mul2_shl": (("muli", "a", K(2)), ("shli", "a", K(1))),
    "shl_mul2": (("shli", "a", K(1)), ("muli", "a", K(2))),
    "sub_self": (("subi", "a", "a"), K(0)),
    "xor_self": (("xori", "a", "a"), K(0)),
    "add_self": (("addi", "a", "a"), ("muli", "a", K(2))),
    "sub_to_add": (("subi", "a", "b"), ("addi", "a", ("muli", "b", K(-1)))),
}
RULE_NAMES = sorted(RULES)


def _is_var(t):
    return isinstance(t, str)


def _is_const(t):
    return isinstance(t, tuple) and t[0] == "k"


def _consts(t):
    if _is_var(t):
        return []
    if _is_const(t):
        return [t]
    return _consts(t[1]) + _consts(t[2])


def _var_uses(t):
    if _is_var(t):
        return [t]
    if _is_const(t):
        return []
    return _var_uses(t[1]) + _var_uses(t[2])


def is_typed(name):
    lhs, rhs = RULES[name]
    return bool(_consts(lhs) or _consts(rhs))


def pdl_text(name, ty):
    """The PDL pattern of rule `name`; `ty` is only used by typed rules."""
    lhs, rhs = RULES[name]
    typed = is_typed(name)
    lines = [f"  %t = pdl.type : {ty}" if typed else "  %t = pdl.type"]
    vals: dict = {}
    n = [0]

    def fresh(p):
        n[0] += 1
        return f"%{p}{n[0]}"

    def emit_match(t):
        """-> the !pdl.value of term t; the op value of an op term is in ops[t]."""
        if t in vals:
            return vals[t]
        if _is_var(t):
            v = f"%{t}"
            lines.append(f"  {v} = pdl.operand")
        elif _is_const(t):
            a, o, v = fresh("ka"), fresh("ko"), fresh("kv")
            lines.append(f"  {a} = pdl.attribute = {t[1]} : {ty}")
            lines.append(f"  {o} = pdl.operation \"arith.constant\" {{\"value\" = {a}}} -> (%t : !pdl.type)")
            lines.append(f"  {v} = pdl.result 0 of {o}")
        else:
            x, y = emit_match(t[1]), emit_match(t[2])
            o = fresh("mo")
            lines.append(f"  {o} = pdl.operation \"arith.{t[0]}\" ({x}, {y} : !pdl.value, !pdl.value) "
                         f"-> (%t : !pdl.type)")
            ops[t] = o
            if t is lhs:
                return None
            v = fresh("mv")
            lines.append(f"  {v} = pdl.result 0 of {o}")
        vals[t] = v
        return v

    ops: dict = {}
    emit_match(lhs)
    root = ops[lhs]
    lines.append(f"  pdl.rewrite {root} {{")
    rvals = dict(vals)

    def emit_rw(t, top):
        """-> ('value', %v) or ('op', %o)"""
        if t in rvals:
            return "value", rvals[t]
        if _is_const(t):
            a, o = fresh("ra"), fresh("ro")
            lines.append(f"    {a} = pdl.attribute = {t[1]} : {ty}")
            lines.append(f"    {o} = pdl.operation \"arith.constant\" {{\"value\" = {a}}} -> (%t : !pdl.type)")
        else:
            x, y = emit_rw(t[1], False)[1], emit_rw(t[2], False)[1]
            o = fresh("ro")
            lines.append(f"    {o} = pdl.operation \"arith.{t[0]}\" ({x}, {y} : !pdl.value, !pdl.value) "
                         f"-> (%t : !pdl.type)")
        if top:
            return "op", o
        v = fresh("rv")
        lines.append(f"    {v} = pdl.result 0 of {o}")
        rvals[t] = v
        return "value", v

    kind, x = emit_rw(rhs, True)
    lines.append(f"    pdl.replace {root} with {x}" if kind == "op" else
                 f"    pdl.replace {root} with ({x} : !pdl.value)")
    lines.append("  }")
    inst = f"{name}_{ty}" if typed else name
    return f"pdl.pattern @{inst} : benefit(1) {{\n" + "\n".join(lines) + "\n}\n"


def _eval_term(t, env, ty):
    if _is_var(t):
        return env[t]
    w = refsem.int_width(ty)
    if _is_const(t):
        return t[1] & ((1 << w) - 1)
    x, y = _eval_term(t[1], env, ty), _eval_term(t[2], env, ty)
    if x is refsem.POISON or y is refsem.POISON:
        return refsem.POISON
    return refsem.arith_eval("arith." + t[0], (x, y), [ty, ty], [ty])[0]


_validated: dict = {}


def validate_rule(name, ty):
    """lhs == rhs on boundary grid + pseudo-random operands (refsem).  Raises on failure (harness error)."""
    key = (name, ty)
    if key in _validated:
        return
    lhs, rhs = RULES[name]
    vs = sorted(set(_var_uses(lhs)) | set(_var_uses(rhs)))
    if not set(_var_uses(rhs)) <= set(_var_uses(lhs)):
        raise RuntimeError(f"C28 rule {name}: rhs uses a variable the lhs does not bind")
    w = refsem.int_width(ty)
    m = (1 << w) - 1
    bs = [v & m for v in progen.boundary_ints(ty)]
    if len(vs) >= 3:
        bs = bs[:11]
    grid = list(itertools.product(bs, repeat=len(vs)))
    if w == 8 and len(vs) == 1:
        grid = [(v,) for v in range(256)]
    x = zlib.crc32(f"{name}/{ty}".encode()) | 1
    for _ in range(300):
        tup = []
        for _v in vs:
            x = (x * 6364136223846793005 + 1442695040888963407) & ((1 << 64) - 1)
            tup.append((x >> (64 - w)) & m)
        grid.append(tuple(tup))
    for tup in grid:
        env = dict(zip(vs, tup))
        lv, rv = _eval_term(lhs, env, ty), _eval_term(rhs, env, ty)
        if lv is refsem.POISON:
            continue        # refinement: where the lhs is poison anything goes
        if rv is refsem.POISON or lv != rv:
            raise RuntimeError(f"C28 rule library: {name} at {ty} is unsound on {env}: lhs {lv!r} rhs {rv!r}")
    _validated[key] = len(grid)


# ---------------------------------------------------------------------------------------------
# process state: context, scratch dir, compiled rule files
# ---------------------------------------------------------------------------------------------

_state: dict = {}


def _cleanup():
    d = _state.pop("scratch", None)
    if d and _state.get("scratch_pid") == os.getpid():
        shutil.rmtree(d, ignore_errors=True)


def _init():
    if "ctx" in _state and _state.get("scratch_pid") == os.getpid():
        return
    refsem.selftest()
    from vt.corpus import make_ctx
    _state.clear()
    _state["ctx"] = make_ctx(False)
    _state["scratch"] = tempfile.mkdtemp(prefix="c28-")
    _state["scratch_pid"] = os.getpid()
    _state["files"] = {}
    _state["rule_ok"] = {}
    atexit.register(_cleanup)


def render(m) -> str:
    from xdsl.printer import Printer
    s = io.StringIO()
    Printer(stream=s).print_op(m)
    return s.getvalue()


def compile_rules(insts):
    """[(name, ty)] -> text of the eqsat_pdl_interp module (matcher + rewriters)."""
    from xdsl.parser import Parser
    from xdsl.transforms.convert_pdl_interp_to_eqsat_pdl_interp import ConvertPDLInterpToEqsatPDLInterpPass
    from xdsl.transforms.convert_pdl_to_pdl_interp.conversion import ConvertPDLToPDLInterpPass
    ctx = _state["ctx"]
    text = "builtin.module {\n" + "".join(pdl_text(n, t) for n, t in insts) + "}\n"
    m = Parser(ctx, text).parse_module()
    m.verify()
    ConvertPDLToPDLInterpPass().apply(ctx, m)
    m.verify()
    ConvertPDLInterpToEqsatPDLInterpPass().apply(ctx, m)
    m.verify()
    return render(m), m


def rule_available(name, ty):
    """None if rule `name` at `ty` compiles faithfully on its own, else the reason it is excluded."""
    key = (name, ty if is_typed(name) else "*")
    ok = _state["rule_ok"]
    if key in ok:
        return ok[key]
    why = None
    try:
        with quiet():
            _, m = compile_rules([(name, ty)])
    except Exception as e:      # conversion pass raised: rule unusable here (C27's subject), recorded by the caller
        why = f"compile_raises:{type(e).__name__}"
        m = None
    if m is not None:
        lhs = RULES[name][0]
        want_attr = len(_consts(lhs))
        uses = _var_uses(lhs)
        want_eq = len(uses) - len(set(uses))
        got_attr = got_eq = 0
        for op in m.walk():
            if op.name == "pdl_interp.check_attribute":
                got_attr += 1
            elif op.name == "pdl_interp.switch_attribute":
                got_attr += 1
            elif op.name == "pdl_interp.are_equal" and str(op.operands[0].type) == "!pdl.value":
                got_eq += 1
        rhs_new = [c for c in _consts(RULES[name][1]) if c not in _consts(lhs)]
        got_new = sum(1 for op in m.walk() if op.name == "pdl_interp.create_attribute")
        if got_attr < want_attr:
            why = "constant_constraint_dropped"
        elif got_new < len(set(rhs_new)):
            why = "created_constant_dropped"
        elif got_eq < want_eq:
            why = "equality_constraint_dropped"
    ok[key] = why
    return why


def rules_file(insts):
    key = tuple(insts)
    files = _state["files"]
    if key not in files:
        with quiet():
            text, _ = compile_rules(insts)
        path = os.path.join(_state["scratch"], f"rules-{len(files)}.mlir")
        with open(path, "w") as f:
            f.write(text)
        files[key] = path
    return files[key]


def costs_file(costs):
    key = ("costs", json.dumps(costs, sort_keys=True))
    files = _state["files"]
    if key not in files:
        path = os.path.join(_state["scratch"], f"costs-{len(files)}.json")
        with open(path, "w") as f:
            json.dump(costs, f, sort_keys=True)
        files[key] = path
    return files[key]


# ---------------------------------------------------------------------------------------------
# watchdog
# ---------------------------------------------------------------------------------------------

class _Timeout(BaseException):
    pass


@contextlib.contextmanager
def watchdog(cpu_s):
    """Repeating CPU-time timer: an exception raised from a signal handler that happens to run inside a gc
    callback (Hypothesis installs one) is dropped, the next tick raises again."""
    def on_alarm(signum, frame):
        raise _Timeout()
    old = signal.signal(signal.SIGVTALRM, on_alarm)
    signal.setitimer(signal.ITIMER_VIRTUAL, cpu_s, 0.25)
    try:
        try:
            yield
        finally:
            signal.setitimer(signal.ITIMER_VIRTUAL, 0, 0)
    finally:
        signal.setitimer(signal.ITIMER_VIRTUAL, 0, 0)
        signal.signal(signal.SIGVTALRM, old)


# ---------------------------------------------------------------------------------------------
# pipeline
# ---------------------------------------------------------------------------------------------

LIMITATION_WORDS = ("not supported", "only supports", "not handled", "can only be used once",
                    "must be used by an eclass", "must be the result of an eclass")


def exc_site(e):
    site = "?"
    for fr in traceback.extract_tb(e.__traceback__):
        fn = fr.filename.replace("\\", "/")
        if "/xdsl/" in fn:
            site = fn.split("/xdsl/", 1)[1] + ":" + fr.name
    return site


def classify_exc(e):
    """'limitation' (documented / deliberate 'not supported') or 'internal'."""
    from xdsl.utils.exceptions import DiagnosticException, InterpretationError
    msg = str(e.args[0] if isinstance(e, AssertionError) and e.args else e)
    if isinstance(e, (DiagnosticException, InterpretationError, AssertionError)) and \
            any(w in msg for w in LIMITATION_WORDS):
        return "limitation"
    return "internal"


class _Stop(Exception):
    def __init__(self, outcome):
        self.outcome = outcome


def _stage(name, fn, module):
    """Run one pass + verify.  Raises _Stop with an outcome dict on any exception."""
    from xdsl.utils.exceptions import VerifyException
    try:
        fn()
    except Exception as e:
        kind = classify_exc(e)
        raise _Stop({"status": kind, "pass": name, "exc": type(e).__name__, "site": exc_site(e),
                     "msg": str(e)[:300]}) from None
    try:
        module.verify()
    except VerifyException as e:
        raise _Stop({"status": "invalid", "pass": name, "exc": "VerifyException", "site": exc_site(e),
                     "msg": str(e)[:300]}) from None


def eclass_stats(module):
    n = big = mx = 0
    for op in module.walk():
        if op.name in ("equivalence.class", "equivalence.const_class"):
            n += 1
            k = len(op.operands)
            mx = max(mx, k)
            if k >= 2:
                big += 1
    return n, big, mx


def use_before_def(module):
    """First operand that is not defined earlier in its (single) block, else None."""
    for f in module.walk():
        if f.name != "func.func":
            continue
        for blk in f.regions[0].blocks:
            seen = set(id(a) for a in blk.args)
            for op in blk.ops:
                for i, o in enumerate(op.operands):
                    if id(o) not in seen:
                        return f"operand {i} of {op.name} is not defined before its use"
                for r in op.results:
                    seen.add(id(r))
    return None


def run_pipeline(module, recipe, insts):
    """Mutates `module`.  -> outcome dict: status ok|limitation|internal|invalid|timeout (+ stats)."""
    from xdsl.transforms.apply_eqsat_pdl_interp import ApplyEqsatPDLInterpPass
    from xdsl.transforms.eqsat_add_costs import EqsatAddCostsPass
    from xdsl.transforms.eqsat_create_eclasses import EqsatCreateEclassesPass
    from xdsl.transforms.eqsat_extract import EqsatExtractPass
    ctx = _state["ctx"]
    out = {"status": "ok", "classes": 0, "big": 0, "max": 0}
    costs = recipe.get("costs") or {}
    costs = {str(k): int(v) for k, v in costs.items() if isinstance(v, int) and not isinstance(v, bool) and v >= 1}
    rfile = rules_file(insts) if recipe["kind"] == "rules" else None
    cfile = costs_file(costs) if costs else None
    iters = recipe.get("iters")
    iters = iters if isinstance(iters, int) and not isinstance(iters, bool) and 1 <= iters <= 4 else 1
    try:
        with watchdog(TIME_BUDGET_CPU_S), quiet():
            try:
                _stage("eqsat-create-eclasses", lambda: EqsatCreateEclassesPass().apply(ctx, module), module)
                if rfile is not None:
                    p = ApplyEqsatPDLInterpPass(pdl_interp_file=rfile, max_iterations=iters)
                    _stage("apply-eqsat-pdl-interp", lambda: p.apply(ctx, module), module)
                out["classes"], out["big"], out["max"] = eclass_stats(module)
                p2 = EqsatAddCostsPass(cost_file=cfile, default=1)
                _stage("eqsat-add-costs", lambda: p2.apply(ctx, module), module)
                _stage("eqsat-extract", lambda: EqsatExtractPass().apply(ctx, module), module)
            except _Stop as s:
                out.update(s.outcome)
    except _Timeout:
        out["status"] = "timeout"
    return out


# ---------------------------------------------------------------------------------------------
# one case
# ---------------------------------------------------------------------------------------------

def _ty(recipe):
    return recipe.get("ty") if recipe.get("ty") in TYPES else "i32"


def rule_instances(recipe):
    """(usable [(name, ty)], excluded [(name, why)]) for the recipe's rule list (order kept, duplicates dropped)."""
    ty = _ty(recipe)
    use, bad, seen = [], [], set()
    for n in recipe.get("rules") or []:
        if n not in RULES or n in seen:
            continue
        seen.add(n)
        why = rule_available(n, ty)
        if why is None:
            for t in ([ty] if is_typed(n) else [ty, "i1", "i16", "i32"]):     # untyped rules match every width
                validate_rule(n, t)
            use.append((n, ty))
        else:
            bad.append((n, why))
    return use, bad


def input_vectors(recipe, fr):
    atys = progen.signature(fr)[0]
    vecs = list(progen.input_vectors(fr, 6, recipe["prog"].get("inputs"), 64))
    if len(atys) <= 2:
        doms = []
        for t in atys:
            w = refsem.int_width(t)
            if w == 8 and len(atys) == 1:
                doms.append(list(range(256)))
            elif w == 1:
                doms.append([0, 1])
            else:
                doms.append([v & ((1 << w) - 1) for v in progen.boundary_ints(t)])
        vecs += list(itertools.product(*doms))
    seen, out = set(), []
    for v in vecs:
        if v not in seen:
            seen.add(v)
            out.append(v)
    return out


def op_kinds(module):
    return "+".join(sorted({op.name.replace("arith.", "") for op in module.walk()
                            if op.name not in ("builtin.module", "func.func", "func.return")})) or "-"


def nonconst_multiset(module):
    """Op-name multiset (constants left out) after xDSL's cse and removal of unused operations.  Every op of the
    generated programs is free of side effects by MLIR's definition, so unused ones are dropped here directly
    (xDSL's dce keeps e.g. arith.extsi, which lacks the Pure trait, while eqsat-extract drops unused e-classes)."""
    from xdsl.transforms.common_subexpression_elimination import cse
    m = module.clone()
    cse(m)
    for f in m.walk():
        if f.name != "func.func":
            continue
        for blk in f.regions[0].blocks:
            for op in reversed(list(blk.ops)):
                if op.name != "func.return" and not any(r.uses for r in op.results):
                    blk.erase_op(op)
    c: dict = {}
    for op in m.walk():
        if op.name != "arith.constant":
            c[op.name] = c.get(op.name, 0) + 1
    return c


def toposort(module):
    """Stable topological re-ordering of the ops of every function body (in place).  False if cyclic."""
    for f in module.walk():
        if f.name != "func.func":
            continue
        for blk in f.regions[0].blocks:
            ops = list(blk.ops)
            term = ops[-1] if ops and ops[-1].name == "func.return" else None
            done = set(id(a) for a in blk.args)
            order, rest = [], (ops[:-1] if term is not None else ops)
            while rest:
                nxt, progress = [], False
                for op in rest:
                    if all(id(o) in done for o in op.operands):
                        order.append(op)
                        done.update(id(r) for r in op.results)
                        progress = True
                    else:
                        nxt.append(op)
                if not progress:
                    return False
                rest = nxt
            if term is not None:
                if not all(id(o) in done for o in term.operands):
                    return False
                order.append(term)
            if order != ops:
                for op in ops:
                    op.detach()
                blk.add_ops(order)
    return True


def evaluate(recipe):
    """Build, run the pipeline, apply the oracles.  -> (verdict, [(sig, detail)], info)
    verdict: ok | discard:<label> | timeout | mismatch"""
    _init()
    prog = recipe["prog"]
    before = progen.build(prog)
    progen.entry(prog)
    funcs = [(f"f{i}", fr) for i, fr in enumerate(f for f in prog["funcs"] if isinstance(f, dict))]
    insts, bad = rule_instances(recipe) if recipe["kind"] == "rules" else ([], [])
    after = before.clone()
    out = run_pipeline(after, recipe, insts)
    info = {"out": out, "insts": insts, "bad": bad, "before": before, "after": after}
    rules_s = "+".join(sorted(n for n, _ in insts)) or "-"
    head = (f"kind={recipe['kind']} ty={_ty(recipe)} rules={rules_s} iters={recipe.get('iters')} "
            f"costs={recipe.get('costs') or {}}\n--- before\n{render(before)[:1500]}\n")
    if out["status"] == "timeout":
        return "timeout", [], info
    if out["status"] == "limitation":
        return f"discard:{out['pass']}:{out['exc']}:{out['msg'][:60]}", [], info
    if out["status"] == "internal":
        sig = {"check": "pipeline_raises", "pass": out["pass"], "exc": out["exc"], "site": out["site"]}
        return "mismatch", [(sig, head + f"{out['pass']} raised {out['exc']}: {out['msg']} at {out['site']}")], info
    if out["status"] == "invalid":
        sig = {"check": "intermediate_invalid" if out["pass"] != "eqsat-extract" else "output_invalid",
               "pass": out["pass"], "why": out["msg"].split("\n")[0].split(":")[0][:80]}
        return "mismatch", [(sig, head + f"module does not verify after {out['pass']}: {out['msg']}\n--- module\n"
                             + render(after)[:2500])], info
    tail = f"--- after\n{render(after)[:2500]}"
    info["after_text"] = render(after)
    left = sorted({op.name for op in after.walk() if op.name.split(".")[0] in ("equivalence", "eqsat")})
    if left:
        return "mismatch", [({"check": "eclass_left", "ops": "+".join(left), "kind": recipe["kind"]},
                             head + "e-class ops left after eqsat-extract\n" + tail)], info
    mism = []
    ubd = use_before_def(after)
    if ubd:
        # the program as extracted cannot run; the search continues behind this on the re-ordered program
        if not toposort(after):
            return "mismatch", [({"check": "output_cyclic", "kind": recipe["kind"]},
                                 head + ubd + "; the operations depend on each other cyclically\n" + tail)], info
        mism.append(({"check": "output_not_ssa", "kind": recipe["kind"]},
                     head + ubd + " (xDSL's verifier does not check dominance; its interpreter raises KeyError on "
                     "such a function, MLIR rejects it)\n" + tail))
        tail += f"--- after, operations re-ordered topologically\n{render(after)[:2500]}"
    for name, fr in funcs:
        for vec in input_vectors(recipe, fr):
            rb = refsem.run_function(before, name, vec, fuel=20000)
            ra = refsem.run_function(after, name, vec, fuel=20000)
            verdict, why = refsem.compare_results(rb, ra)
            if verdict == "differ":
                sig = {"check": "result_changed", "rules": rules_s, "ops": op_kinds(before)}
                mism.append((sig, head + f"@{name}{vec}: {why}\n" + tail))
                break
            info["excluded_inputs"] = info.get("excluded_inputs", 0) + (verdict == "excluded")
        else:
            continue
        break
    if recipe["kind"] == "norules":
        mb, ma = nonconst_multiset(before), nonconst_multiset(after)
        if mb != ma:
            diff = sorted(k for k in set(mb) | set(ma) if mb.get(k, 0) != ma.get(k, 0))
            sig = {"check": "norules_structure", "ops": "+".join(diff)}
            mism.append((sig, head + f"op multisets after cse + removal of unused ops differ: before {mb} after {ma}\n" + tail))
    return ("mismatch" if mism else "ok"), mism, info


def _minimise(h, recipe, sig):
    """Shrink inside the body so that the signature names the rules / ops of the SHRUNK case."""
    from vt.shrink import shrink

    def hit(r):
        v, mm, _ = evaluate(r)
        for s, d in mm:
            if s["check"] == sig["check"]:
                return s, d
        return None
    small = shrink(json.loads(json.dumps(recipe)), lambda r: hit(r) is not None, 20.0 if h.quick else 45.0)
    got = hit(small)
    if got is not None:
        return got[0], got[1], small
    return None


def run_case(h, recipe, label):
    if not isinstance(recipe, dict) or recipe.get("kind") not in ("rules", "norules") or \
            not isinstance(recipe.get("prog"), dict):
        raise ValueError("C28: malformed recipe")
    verdict, mism, info = evaluate(recipe)
    out = info["out"]
    for n, why in info["bad"]:
        h.exclude(f"rule_miscompiled:{n}:{why}")
    if verdict == "timeout":
        h.inconclusive("watchdog")
        h.case(recipe, False, label=label + ":timeout")
        return
    if verdict.startswith("discard:"):
        h.discard(verdict[8:])
        h.case(recipe, False, label=label + ":limitation")
        return
    nt = out["big"] >= 1
    sample = None
    if nt and len(h.samples) < 6 and not h._shrinking:
        sample = {"recipe": recipe, "before": render(info["before"])[:800], "after": info.get("after_text", "")[:800]}
    h.case(recipe, nt, label=label, sample=sample)
    if recipe["kind"] == "rules":
        h.count("rules_n=%d" % len(info["insts"]))
        if nt:
            h.count("nt_max_class=%s" % (out["max"] if out["max"] < 6 else "6+"))
            for n, _ in info["insts"]:
                h.count("nt_with:" + n)
            if recipe.get("costs"):
                h.count("nt_cost_table")
    for sig, detail in mism:
        rec = recipe
        if sig["check"] == "result_changed" and not h._shrinking and label != "replay":
            # the signature names the rules / op kinds of the MINIMISED case: minimise here (bounded number of
            # times per process); later hits go to one "not minimised" bucket instead of one signature per case
            memo = _state.setdefault("minimised", [])
            done = None
            if len(memo) < (4 if h.quick else 12):
                done = _minimise(h, recipe, sig)
                memo.append(done)
                h.count("internal_minimisations")
            if done is not None:
                sig, detail, rec = done
            else:
                sig = dict(sig, rules="(not minimised)", ops="(not minimised)")
        h.mismatch(sig, rec, detail)


# ---------------------------------------------------------------------------------------------
# strategies
# ---------------------------------------------------------------------------------------------

ARITH_OPS = ["constant", "addi", "subi", "muli", "andi", "ori", "xori", "shli"]
MIXED_OPS = ARITH_OPS + ["cmpi", "select", "minsi", "maxsi", "minui", "maxui", "shrsi", "shrui"]
COST_OPS = ["arith.constant", "arith.addi", "arith.subi", "arith.muli", "arith.andi", "arith.ori", "arith.xori",
            "arith.shli"]


def _small_consts(prog, ck):
    """Replace the j-th constant of each function body by 0/1/2 when ck[j % len] < 3 (rules need them)."""
    prog = json.loads(json.dumps(prog))
    for f in prog.get("funcs") or []:
        j = 0
        for s in f.get("body") or []:
            if isinstance(s, dict) and s.get("op") == "const":
                c = ck[j % len(ck)]
                if c < 3:
                    s["v"] = c
                j += 1
    return prog


_PREFIX_OPS = ["addi", "muli", "addi", "muli", "subi", "andi", "ori", "xori", "shli"]
_REF = st.one_of(st.integers(0, 2), st.integers(0, 7))


def _prefix(ty):
    """2..7 statements of the rule vocabulary in front of the progen body (so that rules find something)."""
    binop = st.builds(lambda op, a, b: {"op": op, "t": ty, "a": a, "b": b, "safe": 1},
                      st.sampled_from(_PREFIX_OPS), _REF, _REF)
    const = st.builds(lambda v: {"op": "const", "t": ty, "v": v}, st.sampled_from([0, 1, 2, 2, 1, -1, 3, 5]))
    dup = st.builds(lambda k: {"op": "dup", "k": k}, st.integers(0, 5))
    return st.lists(st.one_of(binop, binop, binop, binop, const, const, dup), min_size=2, max_size=7)


def _with_prefix(prog, prefixes, ck):
    prog = _small_consts(prog, ck)
    for i, f in enumerate(prog["funcs"]):
        f["body"] = list(prefixes[i % len(prefixes)]) + list(f.get("body") or [])
    return prog


FLAVOURS = ["arith", "arith", "arith", "mixed", "mixed", "two", "funcs2"]


def _programs(ty, flavour):
    """arith: rule vocabulary only; mixed: + i1 (cmpi, select, min/max, right shifts); two: + a second integer width
    and casts between them (typed rules must leave the other width alone); funcs2: two functions in the module."""
    tys = {"arith": [ty], "funcs2": [ty], "mixed": [ty, "i1"],
           "two": [ty, "i16" if ty != "index" else "i32"]}[flavour]
    names = {"arith": ARITH_OPS, "funcs2": ARITH_OPS, "mixed": MIXED_OPS,
             "two": ARITH_OPS + ["extsi", "extui", "trunci", "index_cast"]}[flavour]
    feats = dict(int_types=tys, float_types=[], ops=["int_arith", "shifts", "minmax", "cmp", "select", "casts"],
                 op_names=names, control=[], effects=[], internal_calls=False, dup=True,
                 max_funcs=2 if flavour == "funcs2" else 1, size=5, max_args=3, max_rets=2, n_inputs=6)
    ck = st.lists(st.integers(0, 5), min_size=1, max_size=6)
    return st.builds(_with_prefix, progen.program_recipes(feats), st.lists(_prefix(ty), min_size=2, max_size=2), ck)


def _costs():
    return st.one_of(st.just({}), st.just({}),
                     st.dictionaries(st.sampled_from(COST_OPS), st.integers(1, 9), min_size=1, max_size=5))


def _pick_rules(x, present=()):
    """Rule list from one integer through a fixed mixing function (Hypothesis' own list/integer distributions are
    heavily biased towards the empty list): 1 in 10 empty, else 1..6 distinct rules; 3 times in 4 only rules whose
    root operation occurs in the program are drawn."""
    def nxt(v):
        return (v * 6364136223846793005 + 1442695040888963407) & ((1 << 64) - 1)
    v = nxt(nxt(zlib.crc32(str(x).encode())))
    if (v >> 33) % 10 == 0:
        return []
    v = nxt(v)
    pool = RULE_NAMES
    if (v >> 33) % 4 != 0:
        pool = [r for r in RULE_NAMES if RULES[r][0][0] in present] or RULE_NAMES
    v = nxt(v)
    n = min(1 + (v >> 33) % 6, len(pool))
    out = []
    while len(out) < n:
        v = nxt(v)
        r = pool[(v >> 33) % len(pool)]
        if r not in out:
            out.append(r)
    return out


def _finish(r):
    if "rules" in r:        # mix in the program so that a repeated small integer does not repeat the rule list
        present = {s.get("op") for f in r["prog"]["funcs"] for s in f.get("body") or [] if isinstance(s, dict)}
        r = dict(r, rules=_pick_rules(r["rules"] ^ zlib.crc32(json.dumps(r["prog"], sort_keys=True).encode()),
                                      present))
    return r


def case_recipes(kind):
    def for_ty(tm):
        ty, flavour = tm
        fields = {"kind": st.just(kind), "ty": st.just(ty), "costs": _costs(), "prog": _programs(ty, flavour)}
        if kind == "rules":
            fields["rules"] = st.integers(0, (1 << 32) - 1)
            fields["iters"] = st.sampled_from([1, 2, 3, 4, 2, 3])
        return st.fixed_dictionaries(fields).map(_finish)
    return st.tuples(st.sampled_from(TYPES), st.sampled_from(FLAVOURS)).flatmap(for_ty)


# ---------------------------------------------------------------------------------------------
# entry points
# ---------------------------------------------------------------------------------------------

def replay(h, recipe):
    _init()
    run_case(h, recipe, "replay")


def checks(h):
    _init()
    try:
        if h.shard == 0:
            for n in RULE_NAMES:
                for ty in (TYPES if is_typed(n) else ["i32"]):
                    why = rule_available(n, ty)
                    h.count("library_rule_usable" if why is None else "library_rule_excluded")
                    if why is not None:
                        h.notes.append(f"rule {n}@{ty} excluded: {why}")
        h.hyp("rules", case_recipes("rules"), lambda r: run_case(h, r, "rules"), h.scale(200, 2500), 1)
        h.hyp("norules", case_recipes("norules"), lambda r: run_case(h, r, "norules"), h.scale(40, 500), 2)
    finally:
        _cleanup()
