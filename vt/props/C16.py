"""C16 -- Control-flow and loop lowerings preserve program results.

For each of the eight structural passes

    convert-scf-to-cf, lower-affine, scf-for-loop-range-folding, scf-for-loop-flatten, scf-for-loop-unroll,
    licm, control-flow-hoist, frontend-desymrefy

a progen program is built, run through the independent reference semantics vt.refsem on N input vectors, the
pass is applied (default constructed, through `ModulePass.apply`), the output must `verify()`, and is run again
on the same inputs: results, the ORDERED effect log (external calls, prints, unknown ops with their argument
values) and the final contents of memref arguments must be the same (refsem.compare_results: a run that has no
meaning before the pass -- POISON run, UB event, out of fuel -- is excluded and counted; a defined run must stay
defined).

Recipe = progen recipe + {"kind": "pass", "pass": <registered pass name>}.

Signature of a mismatch (flat dict of strings):
  check    result_changed | effects_changed | verify_fails | malformed_output
  pass     registered pass name
  diag     how the outcome differs: ub_introduced / poison_introduced / nontermination / result_value / result_poison /
           result_count / effect_count / effect_value / memref_arg; for verify_fails the normalised verifier message
           (use_of_removed_value, operand_type_mismatch:..., multi_block_region:<region>, op:<name>[:wrong_parent]);
           for malformed_output undeclared_symbol / undefined_value / ...
  what     the op that traps (ub_introduced) / the reason of the POISON run (poison_introduced), else "-"
  feature  control construct(s) the pass targets in the program + shape class, e.g. "scf.for:zero_trip",
           "scf.for:nest:ivs_used:outer_nondiv", "affine.load:expr_mod", "scf.if:no_else", "symref:nested"; its
           components are repeated as loop / expr / branch, and context names enclosing region ops the pass does not
           rewrite (in_scf.while).
The feature is computed on the program REDUCED to the target statements (loops, ifs, affine ops, symref ops) that
the failure needs (`reduce_targets`: greedy deletion of target statements keeping (check, diag) fixed), so that
unrelated constructs of a large random program do not leak into the signature; the harness' shrinker then
minimises the rest with the signature fixed.  Loop shape classes: generic (first of zero_trip, neg_lb, nondiv,
step_gt_1, iter_args, nested, plain on the failing input) or pass specific -- range folding: iv_mul_nonpos, wraps,
iv_poison, iv_mul_unknown, iv_mul_pos, iv_add (the chain of single uses of the induction variable, followed the way the
pass does); flatten: nest:ivs_used:{outer_nondiv,outer_zero_trip,outer_div}, nest:ivs_unused:{inner_neg_range,
inner_nondiv,outer_step_gt_1,inner_zero_trip,plain}.

Generators.  One campaign per pass, each mixing generic progen programs (all control constructs, effects inside
loops, scf.while as context) with shapes aimed at what the pass rewrites (read from the pass sources):
  * unroll: scf.for with constant lb/ub/step (zero-trip, negative ranges, non-divisible ranges, iter_args, nests);
  * range folding: scf.for whose induction variable is used once, by addi/muli with a value defined outside
    (constants of either sign and zero, arguments), chains of such ops, iter_args;
  * flatten: perfectly nested scf.for pairs with bounds defined outside the nest (progen bound "hoist"), with the
    two induction variables either unused or combined by one addi, inner range = outer step etc., iter_args
    threaded through, plus near misses;
  * all scf.for passes: a deterministic enumeration of constant-bound loops (trip counts 0..3) with 2-3 iter_args
    whose scf.yield forwards / swaps / rotates iter_args, the induction variable or a body value (every assignment),
    and a random shape of the same kind;
  * licm: scf.for (nested, zero-trip) whose bodies hold loop-invariant arithmetic (incl. division by loop-invariant
    divisors), loop-variant arithmetic, effects, and load/modify/store of memory at loop-invariant addresses;
  * control-flow-hoist: scf.if / affine.if with pure, effectful and trapping contents, in particular branches that
    guard a division by `x != 0` with x = 0 on many inputs;
  * convert-scf-to-cf: scf.if / scf.for / scf.index_switch, nested, also inside cf CFG blocks;
  * lower-affine: affine.for / apply / load / store (/ affine.if as context);
  * frontend-desymrefy: symref.declare/fetch/update, straight-line and in nested regions.
"""
from __future__ import annotations

import re

from hypothesis import strategies as st

from vt import progen, refsem
from vt.canon import canon
from vt.run import quiet

ID = "C16"
SHARDS = {"quick": 16, "thorough": 16}
N_INPUTS = 5
RULE = ("progen programs (func/arith/scf/cf/affine/memref/printf/symref; nested scf.for/while/if/index_switch, "
        "affine.for/if/apply/load/store, iter_args, constant and symbolic bounds incl. zero-trip and negative "
        "ranges, steps 1..4 with non-divisible ranges, effects and memory traffic inside loops, loop-invariant "
        "and loop-variant ops) -- per pass a mix of generic programs and shapes aimed at the pass's patterns "
        "(constant-bound loops for unroll; single-use iv*c / iv+c for range folding; perfect nests with outside "
        "bounds for flatten; invariant arithmetic, divisions and load/modify/store in loops for licm; pure / "
        "effectful ifs for control-flow-hoist; symref variables for frontend-desymrefy). Oracle: vt.refsem "
        "results + ordered effect log + final memref arguments before vs after the pass on 5 input vectors "
        "derived from recipe data; the output must verify() and be executable (use of undefined values / "
        "undeclared symbols = malformed). Programs the pass rejects with an exception are discarded and counted; "
        "runs without meaning before the pass (POISON/UB/fuel) are excluded and counted. Non-trivial: the pass "
        "changed the canonical form of the module; for the scf.for loop passes (range folding, flatten, unroll, "
        "licm) additionally some input executes a loop >= 2 times and some loop instance runs 0 times "
        "(classes loops_ge2 / loops_zero / loops_both).")
ASSUMPTIONS = ["vt.refsem implements the MLIR arith/scf/cf/func/memref/affine semantics (self-test table run once per "
               "process); symref variables are function-local mutable cells",
               "an exception raised by a pass means 'program not accepted' (robustness is C17's)",
               "division/remainder by zero and signed division overflow are immediate UB (arith documentation), "
               "scf.for with step <= 0 has no meaning"]

PASSES = ["convert-scf-to-cf", "lower-affine", "scf-for-loop-range-folding", "scf-for-loop-flatten",
          "scf-for-loop-unroll", "licm", "control-flow-hoist", "frontend-desymrefy"]
LOOP_PASSES = {"scf-for-loop-range-folding", "scf-for-loop-flatten", "scf-for-loop-unroll", "licm"}
TARGETS = {
    "convert-scf-to-cf": ("scf.for", "scf.if", "scf.index_switch"),
    "lower-affine": ("affine.for", "affine.if", "affine.apply", "affine.load", "affine.store"),
    "scf-for-loop-range-folding": ("scf.for",),
    "scf-for-loop-flatten": ("scf.for",),
    "scf-for-loop-unroll": ("scf.for",),
    "licm": ("scf.for",),
    "control-flow-hoist": ("scf.if", "affine.if"),
    "frontend-desymrefy": ("symref.declare", "symref.fetch", "symref.update"),
}

_state: dict = {}


def _init():
    if "init" not in _state:
        refsem.selftest()
        from xdsl.transforms import get_all_passes
        allp = get_all_passes()
        _state["passes"] = {p: allp[p]() for p in PASSES}
        _state["init"] = True


# ---------------------------------------------------------------------------------------------
# classification of a failing case
# ---------------------------------------------------------------------------------------------

def _signed(v, ty):
    return refsem.to_signed(v, refsem.int_width(ty, 64))


def _depth_in(op, names):
    d = 0
    p = op.parent_op()
    while p is not None:
        if p.name in names:
            d += 1
        p = p.parent_op()
    return d


def loop_shape(module, name, vec):
    """Shape class of the scf.for / affine.for instances the reference run executes on `vec`."""
    trace: list = []
    try:
        refsem.run_function(module, name, vec, fuel=20000, trace=trace)
    except refsem.UnsupportedOp:
        return "?"
    flags = set()
    for op, vals in trace:
        if op.name == "scf.for":
            ty = refsem.type_name(op.operands[0].type)
            if any(v is refsem.POISON for v in vals[:3]):
                continue
            lb, ub, stp = (_signed(v, ty) for v in vals[:3])
            if lb >= ub:
                flags.add("zero_trip")
            else:
                if (ub - lb) % stp:
                    flags.add("nondiv")
                if stp > 1:
                    flags.add("step_gt_1")
            if lb < 0:
                flags.add("neg_lb")
            if len(vals) > 3:
                flags.add("iter_args")
            if _depth_in(op, ("scf.for",)):
                flags.add("nested")
        elif op.name == "affine.for":
            if op.properties["step"].value.data > 1:
                flags.add("step_gt_1")
            lbm = op.properties["lowerBoundMap"].data
            from xdsl.ir.affine import AffineConstantExpr
            if len(lbm.results) == 1 and isinstance(lbm.results[0], AffineConstantExpr) and lbm.results[0].value < 0:
                flags.add("neg_lb")
            if len(op.results):
                flags.add("iter_args")
    for f in ("zero_trip", "neg_lb", "nondiv", "step_gt_1", "iter_args", "nested"):
        if f in flags:
            return f
    return "plain"


def _const_of(v):
    """Signed value of an SSA value defined by arith.constant (int), else None."""
    from xdsl.ir import OpResult
    if isinstance(v, OpResult) and v.op.name == "arith.constant":
        a = v.op.properties["value"]
        d = getattr(getattr(a, "value", None), "data", None)
        if isinstance(d, int):
            return d
    return None


def _runtime_operands(module, name, vec):
    """op -> operand values of its first execution in the reference run; entry block arguments -> their values."""
    trace: list = []
    envs: list = []
    try:
        refsem.run_function(module, name, vec, fuel=20000, trace=trace, envs=envs)
    except refsem.UnsupportedOp:
        return {}
    out: dict = {}
    for op, vals in trace:
        out.setdefault(op, vals)
    for env in envs:
        for v, x in env.items():
            if isinstance(x, int) or x is refsem.POISON:
                out.setdefault(v, x)
    for f in module.walk():
        if f.name == "func.func" and f.properties["sym_name"].data == name and f.regions[0].first_block is not None:
            for a, v in zip(f.regions[0].first_block.args, vec):
                if isinstance(v, int):
                    out[a] = v
    return out


def _value_of(v, rt):
    """Runtime value of an SSA value in the reference run (constant, entry argument, or operand of an executed
    op), else None."""
    c = _const_of(v)
    if c is not None:
        return c
    ty = refsem.type_name(v.type)
    if not (ty == "index" or (ty[:1] == "i" and ty[1:].isdigit())):
        return None
    if v in rt and isinstance(rt[v], int):
        return _signed(rt[v] & ((1 << refsem.int_width(ty, 64)) - 1), ty)
    for use in v.uses:
        vals = rt.get(use.operation)
        if vals is not None and use.index < len(vals) and vals[use.index] is not refsem.POISON:
            return _signed(vals[use.index], ty)
    return None


def _loop_numbers(loop, rt):
    """(lb, ub, step) of an scf.for as signed ints where known (constants or first executed instance)."""
    return [_value_of(loop.operands[i], rt) for i in range(3)]


def fold_shape(module, name, vec):
    """Range folding: how the (chain of) single use(s) of an induction variable combines it with outside values,
    following the chain the way the pass does: iv_mul_nonpos (a multiplier <= 0 on this input), wraps (the folded
    lb/ub/step leave the range of the loop's type), iv_mul_pos, iv_add, iv_mul_unknown."""
    rt = _runtime_operands(module, name, vec)
    found = set()
    for loop in module.walk():
        if loop.name != "scf.for":
            continue
        ty = refsem.type_name(loop.operands[0].type)
        w = refsem.int_width(ty, 64)
        nums = _loop_numbers(loop, rt)
        cur = loop.regions[0].first_block.args[0]
        kinds = []
        while True:
            uses = list(cur.uses)
            if len(uses) != 1 or uses[0].operation.name not in ("arith.addi", "arith.muli"):
                break
            user = uses[0].operation
            other = user.operands[1] if user.operands[0] is cur else user.operands[0]
            if other is cur or loop.is_ancestor(other.owner):
                break
            c = _value_of(other, rt)
            if c is None and rt.get(other) is refsem.POISON:
                kinds.append("iv_poison")       # the outside value is POISON on this input
            if user.name == "arith.addi":
                kinds.append("iv_add")
                if c is not None and None not in nums:
                    nums = [nums[0] + c, nums[1] + c, nums[2]]
                else:
                    nums = [None] * 3
            else:
                kinds.append("iv_mul_unknown" if c is None else "iv_mul_nonpos" if c <= 0 else "iv_mul_pos")
                if c is not None and None not in nums:
                    nums = [n * c for n in nums]
                else:
                    nums = [None] * 3
            if None not in nums:
                lo, hi = -(1 << (w - 1)), (1 << (w - 1))
                last = nums[0]
                if nums[2] > 0 and nums[1] > nums[0]:
                    last = nums[0] + -(-(nums[1] - nums[0]) // nums[2]) * nums[2]     # first iv value >= ub
                if not all(lo <= n < hi for n in nums + [last]):
                    kinds.append("wraps")
            cur = user.results[0]
        found.update(kinds)
    for f in ("iv_mul_nonpos", "wraps", "iv_poison", "iv_mul_unknown", "iv_mul_pos", "iv_add"):
        if f in found:
            return f
    return None


def flatten_shape(module, name, vec):
    """Flatten: class of the perfect loop nests (outer body = inner scf.for + yield)."""
    rt = _runtime_operands(module, name, vec)
    found = []
    for outer in module.walk():
        if outer.name != "scf.for":
            continue
        blk = outer.regions[0].first_block
        inner = blk.first_op
        if inner is None or inner.name != "scf.for" or inner.next_op is not blk.last_op:
            continue
        olb, oub, ost = _loop_numbers(outer, rt)
        ilb, iub, ist = _loop_numbers(inner, rt)
        used = bool(blk.args[0].uses) or bool(inner.regions[0].first_block.args[0].uses)
        if used:
            if None in (olb, oub, ost):
                found.append("ivs_used:unknown")
            elif oub <= olb:
                found.append("ivs_used:outer_zero_trip")
            elif (oub - olb) % ost:
                found.append("ivs_used:outer_nondiv")
            else:
                found.append("ivs_used:outer_div")
        else:
            if None in (ilb, iub, ist, ost):
                found.append("ivs_unused:unknown")
            elif iub < ilb:
                found.append("ivs_unused:inner_neg_range")
            elif (iub - ilb) % ist:
                found.append("ivs_unused:inner_nondiv")
            elif ost > 1:
                found.append("ivs_unused:outer_step_gt_1")
            elif iub == ilb:
                found.append("ivs_unused:inner_zero_trip")
            else:
                found.append("ivs_unused:plain")
    for f in ("ivs_used:outer_nondiv", "ivs_unused:inner_neg_range", "ivs_unused:inner_nondiv",
              "ivs_unused:outer_step_gt_1", "ivs_unused:inner_zero_trip", "ivs_used:outer_zero_trip",
              "ivs_used:outer_div", "ivs_unused:plain", "ivs_used:unknown", "ivs_unused:unknown"):
        if f in found:
            return "nest:" + f
    return None


def affine_expr_shape(module):
    """lower-affine: the most delicate expression kind in the maps of affine.apply/load/store."""
    from xdsl.ir.affine import AffineBinaryOpExpr
    kinds = set()

    def walk(e):
        if isinstance(e, AffineBinaryOpExpr):
            kinds.add(e.kind.name)
            walk(e.lhs)
            walk(e.rhs)
    for op in module.walk():
        if op.name in ("affine.apply", "affine.load", "affine.store"):
            for e in op.properties["map"].data.results:
                walk(e)
    for k, n in (("Mod", "expr_mod"), ("FloorDiv", "expr_floordiv"), ("CeilDiv", "expr_ceildiv")):
        if k in kinds:
            return n
    return "expr_linear"


def features_of(module, pname, name, vec) -> dict:
    """Signature keys describing the failing program: "feature" = control construct(s) the pass targets that occur
    in the (unlowered) program + shape class, and its components "loop" / "expr" / "branch" ("-" if absent)."""
    counts = progen.op_counts(module)
    present = [t for t in TARGETS[pname] if t in counts]
    out = {"loop": "-", "expr": "-", "branch": "-"}
    if pname == "frontend-desymrefy":
        nested = any(op.name.startswith("symref.") and op.parent_op() is not None
                     and op.parent_op().name != "func.func" for op in module.walk())
        out["feature"] = "symref:" + ("nested" if nested else "straight_line")
        return out
    if not present:
        out["feature"] = "none"
        return out
    cons = "+".join(present)
    shapes = []
    if any(t.endswith(".for") for t in present):
        special = None
        if pname == "scf-for-loop-range-folding":
            special = fold_shape(module, name, vec)
        elif pname == "scf-for-loop-flatten":
            special = flatten_shape(module, name, vec)
        out["loop"] = special or loop_shape(module, name, vec)
        shapes.append(out["loop"])
    if any(t in present for t in ("affine.apply", "affine.load", "affine.store")):
        out["expr"] = affine_expr_shape(module)
        shapes.append(out["expr"])
    if "scf.if" in present or "affine.if" in present:
        no_else = any(op.name in ("scf.if", "affine.if") and not op.results for op in module.walk())
        out["branch"] = "no_else" if no_else else "results"
        shapes.append(out["branch"])
    out["feature"] = cons + ":" + ":".join(shapes) if shapes else cons
    return out


def feature_of(module, pname, name, vec) -> str:
    return features_of(module, pname, name, vec)["feature"]


def context_of(module, pname):
    """Region ops the pass does not rewrite that directly contain ops it does rewrite ("-" if none)."""
    tg = TARGETS[pname]
    ctx = sorted({p.name for op in module.walk() if op.name in tg
                  for p in [op.parent_op()] if p is not None and p.name not in ("func.func",) + tg})
    return "in_" + "+".join(ctx) if ctx else "-"


_DIAG_RULES = [
    (re.compile(r"after has UB \((\S+?):"), lambda m: "ub_introduced:" + m.group(1)),
    (re.compile(r"after is POISON \((.*?)\) but before"), lambda m: "poison_introduced:" + re.sub(r"\W+", "_", m.group(1))[:40]),
    (re.compile(r"after is OUT_OF_FUEL"), lambda m: "nontermination"),
    (re.compile(r"different number of results"), lambda m: "result_count"),
    (re.compile(r"result \d+: before .*? after POISON"), lambda m: "result_poison"),
    (re.compile(r"result \d+:"), lambda m: "result_value"),
    (re.compile(r"effect logs differ in length"), lambda m: "effect_count"),
    (re.compile(r"effect \d+:"), lambda m: "effect_value"),
    (re.compile(r"memref argument"), lambda m: "memref_arg"),
]


def diag_of(why: str) -> str:
    for rx, f in _DIAG_RULES:
        m = rx.search(why)
        if m:
            return f(m)
    return "other"


def compare(before, after):
    verdict, why = refsem.compare_results(before, after)
    if verdict != "equal":
        if verdict == "differ" and why.startswith("effect logs differ in length"):
            why = (f"effect logs differ in length: {len(before.effects)} before, {len(after.effects)} after; "
                   f"before {before.effects[:6]!r} after {after.effects[:6]!r}")
        return verdict, why
    for i, (x, y) in enumerate(zip(before.args, after.args)):
        if isinstance(x, refsem.MemRef):
            for j, (p, q) in enumerate(zip(x.data, y.data)):
                if p is refsem.POISON:
                    continue
                if not refsem.values_equal(p, q):
                    return "differ", f"memref argument {i} cell {j}: before {p!r} after {q!r}"
    return "equal", ""


def verify_diag(msg: str) -> str:
    if "defined out of its IsolatedFromAbove parent" in msg or "is used by" in msg:
        return "use_of_removed_value"
    m = re.search(r"Region '(\w+)' at position \d+ expected a single block", msg)
    if m:
        return "multi_block_region:" + m.group(1)
    m = re.search(r"operand '\w+' at position \d+ does not verify: attribute (\S+) expected from variable '\w+', but got (\S+)",
                  msg)
    if m:
        return "operand_type_mismatch:" + ("index_vs_int" if "index" in (m.group(1), m.group(2)) else "other")
    ops = re.findall(r"'([a-z_]+\.[a-z_.]+)'", msg)
    if ops:
        return "op:" + ops[0] + (":wrong_parent" if "expects parent op" in msg else "")
    return re.sub(r"\W+", "_", msg)[:40]


_OPNAME = re.compile(r"^[a-z_0-9]+(\.[a-z_0-9]+)+$")


def _exc_site(e) -> str:
    """innermost xdsl frame file:function of an exception."""
    import traceback
    site = "?"
    for fs in traceback.extract_tb(e.__traceback__):
        if "/xdsl/" in fs.filename:
            site = fs.filename.split("/xdsl/")[-1] + ":" + fs.name
    return site


# ---------------------------------------------------------------------------------------------
# the oracle on one (program, pass) recipe
# ---------------------------------------------------------------------------------------------

_TRAPPING = ("arith.divsi", "arith.divui", "arith.remsi", "arith.remui", "arith.floordivsi", "arith.ceildivsi",
             "arith.ceildivui")


def _guarded_trapping_ops(module) -> int:
    """Number of division-like ops that sit inside a loop or a branch (candidates for illegal speculation)."""
    return sum(1 for op in module.walk() if op.name in _TRAPPING
               and _depth_in(op, ("scf.for", "scf.if", "affine.if", "scf.while", "affine.for")) > 0)


class Outcome:
    """Result of the oracle on one recipe (no harness side effects)."""
    def __init__(self, **kw):
        self.kind = "ok"            # ok | rejected | mismatch
        self.check = self.diag = self.detail = self.reject = self.what = None
        self.vec = None
        self.excluded = []
        self.npoison_runs = 0
        self.changed = False
        self.div_hoisted = False    # a division-like op left a loop / branch (licm, control-flow-hoist)
        self.__dict__.update(kw)


def evaluate(recipe) -> Outcome:
    from xdsl.context import Context
    from xdsl.ir import SSAValue
    from xdsl.utils.exceptions import VerifyException
    _init()
    pname = recipe.get("pass")
    if pname not in _state["passes"]:
        raise ValueError(f"unknown pass {pname!r}")
    name, fr = progen.entry(recipe)
    m0 = progen.build(recipe)
    vecs = progen.input_vectors(fr, N_INPUTS, recipe.get("inputs"), 64)
    befores = [refsem.run_function(m0, name, v, fuel=20000) for v in vecs]
    m1 = progen.build(recipe)
    c0 = canon(m1)
    o = Outcome(pname=pname, name=name, m0=m0, m1=m1, vecs=vecs, befores=befores)
    try:
        with quiet():
            _state["passes"][pname]().apply(Context(), m1)
    except Exception as e:      # documented scope: a raising pass did not accept the program (C17 owns robustness)
        o.kind = "rejected"
        o.reject = f"not_accepted:{pname}:{type(e).__name__}:{_exc_site(e)}"
        return o

    def bad(check, vec, diag, detail):
        o.kind, o.check, o.vec, o.diag, o.detail = "mismatch", check, vec, diag, detail
        return o

    try:
        m1.verify()
    except VerifyException as e:
        msg = " ".join(str(e).strip().split("\n")[:2])
        return bad("verify_fails", None, verify_diag(msg), f"output does not verify: {msg[:300]}")
    o.changed = canon(m1) != c0
    if pname in ("licm", "control-flow-hoist"):
        o.div_hoisted = _guarded_trapping_ops(m1) < _guarded_trapping_ops(m0)
    for vec, before in zip(vecs, befores):
        if not before.ok or before.ub:
            o.excluded.append("before_" + ("ub" if before.ok else repr(before.values).lower()))
            continue
        fuel = 20 * before.steps + 2000
        try:
            after = refsem.run_function(m1, name, vec, fuel=fuel)
        except refsem.MalformedIR as e:
            return bad("malformed_output", vec, "undeclared_symbol", f"output cannot be executed: {e}")
        except KeyError as e:
            if not (e.args and isinstance(e.args[0], SSAValue)):
                raise
            return bad("malformed_output", vec, "undefined_value",
                       f"output uses a value that is not defined: {e!r:.200}")
        except refsem.UnsupportedOp as e:
            if _OPNAME.match(str(e)):
                raise           # an op refsem has no semantics for: a gap of the harness, not of the pass
            return bad("malformed_output", vec, re.sub(r"\W+", "_", str(e))[:40], f"output cannot be executed: {e}")
        if after.values is refsem.OUT_OF_FUEL:
            verdict, why = "differ", f"after is OUT_OF_FUEL after {fuel} steps, before took {before.steps}"
        else:
            verdict, why = compare(before, after)
        if verdict == "excluded":
            o.excluded.append("compare_excluded")
            continue
        if verdict == "differ":
            d = diag_of(why)
            if ":" in d:
                d, o.what = d.split(":", 1)
            check = "effects_changed" if d.startswith("effect") or d == "memref_arg" else "result_changed"
            return bad(check, vec, d, why)
        if before.npoison:
            o.npoison_runs += 1
    return o


_REGION_STMTS = ("for", "if", "while", "iswitch", "affine_for", "affine_if")
_TARGET_STMTS = _REGION_STMTS + ("affine_apply", "affine_load", "affine_store", "sym_decl", "sym_fetch", "sym_update")
_BODY_KEYS = ("body", "then", "else")


def _stmt_paths(x, path=()):
    """Paths of the target / region statements inside a recipe, outermost first."""
    out = []
    if isinstance(x, dict):
        if x.get("op") in _TARGET_STMTS and path:
            out.append(path)
        for k in sorted(x):
            out.extend(_stmt_paths(x[k], path + (k,)))
    elif isinstance(x, list):
        for i, e in enumerate(x):
            out.extend(_stmt_paths(e, path + (i,)))
    return out


def _delete(x, path):
    import copy
    x = copy.deepcopy(x)
    cur = x
    for p in path[:-1]:
        cur = cur[p]
    del cur[path[-1]]
    return x


def reduce_targets(recipe, check, diag, max_tries=8):
    """Drop target statements that are not needed for the mismatch (check, diag), so that the feature is computed
    on the constructs that matter.  Deterministic; returns (recipe, outcome) of the reduced program or None."""
    cur, cur_o = recipe, None
    tries = 0
    skip = 0
    while tries < max_tries:
        paths = [p for p in _stmt_paths(cur.get("funcs")) if isinstance(p[-1], int)]
        if skip >= len(paths):
            break
        cand = dict(cur, funcs=_delete(cur["funcs"], paths[skip]))
        tries += 1
        try:
            o = evaluate(cand)
        except Exception:
            o = None
        if o is not None and o.kind == "mismatch" and (o.check, o.diag) == (check, diag):
            cur, cur_o = cand, o
        else:
            skip += 1
    return (cur, cur_o) if cur_o is not None else None


def signature(o: Outcome) -> dict:
    sig = {"check": o.check, "pass": o.pname, "diag": o.diag, "what": o.what or "-", "context": context_of(o.m0, o.pname)}
    sig.update(features_of(o.m0, o.pname, o.name, o.vec if o.vec is not None else o.vecs[0]))
    return sig


def run_case(h, recipe, label):
    o = evaluate(recipe)
    pname = o.pname
    if o.kind == "rejected":
        h.case(recipe, False, label=label)
        h.discard(o.reject)
        return
    if o.kind == "mismatch":
        fo = o
        # the signature describes the program reduced to the target statements the failure needs
        red = reduce_targets(recipe, o.check, o.diag)
        sig = signature(red[1] if red is not None else o)
        h.case(recipe, False, label=label)
        h.mismatch(sig, recipe, f"{pname} on @{o.name}{'' if o.vec is None else tuple(o.vec)!r}: {o.detail}\n"
                   f"---- before\n{progen.render(o.m0)[:2500]}\n---- after\n{progen.render(o.m1)[:2500]}")
        return
    for lab in o.excluded:
        h.exclude(lab)
    if o.npoison_runs:
        h.count("runs_with_poison_value_compared", o.npoison_runs)
    if len(o.excluded) == len(o.vecs):
        h.count("all_inputs_excluded")
    if o.div_hoisted:
        # speculated division-like ops: every input either had UB already before the pass (excluded, counted) or
        # was compared (a division by zero introduced by the pass is reported as ub_introduced)
        h.count("division_speculated:" + pname)
        h.count(f"division_speculated:{pname}:inputs_excluded_before_ub", sum(1 for x in o.excluded if x == "before_ub"))
        h.count(f"division_speculated:{pname}:inputs_compared", len(o.vecs) - len(o.excluded))
    loops_ge2 = any(r.trips and max(r.trips) >= 2 for r in o.befores)
    loops_zero = any(0 in r.trips for r in o.befores)
    nt = o.changed and len(o.excluded) < len(o.vecs)
    if pname in LOOP_PASSES:
        nt = nt and loops_ge2 and loops_zero
    if o.changed:
        h.count("changed:" + pname)
        if loops_ge2:
            h.count("loops_ge2:" + pname)
        if loops_zero:
            h.count("loops_zero:" + pname)
        if loops_ge2 and loops_zero:
            h.count("loops_both:" + pname)
    else:
        h.count("unchanged:" + pname)
    sample = None
    if nt and len(h.samples) < 6 and not h._shrinking:
        sample = {"recipe": recipe, "ir": progen.render(o.m0)[:1500]}
    h.case(recipe, nt, label=label, sample=sample)


# ---------------------------------------------------------------------------------------------
# generators
# ---------------------------------------------------------------------------------------------

INT_T = ["i1", "i8", "i32", "i64", "index"]
FLT_T = ["f32", "f64"]
LOOP_T = ["index", "index", "i32", "i64", "i8"]
_REF = progen._REF


def _c(v):
    return {"c": v}


def _hc(v):
    return {"c": v, "hoist": 1}


def _func_recipes(body, vt, pname, max_args=3):
    """body: strategy of statement lists -> program recipes with one function."""
    args = st.lists(st.sampled_from(vt), min_size=1, max_size=max_args)
    rets = st.lists(st.tuples(st.sampled_from(vt), _REF).map(list), min_size=1, max_size=2)
    inputs = st.lists(st.integers(0, (1 << 64) - 1), min_size=1, max_size=N_INPUTS * max_args)
    return st.builds(lambda a, b, r, i: {"kind": "pass", "pass": pname,
                                         "funcs": [{"args": a, "body": b, "ret": r}], "inputs": i, "ib": 64},
                     args, body, rets, inputs)


def _cat(*parts):
    """strategy of lists: concatenation of strategies of statement lists."""
    return st.tuples(*parts).map(lambda xs: [s for x in xs for s in x])


def _small_types():
    """(loop type, value types) -- a program concentrates on few types so that values chain."""
    return st.tuples(st.sampled_from(LOOP_T), st.lists(st.sampled_from(["i32", "i64", "f64", "i8", "index", "f32"]),
                                                       min_size=1, max_size=2, unique=True))


def _generic(pname, **over):
    base = dict(int_types=INT_T, float_types=FLT_T, max_funcs=2, size=7)
    base.update(over)
    return progen.program_recipes(base).map(lambda r: dict(r, kind="pass", **{"pass": pname}))


def _with_types(mk):
    """mk(loop_t, value_types, levels) -> strategy; draws the types first (levels cached per type set)."""
    cache: dict = {}

    def sub(tv):
        t, vts = tv
        ints = sorted({x for x in vts + [t, "i1"] if not x.startswith("f")})
        flts = sorted({x for x in vts if x.startswith("f")})
        key = (t, tuple(ints), tuple(flts))
        if key not in cache:
            lv = progen._stmt_levels(progen.features(int_types=ints, float_types=flts, max_depth=2,
                                                     control=["scf_if", "scf_for", "scf_while"]))
            cache[key] = mk(t, ints + flts, lv)
        return cache[key]
    return _small_types().flatmap(sub)


def _iters(vt, max_size=2):
    return st.lists(st.tuples(st.sampled_from(vt), _REF).map(list), max_size=max_size)


def _for(t, lb, ub, step, iters, body, y):
    return {"op": "for", "t": t, "lb": lb, "ub": ub, "step": step, "iters": iters, "body": body, "y": y}


# ---- unroll: constant bounds ----------------------------------------------------------------

def unroll_programs(pname="scf-for-loop-unroll"):
    def mk(t, vt, lv):
        cb = st.integers(-7, 13).map(_c)
        stp = st.integers(1, 4).map(_c)
        refs = st.lists(_REF, max_size=2)

        def loop(body):
            return st.builds(_for, st.just(t), cb, cb, stp, _iters(vt), body, refs)
        inner = loop(st.lists(lv[0], max_size=3))
        outer = loop(_cat(st.lists(lv[0], max_size=2), st.lists(inner, min_size=1, max_size=1),
                          st.lists(lv[0], max_size=2)))
        # 2-3 iteration arguments of ONE type and yield refs that reach past the body's values: the yield forwards /
        # permutes iteration arguments (and the induction variable when it has that type)
        def perm(ty, n, inits, bd, ys):
            # the loop results are printed (newest values of the type) so that a wrong final value is observable
            return [_for(t, _c(inits[0] % 3 - 1), _c(1 + inits[1] % 4), _c(1 + inits[2] % 2),
                         [[ty, r] for r in inits[:n]], bd, ys[:n]),
                    {"op": "print", "k": 1, "args": [[ty, j] for j in range(n)]}]
        perm_loop = st.builds(perm, st.sampled_from([x for x in vt if x != "i1"] + [t]), st.sampled_from([2, 2, 3]),
                              st.lists(st.integers(0, 5), min_size=3, max_size=3), st.lists(lv[0], max_size=2),
                              st.lists(st.integers(0, 5), min_size=3, max_size=3))
        one = st.one_of(loop(st.lists(lv[1], max_size=4)), loop(st.lists(lv[0], max_size=4)), outer)
        body = _cat(st.lists(lv[0], max_size=3), st.lists(one, max_size=2), perm_loop, st.lists(one, max_size=1),
                    st.lists(lv[0], max_size=2))
        return _func_recipes(body, vt, pname)
    return _with_types(mk)


# ---- deterministic enumeration: yields that forward / permute block arguments -------------------------

YIELD_PASSES = ["scf-for-loop-unroll", "convert-scf-to-cf", "licm", "scf-for-loop-range-folding", "scf-for-loop-flatten"]


def yield_perm_recipes(full: bool):
    """Constant-bound scf.for over index with n = 2, 3 index-typed iter_args whose scf.yield takes every assignment of
    its operands over {iter_args, induction variable, one value computed in the body}; trip counts 0..3.  For
    flatten the same yields sit in the inner loop of a perfect nest whose iter_args are threaded through.
    quick: n = 2 all 16 assignments, n = 3 the 27 assignments over the iter_args; thorough: n = 3 all 125."""
    import itertools
    out = []
    for n in (2, 3):
        choices = list(range(n)) + (["iv", "body"] if (n == 2 or full) else [])
        for assign in itertools.product(choices, repeat=n):
            # body scope, newest first, after the one body statement: body value 0, it_j at n - j, iv at n + 1
            y = [0 if c == "body" else n + 1 if c == "iv" else n - c for c in assign]
            inits = [["index", n - 1 - j] for j in range(n)]           # function arguments a_0 .. a_{n-1}
            rets = [["index", n - 1 - j] for j in range(n)]            # loop results r_0 .. r_{n-1}
            fargs = ["index"] * n
            for pname in YIELD_PASSES:
                if pname == "scf-for-loop-flatten":
                    for ot, it in ((0, 2), (1, 1), (2, 1), (1, 2), (2, 2)):
                        inner = _for("index", _hc(0), _hc(it), _hc(1), [["index", n - 1 - j] for j in range(n)],
                                     [{"op": "addi", "t": "index", "a": n - 1, "b": n - 1}], y)
                        outer = _for("index", _hc(0), _hc(ot), _hc(1), inits, [inner], [n - 1 - j for j in range(n)])
                        out.append({"kind": "pass", "pass": pname, "funcs": [{"args": fargs, "body": [outer], "ret": rets}],
                                    "inputs": [9, 14, 22, 3, 17, 6], "ib": 64})
                    continue
                for trips in (0, 1, 2, 3):
                    # body value = iv + a_{n-1} (an outside value: foldable when the yield does not use the iv)
                    loop = _for("index", _c(0), _c(trips), _c(1), inits,
                                [{"op": "addi", "t": "index", "a": n, "b": n + 1}], y)
                    out.append({"kind": "pass", "pass": pname, "funcs": [{"args": fargs, "body": [loop], "ret": rets}],
                                "inputs": [9, 14, 22, 3, 17, 6], "ib": 64})
    return out


# ---- range folding: iv used once by addi/muli with an outside value ----------------------------

# mostly positive: a multiplier <= 0 is the shallow known defect F-C16-1 (kept at a small quota)
FOLD_CONSTS = [1, 2, 3, 5, 7, 2, 3, 4, 6, 9, 10, 16, 1, 2, 3, 64, 100, 127, 5, 8, 0, -3]


def fold_programs(pname="scf-for-loop-range-folding"):
    def mk(t, vt, lv):
        other = [x for x in vt if x != t] or ["f64"]
        bnd = progen._bound(True)

        def shape(k1, k2, ops, lb, ub, stp, iters, rest, y, tail):
            # visible values of type t inside the body, newest first: iv, then the outside values (k2, k1, ...)
            body = []
            for j, (o, which, swap) in enumerate(ops):
                a, b = 0, 1 + which + (0 if j == 0 else 1)        # 0 = iv (first op) / previous result
                body.append({"op": o, "t": t, "a": b if swap else a, "b": a if swap else b})
            return [{"op": "const", "t": t, "v": k1}, {"op": "const", "t": t, "v": k2},
                    _for(t, lb, ub, stp, iters, body + tail + rest, y)]
        ops = st.lists(st.tuples(st.sampled_from(["addi", "muli", "muli"]), st.sampled_from([0, 0, 0, 1, 1, 2]), st.booleans()),
                       min_size=1, max_size=2)
        # the folded value is made observable: printed / passed to an external function
        tail = st.sampled_from([[{"op": "print", "k": 0, "args": [[t, 0]]}],
                                [{"op": "call", "k": 0, "args": [[t, 0]], "res": []}],
                                []])
        loop = st.builds(shape, st.sampled_from(FOLD_CONSTS), st.sampled_from(FOLD_CONSTS), ops, bnd, bnd, bnd,
                         _iters(other), st.lists(lv[0], max_size=3), st.lists(_REF, max_size=2), tail)
        body = _cat(st.lists(lv[0], max_size=2), loop, st.one_of(st.just([]), loop), st.lists(lv[0], max_size=2))
        return _func_recipes(body, vt, pname)
    return _with_types(mk)


# ---- flatten: perfect nests with bounds defined outside ----------------------------------------

def flatten_programs(pname="scf-for-loop-flatten"):
    def mk(t, vt, lv):
        other = [x for x in vt if x != t] or ["f64"]
        hb = st.one_of(st.integers(-7, 13).map(_hc),
                       st.builds(lambda r, m, o: {"r": r, "m": m, "o": o, "hoist": 1}, _REF,
                                 st.sampled_from([1, 3, 7, 15]), st.integers(0, 12)))
        hcb = st.integers(-7, 13).map(_hc)

        def nest(used, olb, oub, ostep, ilb, iub, istep, its, rest, tail):
            # iter_args threaded outer -> inner -> outer yield (the pattern's requirement)
            n = len(its)
            outer_iters = [[ty, r] for ty, r in its]
            # in the outer body the newest values of each type are the outer block arguments
            cnt: dict = {}
            inner_iters = []
            for ty, _ in reversed(its):
                inner_iters.insert(0, [ty, cnt.get(ty, 0)])
                cnt[ty] = cnt.get(ty, 0) + 1
            cnt = {}
            oy = []
            for ty, _ in reversed(its):
                oy.insert(0, cnt.get(ty, 0))
                cnt[ty] = cnt.get(ty, 0) + 1
            ibody = []
            if used:
                # newest values of type t in the inner body: inner iv = 0, outer iv = 1 (no iter_args of type t)
                ibody.append({"op": "addi", "t": t, "a": 0 if used == 1 else 1, "b": 1 if used == 1 else 0})
            ibody += tail + rest
            iy = list(range(n))     # refs drawn below would be arbitrary; newest values of each type
            inner = _for(t, ilb, iub, istep, inner_iters, ibody, iy)
            return [_for(t, olb, oub, ostep, outer_iters, [inner], oy)]

        def used_nest(olb, oub, ostep_v, idiv, its, rest, tail, order):
            istep_v = [d for d in (1, 2, 3, 4) if ostep_v % d == 0][idiv % len([d for d in (1, 2, 3, 4)
                                                                                  if ostep_v % d == 0])]
            return nest(order, olb, oub, _hc(ostep_v), _hc(0), _hc(ostep_v), _hc(istep_v), its, rest, tail)
        tail = st.sampled_from([[{"op": "print", "k": 1, "args": [[t, 0]]}],
                                [{"op": "call", "k": 1, "args": [[t, 0]], "res": []}],
                                [{"op": "print", "k": 2, "args": []}], []])
        its = _iters(other)
        rest = st.lists(lv[0], max_size=3)
        stp = st.integers(1, 4)
        exact_used = st.builds(used_nest, hb, hb, stp, st.integers(0, 3), its, rest, tail, st.sampled_from([1, 2]))
        unused = st.builds(lambda oub, ostep, ilb, iub, istep, i, r, tl, olb:
                           nest(0, olb, oub, ostep, ilb, iub, istep, i, r, tl),
                           hb, stp.map(_hc), hcb, hcb, stp.map(_hc), its, rest, tail,
                           st.sampled_from([_hc(0), _hc(0), _hc(0), _hc(1), _hc(-2)]))
        loose = st.builds(nest, st.sampled_from([0, 1, 2]), hb, hb, stp.map(_hc), hcb, hcb, stp.map(_hc), its, rest,
                          tail)
        one = st.one_of(exact_used, unused, unused, loose)
        body = _cat(st.lists(lv[0], max_size=2), one, st.one_of(st.just([]), one), st.lists(lv[0], max_size=2))
        return _func_recipes(body, vt, pname)
    return _with_types(mk)


# ---- licm: invariant arithmetic / divisions / memory traffic inside loops -----------------------

def licm_programs(pname="licm"):
    def mk(t, vt, lv):
        bnd = progen._bound(True)
        refs = st.lists(_REF, max_size=2)
        vals = [x for x in vt if x != "i1"]
        ivals = [x for x in vals if not x.startswith("f")] or ["i32"]

        def inv_stmt():
            # operands far back in the visibility order: mostly values defined outside the loop
            far = st.integers(2, 9)
            return st.one_of(
                st.builds(lambda o, ty, a, b, s: {"op": o, "t": ty, "a": a, "b": b, "safe": s},
                          st.sampled_from(["addi", "muli", "subi", "divsi", "divui", "remsi", "remui", "floordivsi",
                                           "ceildivsi", "ceildivui", "shli", "xori"]),
                          st.sampled_from(ivals), far, far, st.sampled_from([0, 0, 1])),
                st.builds(lambda ty, p, a, b: {"op": "cmpi", "t": ty, "p": p, "a": a, "b": b},
                          st.sampled_from(ivals), st.integers(0, 9), far, far))

        def mem_rmw(ty, n, k, far):
            ld = {"op": "load", "t": ty, "n": n, "m": 0, "i": _c(k)}
            op = {"op": "addf" if ty.startswith("f") else "addi", "t": ty, "a": 0, "b": far}
            stv = {"op": "store", "t": ty, "n": n, "m": 0, "i": _c(k), "v": 0}
            return [ld, op, stv]
        eff = st.sampled_from([[{"op": "print", "k": 0, "args": [[vals[0], 0]]}],
                               [{"op": "call", "k": 0, "args": [[vals[0], 0]], "res": [vals[0]]}], [], []])

        def with_mem(mt):
            ty, n = mt
            rmw = st.builds(mem_rmw, st.just(ty), st.just(n), st.integers(0, 3), st.integers(1, 4))
            piece = st.one_of(st.lists(inv_stmt(), min_size=1, max_size=2), st.lists(lv[0], max_size=2), rmw, eff)
            lbody = st.lists(piece, min_size=1, max_size=4).map(lambda xs: [s for x in xs for s in x])

            def loop(body):
                return st.builds(_for, st.just(t), bnd, bnd, bnd, _iters(vt), body, refs)
            inner = loop(lbody)
            outer = loop(_cat(lbody, st.lists(inner, min_size=1, max_size=1), st.lists(lv[0], max_size=2)))
            one = st.one_of(inner, inner, outer)
            pre = st.integers(0, 20).map(lambda v: [{"op": "alloc", "t": ty, "n": n, "v": v}])
            post = st.integers(0, 3).map(lambda k: [{"op": "load", "t": ty, "n": n, "m": 0, "i": _c(k)}])
            body = _cat(st.lists(lv[0], max_size=3), pre, st.lists(one, min_size=1, max_size=2), post,
                        st.lists(lv[0], max_size=1))
            return _func_recipes(body, vt, pname)
        return st.tuples(st.sampled_from(vals), st.sampled_from([1, 2, 4])).flatmap(with_mem)
    return _with_types(mk)


# ---- lower-affine: affine.for with constant bounds around affine.apply / load / store of the iv ---------

def affine_programs(pname="lower-affine"):
    def mk(t, vt, lv):
        vals = [x for x in vt if x not in ("i1", "index")] or ["i32"]
        # symbolic bounds are rejected by the pass (IndexError): kept at a small quota
        cb = st.builds(lambda k, c, sym: sym if k == 0 else c, st.integers(0, 11), st.integers(-7, 13).map(_c),
                       progen._bound(True))
        leaf = st.one_of(st.builds(lambda i: ["d", i], st.integers(0, 1)), st.builds(lambda i: ["s", i], st.integers(0, 1)),
                         st.builds(lambda c: ["c", c], st.integers(-9, 9)))
        expr = st.recursive(leaf, lambda ch: st.one_of(
            st.builds(lambda a, b: ["+", a, b], ch, ch),
            st.builds(lambda a, c: ["*", a, c], ch, st.integers(-4, 4)),
            st.builds(lambda k, a, c: [k, a, c], st.sampled_from(["mod", "floordiv", "ceildiv"]), ch,
                      st.integers(0, 7))), max_leaves=4)

        def with_mem(mt):
            ty, n = mt
            near = st.integers(0, 2)        # the induction variable / the latest index values
            apply_ = st.builds(lambda e, a: [{"op": "affine_apply", "e": e, "args": a},
                                             {"op": "print", "k": 1, "args": [["index", 0]]}],
                               expr, st.lists(near, max_size=4))
            load = st.builds(lambda i, k, c: [{"op": "affine_load", "t": ty, "n": n, "m": 0, "i": i, "k": k, "c": c},
                                              {"op": "print", "k": 2, "args": [[ty, 0]]}],
                             near, st.integers(-3, 3), st.integers(-5, 5))
            store = st.builds(lambda i, k, c, v: [{"op": "affine_store", "t": ty, "n": n, "m": 0, "i": i, "k": k, "c": c,
                                                   "v": v}], near, st.integers(-3, 3), st.integers(-5, 5), _REF)
            piece = st.one_of(apply_, load, store, st.lists(lv[0], max_size=2))
            lbody = st.lists(piece, min_size=1, max_size=4).map(lambda xs: [s for x in xs for s in x])

            def loop(body):
                return st.builds(lambda lb, ub, sp, it, bd, y: {"op": "affine_for", "lb": lb, "ub": ub, "step": sp,
                                                                "iters": it, "body": bd, "y": y},
                                 cb, cb, st.integers(0, 3), _iters(vt, 1), body, st.lists(_REF, max_size=1))
            inner = loop(lbody)
            outer = loop(_cat(lbody, st.lists(inner, min_size=1, max_size=1)))
            one = st.one_of(inner, inner, outer)
            pre = st.integers(0, 20).map(lambda v: [{"op": "alloc", "t": ty, "n": n, "v": v}])
            post = st.integers(0, 3).map(lambda k: [{"op": "load", "t": ty, "n": n, "m": 0, "i": _c(k)}])
            body = _cat(st.lists(lv[0], max_size=2), pre, st.lists(one, min_size=1, max_size=2), lbody, post)
            return _func_recipes(body, vt + ["index"], pname)
        return st.tuples(st.sampled_from(vals), st.sampled_from([1, 2, 4])).flatmap(with_mem)
    return _with_types(mk)


# ---- control-flow-hoist: branches guarding a division, pure and effectful contents --------------------

def hoist_programs(pname="control-flow-hoist"):
    def mk(t, vt, lv):
        T = t       # an integer type of width >= 8
        # mostly the division ops that are correctly conditionally speculatable; the always-speculatable ones are
        # the known defect F-C16-10 (small quota)
        divs = ["divsi", "divui", "remui", "ceildivui"] * 3 + ["remsi", "floordivsi", "ceildivsi"]

        def shape(mask, far, dop, da, eq, extra_then, extra_else, eff, res2):
            # x = older & mask  (0 for many inputs);  guard = x != 0 (or x == 0 with the branches swapped)
            pre = [{"op": "const", "t": T, "v": mask}, {"op": "andi", "t": T, "a": 0, "b": far},
                   {"op": "const", "t": T, "v": 0},
                   {"op": "cmpi", "t": T, "p": 0 if eq else 1, "a": 1, "b": 0}]
            div = [{"op": dop, "t": T, "a": da, "b": 1, "safe": 0}]     # divisor = x (same ref as in the guard)
            guarded = div + extra_then + eff
            other = list(extra_else)
            if_ = {"op": "if", "c": 0, "res": [T] + res2, "then": other if eq else guarded, "ty": [0, 0],
                   "else": guarded if eq else other, "ey": [0, 0]}
            return pre + [if_, {"op": "print", "k": 1, "args": [[T, 0]]}]
        pure = st.lists(lv[0], max_size=2)
        eff = st.sampled_from([[], [], [], [{"op": "print", "k": 2, "args": [[T, 0]]}]])
        one = st.builds(shape, st.sampled_from([1, 1, 3]), st.integers(1, 4), st.sampled_from(divs), st.integers(0, 4),
                        st.booleans(), pure, pure, eff, st.sampled_from([[], [], [T]]))
        body = _cat(st.lists(lv[0], max_size=3), one, st.one_of(st.just([]), one), st.lists(lv[0], max_size=2))
        return _func_recipes(body, vt, pname)
    cache: dict = {}

    def sub(tv):
        t, vts = tv
        ints = sorted({x for x in vts + [t, "i1"] if not x.startswith("f")})
        key = (t, tuple(ints))
        if key not in cache:
            # pure statements only (an effect inside the branch legitimately blocks the hoist)
            lv = progen._stmt_levels(progen.features(int_types=ints, float_types=[], max_depth=1, effects=[],
                                                     control=["scf_if"]))
            cache[key] = mk(t, ints, lv)
        return cache[key]
    return st.tuples(st.sampled_from(["i32", "i64", "index", "i8"]),
                     st.lists(st.sampled_from(["i32", "i64", "i8"]), min_size=1, max_size=1)).flatmap(sub)


# ---- frontend-desymrefy: symref variables, straight-line and in nested regions -------------------

def symref_programs(nested: bool, pname="frontend-desymrefy"):
    """Programs over one main value type (+ i1) so that the values written to the variables differ."""
    return st.sampled_from(["i32", "i64", "f64", "i32"]).flatmap(lambda t: _symref_programs(t, nested, pname))


def _symref_programs(main_t: str, nested: bool, pname: str):
    vt = [main_t, main_t, main_t, "i1"]
    F = progen.features(int_types=["i1"] + ([main_t] if main_t[0] == "i" else []),
                        float_types=[main_t] if main_t[0] == "f" else [],
                        ops=["int_arith", "cmp", "float_arith", "float_cmp", "select"],
                        effects=["print"], control=[], symref=False, dup=False, index_bits=64)
    base = progen._stmt_levels(F)[0]
    decl = st.builds(lambda t, v: [{"op": "sym_decl", "t": t, "v": v}], st.sampled_from(vt), _REF)
    # every fetched value is made observable: the newest value of each type is printed right after the fetch
    showall = {"op": "print", "k": 3, "args": [[t, 0] for t in (main_t, "i1")]}
    fetch = st.builds(lambda k: [{"op": "sym_fetch", "k": k}, showall], st.integers(0, 3))
    upd = st.builds(lambda k, v: [{"op": "sym_update", "k": k, "v": v}], st.integers(0, 3), _REF)
    one = base.map(lambda x: [x])
    # .map(_ident) keeps one_of from flattening nested alternatives (the weights are real)
    leaf = st.one_of(decl, fetch, fetch, fetch, upd, upd, upd, one, one).map(progen._ident)

    def flat(xs):
        return [s for x in xs for s in x]
    bnd = progen._bound(False)
    refs = st.lists(_REF, max_size=2)
    res = st.lists(st.sampled_from(vt), max_size=1)

    def regions(inner):
        if_ = st.builds(lambda c, r, th, ty, el, ey: [{"op": "if", "c": c, "res": r, "then": th, "ty": ty, "else": el,
                                                       "ey": ey}], _REF, res, inner, refs, inner, refs)
        for_ = st.builds(lambda *a: [_for(*a)], st.just("index"), bnd, bnd, bnd, _iters(vt, 1), inner, refs)
        return st.one_of(if_, for_).map(progen._ident)
    l0 = st.lists(leaf, min_size=2, max_size=6).map(flat)
    if nested:
        l1 = _cat(st.lists(leaf, min_size=1, max_size=4).map(flat), st.lists(regions(l0), max_size=1).map(flat),
                  st.lists(leaf, max_size=3).map(flat))
        top = _cat(st.lists(leaf, min_size=1, max_size=4).map(flat),
                   st.lists(regions(l1), min_size=1, max_size=2).map(flat),
                   st.lists(leaf, min_size=1, max_size=4).map(flat))
    else:
        top = st.lists(leaf, min_size=4, max_size=14).map(flat)
    body = _cat(st.lists(decl, min_size=1, max_size=2).map(flat), top, st.lists(fetch, max_size=2).map(flat))
    return _func_recipes(body, vt, pname)


# ---------------------------------------------------------------------------------------------
# campaigns
# ---------------------------------------------------------------------------------------------

def campaigns():
    """(name, strategy, weight)."""
    scf_ctl = ["scf_if", "scf_for", "scf_while", "index_switch"]
    out = []
    out.append(("cf:generic", _generic("convert-scf-to-cf", control=scf_ctl + ["cf"], size=9), 3))
    out.append(("cf:unroll_shapes", unroll_programs("convert-scf-to-cf"), 1))
    out.append(("cf:licm_shapes", licm_programs("convert-scf-to-cf"), 1))
    out.append(("affine:generic", _generic("lower-affine", affine=True, control=["scf_if", "scf_for"],
                                           memref_args=True, size=9), 2))
    out.append(("affine:shapes", affine_programs(), 3))
    out.append(("fold:shapes", fold_programs(), 4))
    out.append(("flatten:shapes", flatten_programs(), 4))
    out.append(("unroll:shapes", unroll_programs(), 3))
    out.append(("unroll:flatten_shapes", flatten_programs("scf-for-loop-unroll"), 1))
    out.append(("licm:shapes", licm_programs(), 3))
    out.append(("licm:generic", _generic("licm", control=["scf_for"], memref_args=True, size=10), 1))
    out.append(("licm:unroll_shapes", unroll_programs("licm"), 1))
    out.append(("hoist:pure", _generic("control-flow-hoist", control=["scf_if", "scf_for"], effects=[],
                                       affine=True, size=9), 2))
    out.append(("hoist:effects", _generic("control-flow-hoist", control=["scf_if", "scf_for", "scf_while"],
                                          affine=True, size=9), 2))
    out.append(("hoist:guarded_div", hoist_programs(), 3))
    out.append(("symref:straight", symref_programs(False), 3))
    out.append(("symref:nested", symref_programs(True), 3))
    return out


def replay(h, recipe):
    _init()
    run_case(h, recipe, "replay")


def checks(h):
    _init()
    for i, r in enumerate(yield_perm_recipes(full=not h.quick)):
        if i % h.nshards == h.shard:
            run_case(h, r, "enum:yield_perm")
    unit = h.scale(8, 120)
    for salt, (cname, strat, weight) in enumerate(campaigns()):
        h.hyp(cname, strat, lambda r, cname=cname: run_case(h, r, cname), unit * weight, salt + 1)
