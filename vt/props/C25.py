"""C25 — Liveness dataflow analysis computes its specified fixpoint under any schedule.

Recipe:
  {"nargs": int,                      # i32 function arguments = values 0..nargs-1
   "public": bool,                    # func.func public / private
   "mode": "dca_first"|"dca_last"|"manual",
                                      # how the body block is made executable (see build/run_solver)
   "ops": [{"kind": K, "operands": [value index, ...], "nresults": int}, ...],
                                      # K in pure|read|write|op|symbol|const|addi; results get the next
                                      # value indices; operands only name earlier values (branch-free SSA)
   "ret": [value index, ...],         # operands of the final func.return
   "schedules": [[int, ...], ...]}    # (may be []) each non-empty list is one pop order: at step s the
                                      # worklist item at index picks[s % len] % len(worklist) is processed

Reference (independent of the solver): the set of live values is the least set L such that every
operand of a not-trivially-removable op (unknown effects, write effect, symbol op, terminator =
func.return) is in L, and every operand of an op that has a result in L is in L; computed by plain
backward reachability over the recipe.
"""
from __future__ import annotations

import traceback

from hypothesis import strategies as st

from vt.run import quiet

ID = "C25"
SHARDS = {"quick": 16, "thorough": 16}
RULE = ("random branch-free func.func bodies (<=14 ops quick / <=22 thorough) of test.pureop, "
        "test.op_with_memread, test.op_with_memwrite, test.op (unknown effects), test.op_with_symbol, "
        "test.constant, arith.addi with 0..3 operands drawn from function arguments and earlier results "
        "(fan-in, fan-out, repeated operands), 0..3 results, ended by func.return of 0..3 values in a "
        "public or private function; body made executable by DeadCodeAnalysis loaded before or after "
        "LivenessAnalysis (top-level op = the function) or marked by hand under a module (as the unit "
        "tests do). Oracle: per SSA value, Liveness lattice (missing state = dead) == least-fixpoint "
        "reachability reference computed on the recipe, for the solver's own deque and for the worklist "
        "replaced by FIFO, LIFO and Hypothesis-chosen pick-order containers; all schedules must agree. "
        "Non-trivial: the function has a live def-use chain and a dead def-use chain, each through >=2 ops.")
ASSUMPTIONS = [
    "reachability reference over the recipe is correct",
    "test.op (no effect traits) has unknown effects, test.op_with_memwrite writes, test.op_with_memread "
    "only reads, test.pureop/test.constant/arith.addi are pure, test.op_with_symbol is a symbol op, "
    "func.return is a terminator (their trait lists in xdsl/dialects are trusted)",
    "a value with no Liveness state after the run is reported dead (as the unit tests read it)",
    "replacing DataFlowSolver._worklist by an object offering append/popleft/__len__/__bool__ is a "
    "faithful model of 'another processing order'",
]

KINDS = ("pure", "read", "write", "op", "symbol", "const", "addi")
# kinds whose op is never trivially removable -> operands live unconditionally
ROOT_KINDS = {"write", "op", "symbol", "return"}
MODES = ("dca_first", "dca_last", "manual")


class WorklistProtocolError(BaseException):
    """The solver used a worklist method the substitute container does not model (harness error)."""


class StepBudget(BaseException):
    pass


class PickWorklist:
    """Substitute for DataFlowSolver._worklist with a caller-chosen pop order.

    picks None -> FIFO, "lifo" -> LIFO, list of ints -> item picks[s % n] % len at step s."""

    def __init__(self, picks, budget):
        self.items = []
        self.picks = picks
        self.step = 0
        self.budget = budget
        self.max_len = 0

    def append(self, x):
        self.items.append(x)
        if len(self.items) > self.max_len:
            self.max_len = len(self.items)

    def extend(self, xs):
        for x in xs:
            self.append(x)

    def popleft(self):
        self.step += 1
        if self.step > self.budget:
            raise StepBudget()
        if self.picks is None:
            i = 0
        elif self.picks == "lifo":
            i = len(self.items) - 1
        else:
            i = self.picks[(self.step - 1) % len(self.picks)] % len(self.items)
        return self.items.pop(i)

    def __len__(self):
        return len(self.items)

    def __bool__(self):
        return bool(self.items)

    def __iter__(self):
        return iter(list(self.items))

    def __getattr__(self, name):
        raise WorklistProtocolError(name)


# ---- recipe validation, reference ---------------------------------------------------------------

def validate(r):
    nv = r["nargs"]
    assert r["mode"] in MODES, r["mode"]
    for o in r["ops"]:
        assert o["kind"] in KINDS, o
        assert all(0 <= i < nv for i in o["operands"]), ("operand refers to a later value", o, nv)
        if o["kind"] == "const":
            assert not o["operands"] and o["nresults"] == 1, o
        if o["kind"] == "addi":
            assert len(o["operands"]) == 2 and o["nresults"] == 1, o
        nv += o["nresults"]
    assert all(0 <= i < nv for i in r["ret"]), r["ret"]
    for s in r["schedules"]:
        assert s and all(isinstance(x, int) and x >= 0 for x in s), s
    return nv


def reference(r):
    """Returns (live: list[bool] per value, defop: value -> op index or None, users: value -> [op idx])."""
    nv = validate(r)
    ops = [dict(o) for o in r["ops"]] + [{"kind": "return", "operands": list(r["ret"]), "nresults": 0}]
    defop = [None] * r["nargs"]
    for j, o in enumerate(ops):
        defop.extend([j] * o["nresults"])
    users = [[] for _ in range(nv)]
    for j, o in enumerate(ops):
        for i in o["operands"]:
            if j not in users[i]:
                users[i].append(j)
    live = [False] * nv
    todo = []

    def mark(i):
        if not live[i]:
            live[i] = True
            todo.append(i)

    for o in ops:
        if o["kind"] in ROOT_KINDS:
            for i in o["operands"]:
                mark(i)
    while todo:
        v = todo.pop()
        j = defop[v]
        if j is not None:
            for i in ops[j]["operands"]:
                mark(i)
    return live, defop, users, ops


def features(r, live, defop, users, ops):
    nv = len(live)
    f = {}

    def chained(v, want):
        # v and one operand of its defining op are both op results with liveness == want
        j = defop[v]
        if j is None or live[v] != want:
            return False
        return any(defop[u] is not None and live[u] == want for u in ops[j]["operands"])

    f["live_chain2"] = any(chained(v, True) for v in range(nv))
    f["dead_chain2"] = any(chained(v, False) for v in range(nv))

    def op_live(j):
        o = ops[j]
        base = sum(p["nresults"] for p in ops[:j]) + r["nargs"]
        return o["kind"] in ROOT_KINDS or any(live[base + k] for k in range(o["nresults"]))

    f["fan_in"] = any(len(set(o["operands"])) >= 2 for o in ops)
    f["fan_out"] = any(len(u) >= 2 for u in users)
    f["used_only_by_dead"] = any(u and not any(op_live(j) for j in u) for u in users)
    f["used_by_live_and_dead"] = any(
        any(op_live(j) for j in u) and any(not op_live(j) for j in u) for u in users)
    base = r["nargs"]
    multi = False
    for o in ops:
        if o["nresults"] >= 2:
            used = [bool(users[base + k]) for k in range(o["nresults"])]
            lv = [live[base + k] for k in range(o["nresults"])]
            if sum(used) == 1 or sum(lv) == 1:
                multi = True
        base += o["nresults"]
    f["multi_result_one_used"] = multi
    f["live_arg"] = any(live[i] for i in range(r["nargs"]))
    f["dead_used_arg"] = any(not live[i] and users[i] for i in range(r["nargs"]))
    f["removable_with_live_and_dead_results"] = False
    base = r["nargs"]
    for o in ops:
        lv = [live[base + k] for k in range(o["nresults"])]
        if o["kind"] not in ROOT_KINDS and any(lv) and not all(lv) and o["operands"]:
            f["removable_with_live_and_dead_results"] = True
        base += o["nresults"]
    return f


# ---- IR construction and solver runs ------------------------------------------------------------

def build(r):
    """Returns (top-level op to analyse, body block, list of SSA values by index)."""
    from xdsl.dialects import arith, func, test
    from xdsl.dialects.builtin import ModuleOp, i32
    from xdsl.ir import Block, Region

    block = Block(arg_types=[i32] * r["nargs"])
    vals = list(block.args)
    nsym = 0
    for o in r["ops"]:
        operands = [vals[i] for i in o["operands"]]
        rt = [i32] * o["nresults"]
        k = o["kind"]
        if k == "pure":
            op = test.TestPureOp(operands=operands, result_types=rt)
        elif k == "read":
            op = test.TestReadOp(operands=operands, result_types=rt)
        elif k == "write":
            op = test.TestWriteOp(operands=operands, result_types=rt)
        elif k == "op":
            op = test.TestOp(operands=operands, result_types=rt)
        elif k == "symbol":
            from xdsl.dialects.builtin import StringAttr
            op = test.TestSymbolOp(operands=operands, result_types=rt,
                                   properties={"sym_name": StringAttr(f"s{nsym}")})
            nsym += 1
        elif k == "const":
            op = test.TestConstantOp(len(vals), i32)
        elif k == "addi":
            op = arith.AddiOp(operands[0], operands[1])
        else:  # pragma: no cover
            raise AssertionError(k)
        block.add_op(op)
        vals.extend(op.results)
    block.add_op(func.ReturnOp(*[vals[i] for i in r["ret"]]))
    f = func.FuncOp("f", ([i32] * r["nargs"], [i32] * len(r["ret"])), Region(block),
                    visibility="public" if r["public"] else "private")
    if r["mode"] == "manual":
        top = ModuleOp([f])
    else:
        top = f
    top.verify()  # a generator bug must surface as a harness error
    return top, block, vals


def run_solver(r, top, block, vals, worklist):
    """One solver run; returns list[bool] (reported liveness per value)."""
    from xdsl.analysis.dataflow import DataFlowSolver, ProgramPoint
    from xdsl.analysis.dead_code_analysis import DeadCodeAnalysis, Executable
    from xdsl.analysis.liveness_analysis import Liveness, LivenessAnalysis
    from xdsl.context import Context

    solver = DataFlowSolver(Context())
    if worklist is not None:
        solver._worklist = worklist
    mode = r["mode"]
    if mode == "dca_first":
        solver.load(DeadCodeAnalysis)
        solver.load(LivenessAnalysis)
    elif mode == "dca_last":
        solver.load(LivenessAnalysis)
        solver.load(DeadCodeAnalysis)
    else:
        solver.load(LivenessAnalysis)
        solver.get_or_create_state(ProgramPoint.at_start_of_block(block), Executable).live = True
    with quiet():
        solver.initialize_and_run(top)
    out = []
    for v in vals:
        s = solver.lookup_state(v, Liveness)
        out.append(bool(s is not None and s.is_live))
    return out


def _xdsl_frame(exc):
    tb = traceback.extract_tb(exc.__traceback__)
    for fr in reversed(tb):
        if "/xdsl/" in fr.filename:
            return fr.filename.split("/xdsl/", 1)[1] + ":" + fr.name
    return None


def schedule_list(r):
    scheds = [("default", "default"), ("fifo_sub", None), ("lifo", "lifo")]
    for k, s in enumerate(r["schedules"]):
        scheds.append((f"pick{k}", list(s)))
    return scheds


def run_one(h, r, label):
    live, defop, users, ops = reference(r)
    f = features(r, live, defop, users, ops)
    nontrivial = f["live_chain2"] and f["dead_chain2"]
    h.case(r, nontrivial, label=label)
    h.count("mode_" + r["mode"])
    h.count("public" if r["public"] else "private")
    for k, v in f.items():
        if v:
            h.count("has_" + k)
    top, block, vals = build(r)
    assert len(vals) == len(live)
    nops = len(ops)
    budget = 400 * (nops + 2) * (nops + 2)
    results = {}
    found = []
    for name, picks in schedule_list(r):
        wl = None if picks == "default" else PickWorklist(picks, budget)
        try:
            got = run_solver(r, top, block, vals, wl)
        except StepBudget:
            h.inconclusive("step_budget_" + ("pick" if name.startswith("pick") else name))
            continue
        except Exception as e:
            where = _xdsl_frame(e)
            if where is None:
                raise
            found.append(({"check": "exception", "exc": type(e).__name__, "where": where,
                           "schedule": "pick" if name.startswith("pick") else name},
                          f"{type(e).__name__}: {e} in schedule {name}"))
            continue
        results[name] = got
        h.count("solver_runs")
    if not results:
        for sig, detail in found:
            h.mismatch(sig, r, detail)
        return
    # schedule (in)dependence of each value's report
    per_value = [sorted({res[i] for res in results.values()}) for i in range(len(vals))]
    dependent = any(len(s) > 1 for s in per_value)
    if dependent:
        h.count("schedule_dependent_case")
    # (1) value-wise comparison with the reference, in every schedule
    seen = set()
    for name, got in results.items():
        for i, (g, e) in enumerate(zip(got, live)):
            if g == e:
                continue
            cls = "dead_reported_live" if g else "live_reported_dead"
            # what should have decided the value: the user op kinds that make it live (for missed
            # liveness) / all its user kinds (for spurious liveness)
            ukinds = sorted({ops[j]["kind"] for j in users[i]
                             if g or ops[j]["kind"] in ROOT_KINDS or _op_has_live_result(r, ops, j, live)})
            # one responsible user kind only (first in sorted order) so that one root cause does not
            # fan out into a signature per combination
            sig = {"check": "value", "class": cls,
                   "user_kind": ukinds[0] if ukinds else "none",
                   "schedule_dependent": len(per_value[i]) > 1,
                   "default_schedule_wrong": "default" in results and results["default"][i] != e}
            key = tuple(sorted(sig.items()))
            if key in seen:
                continue
            seen.add(key)
            vdesc = "arg" if defop[i] is None else "result of " + ops[defop[i]]["kind"]
            found.append((sig, f"value {i} ({vdesc}; users {'+'.join(ukinds) or 'none'}) reported "
                               f"{'live' if g else 'dead'} under schedule {name}, reference {'live' if e else 'dead'}; reports per schedule: "
                               f"{ {n: res[i] for n, res in results.items()} }; mode {r['mode']}"))
    # (2) schedule independence: the reference is one labelling, so two schedules that disagree with
    # each other always show up in (1) with schedule_dependent=True (default_schedule_wrong tells
    # whether the solver's own FIFO run is among the wrong ones).
    for sig, detail in found:
        h.mismatch(sig, r, detail)


def _op_has_live_result(r, ops, j, live):
    base = r["nargs"] + sum(p["nresults"] for p in ops[:j])
    return any(live[base + k] for k in range(ops[j]["nresults"]))


def replay(h, recipe):
    run_one(h, recipe, "replay")


# ---- generation -----------------------------------------------------------------------------------

@st.composite
def recipes(draw, max_ops, nsched):
    nargs = draw(st.integers(0, 3))
    nops = draw(st.integers(1, max_ops))
    nv = nargs
    ops = []
    kind_st = st.sampled_from(("pure", "pure", "pure", "read", "write", "op", "symbol", "const", "addi",
                               "pure", "read"))
    for _ in range(nops):
        kind = draw(kind_st)
        if kind == "addi" and nv == 0:
            kind = "const"
        if kind == "const":
            operands, nres = [], 1
        elif kind == "addi":
            operands = [draw(_value_index(nv)), draw(_value_index(nv))]
            nres = 1
        else:
            nopnd = draw(st.integers(0, 3)) if nv else 0
            operands = [draw(_value_index(nv)) for _ in range(nopnd)]
            nres = draw(st.sampled_from((0, 1, 1, 1, 2, 3)))
        ops.append({"kind": kind, "operands": operands, "nresults": nres})
        nv += nres
    nret = draw(st.integers(0, 3)) if nv else 0
    ret = [draw(_value_index(nv)) for _ in range(nret)]
    scheds = draw(st.lists(st.lists(st.integers(0, 40), min_size=1, max_size=12),
                           min_size=nsched, max_size=nsched))
    return {"nargs": nargs, "public": draw(st.booleans()), "mode": draw(st.sampled_from(("dca_last", "manual", "dca_first"))),
            "ops": ops, "ret": ret, "schedules": scheds}


def _value_index(nv):
    # bias towards recent values (chains) while keeping older ones reachable (fan-out)
    return st.one_of(st.integers(max(0, nv - 3), nv - 1), st.integers(0, nv - 1))


def checks(h):
    def body(r):
        run_one(h, r, "random")

    h.hyp("random_functions", recipes(h.scale(14, 22), h.scale(3, 7)), body, h.scale(800, 6000), 1,
          shrink_budget_s=8.0)
    # small functions: dense coverage of short chains, every mode/visibility
    h.hyp("small_functions", recipes(5, h.scale(3, 5)), body, h.scale(300, 3000), 2,
          shrink_budget_s=8.0)
