"""C04 — Generic textual form round-trips every valid IR.

Recipe kinds:
  {"kind": "gen",    "mod": <irgen recipe with name hints>}
  {"kind": "corpus", "chunk": i, "pass": name|None}
Oracle: generic print -> parse in a fresh Context -> vt.canon equal under the two granted
normalisations; print(parse(text)) == text; printing twice / printing a clone gives identical text.
"""
from __future__ import annotations

import io

from hypothesis import strategies as st

from vt import canon as C
from vt import corpus, irgen

ID = "C04"
SHARDS = {"quick": 16, "thorough": 16}
RULE = ("(a) irgen modules whose value/block name hints are drawn from what the IR API accepts "
        "(IRWithName.extract_valid_name: [A-Za-z_$.-][\\w$.-]* incl. _N suffixes, bbN, $ . -, Unicode "
        "word characters), set through the name_hint setter (a hint the setter rejects is simply not "
        "set); (b) every verifying chunk of the .mlir corpus (all dialects); (c) corpus chunks after "
        "canonicalize/dce/cse. Oracle: generic print -> parse in a fresh context -> canonical forms equal "
        "modulo default-valued properties and inherent attributes in the attr-dict; re-print is "
        "identical text; printing twice and printing a clone give identical text. Non-trivial: >=2 "
        "hints that collide after suffix stripping, a non-ASCII hint, or (corpus) a chunk with a "
        "dialect attribute/type.")
ASSUMPTIONS = ["vt.canon canonical form is a correct positional isomorphism check",
               "the process-global dense_resource handle table is reset before each parse"]

PASSES = ["canonicalize", "dce", "cse"]
HINT_POOL = ["a", "a", "a_1", "a_1_2", "a_2", "b", "b_0", "x.y", "x-y", "$s", "_", "_1", "bb0", "bb1", "bb2",
             "bb", "arg0", "arg", "v-1", "a__1", "a_01", "A", "a.1", "0a", "aé", "é", "a²", "aβ", "a_１", "true",
             "a_", "i32", "func", "x_y_3", "_a_1"]


def hint_strategy():
    alpha = st.sampled_from(list("abAZ_$.-019é²β"))
    free = st.text(alphabet=alpha, min_size=1, max_size=5)
    return st.one_of(st.none(), st.sampled_from(HINT_POOL), st.sampled_from(HINT_POOL), free)


def print_generic(op) -> str:
    from xdsl.printer import Printer
    s = io.StringIO()
    Printer(stream=s, print_generic_format=True).print_op(op)
    return s.getvalue()


def parse_fresh(text):
    from xdsl.parser import Parser
    corpus.reset_global_state()
    return Parser(corpus.make_ctx(True), text).parse_module()


def exc_site(e) -> str:
    import traceback
    tb = traceback.extract_tb(e.__traceback__)
    for fr in reversed(tb):
        if "/xdsl/" in fr.filename:
            return fr.filename.split("/xdsl/", 1)[1] + ":" + fr.name
    return "?"


def hints_of(module):
    out = []
    for o in module.walk():
        out.extend(r.name_hint for r in o.results)
        for rg in o.regions:
            for b in rg.blocks:
                out.append(("^", b.name_hint))
                out.extend(a.name_hint for a in b.args)
    return out


def hint_features(module):
    import re
    hs = [x for x in hints_of(module) if isinstance(x, str)]
    bh = [x[1] for x in hints_of(module) if isinstance(x, tuple) and x[1]]
    stripped = [re.sub(r"(_\d+)+$", "", x) for x in hs]
    collide = len(set(stripped)) < len(stripped) or len(set(bh)) < len(bh)
    non_ascii = any(not x.isascii() for x in hs + bh)
    return {"collide": collide, "non_ascii": non_ascii}


def hint_class(rec) -> str:
    """Coarse class of the raw hints of a recipe (signature component)."""
    import re
    raw = []

    def walk(x):
        if isinstance(x, dict):
            for k, v in x.items():
                if k in ("h", "ah"):
                    raw.extend(v if isinstance(v, list) else [v])
                else:
                    walk(v)
        elif isinstance(x, list):
            for e in x:
                walk(e)
    walk(rec)
    raw = [x for x in raw if isinstance(x, str)]
    cls = []
    if any(not x.isascii() for x in raw):
        cls.append("non_ascii")
    if any(re.search(r"(_\d+){2,}$", x) or re.fullmatch(r"(_\d+)+", x) for x in raw):
        cls.append("multi_suffix")
    if any(re.fullmatch(r"bb\d+(_\d+)*", x) for x in raw):
        cls.append("bbN")
    if any(x[0] in "$.-" or "." in x or "-" in x or "$" in x for x in raw):
        cls.append("punct")
    return "+".join(cls) or "plain"


def roundtrip(h, r, module, source, feats):
    """The oracle. `source` labels where the module came from."""
    from xdsl.utils.exceptions import ParseError
    sig0 = {"source": source, **feats}
    try:
        text = print_generic(module)
    except Exception as e:
        h.mismatch({"check": "print_raises", "exc": type(e).__name__, "site": exc_site(e), **sig0}, r, repr(e))
        return
    if print_generic(module) != text:
        h.mismatch({"check": "print_twice_differs", **sig0}, r, "printing the same module twice gives different text")
        return
    try:
        clone_text = print_generic(module.clone())
    except Exception as e:
        clone_text = None
        h.mismatch({"check": "clone_print_raises", "exc": type(e).__name__, **sig0}, r, repr(e))
    if clone_text is not None and clone_text != text:
        h.mismatch({"check": "clone_prints_differently", **sig0}, r, _textdiff(text, clone_text))
    try:
        m2 = parse_fresh(text)
    except ParseError as e:
        h.mismatch({"check": "reparse_fails", "exc": "ParseError", "site": exc_site(e), **sig0}, r,
                   f"{str(e)[:300]}\n--- printed text:\n{text[:1500]}")
        return
    except Exception as e:
        h.mismatch({"check": "reparse_fails", "exc": type(e).__name__, "site": exc_site(e), **sig0}, r,
                   f"{e!r:.300}\n--- printed text:\n{text[:1500]}")
        return
    c1, c2 = C.canon(module, normalize=True), C.canon(m2, normalize=True)
    if c1 != c2:
        d = C.first_diff(c1, c2)
        sig = {"check": "reparsed_not_equivalent", "what": C.op_diff(c1, c2), "cls": _value_class(module, text)}
        sig["source"] = source
        if "hints" in feats:
            sig["hints"] = feats["hints"]
        h.mismatch(sig, r, d + f"\n--- printed text:\n{text[:1500]}")
        return
    try:
        text2 = print_generic(m2)
    except Exception as e:
        h.mismatch({"check": "reprint_raises", "exc": type(e).__name__, **sig0}, r, repr(e))
        return
    if text2 != text:
        if C.canon(module) != C.canon(m2):
            # the parser applied one of the two granted normalisations (default-valued property dropped /
            # inherent attribute moved from the attr-dict into the properties), so the text legitimately
            # changes once; it must be stable from then on
            h.count("normalised_on_reparse")
            try:
                text3 = print_generic(parse_fresh(text2))
            except Exception as e:
                h.mismatch({"check": "reparse_of_normalised_text_fails", "exc": type(e).__name__, **sig0}, r, repr(e)[:300])
                return
            if text3 != text2:
                h.mismatch({"check": "reprint_differs_after_normalisation", **sig0}, r, _textdiff(text2, text3))
            return
        h.mismatch({"check": "reprint_differs", **sig0}, r, _textdiff(text, text2))


def _value_class(module, text: str) -> str:
    """Coarse class of the attribute payloads present (signature component for value changes)."""
    from xdsl.dialects.builtin import AnyFloat, DenseIntOrFPElementsAttr
    import re as _re
    for o in module.walk():
        for a in list(o.properties.values()) + list(o.attributes.values()):
            if isinstance(a, DenseIntOrFPElementsAttr) and isinstance(a.get_element_type(), AnyFloat) \
                    and _re.search(r"dense<[^>]*0x[0-9A-Fa-f]+", str(a)):
                return "dense_float_printed_in_hex"
    return "-"


def _diff_class(d: str) -> str:
    for key in ("Float", "Dense", "String", "Bytes", "Integer", "Affine", "Location", "Symbol"):
        if key in d:
            return key.lower()
    return "other"


def _textdiff(a: str, b: str) -> str:
    la, lb = a.splitlines(), b.splitlines()
    for i, (x, y) in enumerate(zip(la, lb)):
        if x != y:
            return f"line {i}: {x[:200]!r} != {y[:200]!r}"
    return f"{len(la)} vs {len(lb)} lines"


class SafeHints:
    """irgen sets hints through the setter; hints the API rejects are not part of the domain."""


def build_with_hints(rec):
    orig = irgen._set_hint

    def safe(v, hint):
        if hint is None:
            return
        try:
            v.name_hint = hint
        except ValueError:
            pass  # the API does not accept this hint
    irgen._set_hint = safe
    try:
        return irgen.build(rec)
    finally:
        irgen._set_hint = orig


def run_gen(h, r):
    module = build_with_hints(r["mod"]).module
    module.verify()
    f = hint_features(module)
    h.case(r, f["collide"] or f["non_ascii"], label="gen")
    for k, v in f.items():
        if v:
            h.count("gen_" + k)
    roundtrip(h, r, module, "gen", {"hints": hint_class(r["mod"])})


_passes = {}


def run_corpus(h, r):
    from vt.run import quiet
    ch = corpus.chunks()
    rel, idx, text = ch[r["chunk"] % len(ch)]
    if isinstance(r.get("file"), str) and "#" in r["file"]:
        # saved recipes name the chunk, so that they survive changes of the corpus
        frel, _, fidx = r["file"].rpartition("#")
        for c in ch:
            if c[0] == frel and str(c[1]) == fidx:
                rel, idx, text = c
    module = corpus.parse_chunk(text)
    if module is None:
        h.discard("chunk_rejected")
        return
    pname = r.get("pass")
    if pname:
        from xdsl.transforms import get_all_passes
        if not _passes:
            _passes.update(get_all_passes())
        try:
            with quiet():
                _passes[pname]()().apply(corpus.make_ctx(), module)
                module.verify()
        except Exception:
            h.discard("pass_failed_or_invalid_output")  # C17's subject
            return
    dialecty = any("." in o.name and not o.name.startswith(("builtin.", "test.")) for o in module.walk())
    h.case(r, dialecty, label="corpus_pass" if pname else "corpus", sample={"chunk": f"{rel}#{idx}", "pass": pname})
    roundtrip(h, {**r, "file": f"{rel}#{idx}"}, module, "corpus", {"file": rel if not pname else "-"})


def run(h, r):
    if r["kind"] == "gen":
        run_gen(h, r)
    elif r["kind"] == "corpus":
        run_corpus(h, r)
    else:
        raise AssertionError(r["kind"])


def replay(h, recipe):
    run(h, recipe)


def checks(h):
    hints = hint_strategy()
    s_gen = st.fixed_dictionaries({"kind": st.just("gen"),
                                   "mod": irgen.module_recipes(depth=2, hints=hints, max_ops=3, max_blocks=3)})
    h.hyp("gen", s_gen, lambda r: run(h, r), h.scale(50, 600), 1)
    nchunks = len(corpus.chunks())
    if h.quick:
        s_c = st.fixed_dictionaries({"kind": st.just("corpus"), "chunk": st.integers(0, nchunks - 1),
                                     "pass": st.none()})
        h.hyp("corpus", s_c, lambda r: run(h, r), 28, 2)
        s_p = st.fixed_dictionaries({"kind": st.just("corpus"), "chunk": st.integers(0, nchunks - 1),
                                     "pass": st.sampled_from(PASSES)})
        h.hyp("corpus_pass", s_p, lambda r: run(h, r), 8, 3)
    else:
        for i in range(nchunks):
            if i % h.nshards != h.shard:
                continue
            run(h, {"kind": "corpus", "chunk": i, "pass": None})
            for p in PASSES:
                run(h, {"kind": "corpus", "chunk": i, "pass": p})
