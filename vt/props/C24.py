"""C24 — Dominance and post-order traversal match their graph definitions.

Recipe: {"succ": [[s, ...], ...]}  -- block i has a terminator with that successor list
(repetition = multi-edge, i in its own list = self-loop, unlisted blocks may be unreachable).
Oracle: path-based dominance by plain BFS with a removed node; post-order validity predicate.
"""
from __future__ import annotations

import itertools

from hypothesis import strategies as st

ID = "C24"
SHARDS = {"quick": 16, "thorough": 16}
RULE = ("exhaustive: all CFGs with n<=4 blocks where every block's terminator has 0..2 successors "
        "drawn with repetition (self-loops, multi-edges, unreachable blocks), n<=3 with 0..3 "
        "successors; random CFGs with n<=9 blocks and <=3 successors. Oracle: A dominates reachable "
        "B iff A==B or B is not reachable from the entry once A is removed (BFS); post-order "
        "yields exactly the reachable blocks once each with the entry last, and every block after "
        "all its not-yet-finished successors' subtrees (weak: entry last). Non-trivial: graph has an "
        "unreachable block with an edge into a reachable block, a multi-edge, or a cycle.")
ASSUMPTIONS = ["BFS reachability reference is correct",
               "dominates(A, B) is only specified for reachable B (unreachable B not compared)"]


def build(succ):
    from xdsl.dialects.test import TestTermOp
    from xdsl.ir import Block, Region
    blocks = [Block() for _ in succ]
    for b, ss in zip(blocks, succ):
        b.add_op(TestTermOp(successors=[blocks[s] for s in ss]))
    return Region(blocks), blocks


def reach(succ, removed=None):
    if removed == 0:
        return set()
    seen = {0}
    todo = [0]
    while todo:
        x = todo.pop()
        for y in succ[x]:
            if y != removed and y not in seen:
                seen.add(y)
                todo.append(y)
    return seen


def features(succ):
    r = reach(succ)
    n = len(succ)
    f = {
        "unreachable_pred": any(i not in r and any(s in r for s in succ[i]) for i in range(n)),
        "multi_edge": any(len(set(ss)) < len(ss) for ss in succ),
    }
    # cycle among reachable blocks
    color = {}

    def dfs(u):
        color[u] = 1
        for v in succ[u]:
            if color.get(v) == 1 or (v not in color and dfs(v)):
                return True
        color[u] = 2
        return False
    f["cycle"] = dfs(0)
    return f


def oracle(succ):
    """Returns list of (sig, detail)."""
    from xdsl.ir.post_order import PostOrderIterator
    from xdsl.irdl.dominance import DominanceInfo, strictly_dominates
    out = []
    n = len(succ)
    region, blocks = build(succ)
    idx = {b: i for i, b in enumerate(blocks)}
    r = reach(succ)
    f = features(succ)
    info = DominanceInfo(region)
    for a in range(n):
        ra = reach(succ, removed=a)
        for b in r:
            exp = (a == b) or (b not in ra)
            got = info.dominates(blocks[a], blocks[b])
            if got != exp:
                out.append(({"check": "dominates", "kind": "missing" if exp else "spurious",
                             "unreachable_pred": f["unreachable_pred"], "a_reachable": a in r},
                            f"dominates({a},{b})={got} expected {exp} in {succ}"))
            gs = info.strictly_dominates(blocks[a], blocks[b])
            if gs != (exp and a != b):
                out.append(({"check": "strictly_dominates", "kind": "missing" if exp else "spurious",
                             "unreachable_pred": f["unreachable_pred"], "a_reachable": a in r},
                            f"strictly_dominates({a},{b})={gs} in {succ}"))
            gf = strictly_dominates(blocks[a], blocks[b])
            if gf != gs:
                out.append(({"check": "strictly_dominates_fn", "kind": "differs_from_method"},
                            f"module-level strictly_dominates({a},{b})={gf}, method {gs} in {succ}"))
    po = [idx[b] for b in PostOrderIterator(blocks[0])]
    kind = None
    if len(set(po)) < len(po):
        kind = "duplicate"
    elif set(po) - r:
        kind = "unreachable_yielded"
    elif r - set(po):
        kind = "missing"
    elif po[-1] != 0:
        kind = "entry_not_last"
    if kind:
        out.append(({"check": "post_order", "kind": kind, "multi_edge": f["multi_edge"]},
                    f"post order {po} reachable {sorted(r)} in {succ}"))
    return out, f


def run_one(h, succ, label, distinct=False):
    res, f = oracle(succ)
    r = {"succ": [list(s) for s in succ]}
    h.case(r, any(f.values()), label=label, distinct=distinct)
    for k, v in f.items():
        if v:
            h.count("has_" + k)
    for sig, detail in res:
        h.mismatch(sig, r, detail)


def replay(h, recipe):
    run_one(h, recipe["succ"], "replay")


def succ_options(n, k):
    opts = []
    for m in range(k + 1):
        opts.extend(itertools.product(range(n), repeat=m))
    return opts


def checks(h):
    plans = [(1, 3), (2, 3), (3, 3), (4, 2)]
    if not h.quick:
        plans.append((4, 3))  # 85^4 is too many: sampled below instead
    i = 0
    for n, k in plans:
        opts = succ_options(n, k)
        if n == 4 and k == 3:
            continue
        for succ in itertools.product(opts, repeat=n):
            i += 1
            if i % h.nshards != h.shard:
                continue
            run_one(h, succ, f"enum_n{n}_k{k}", distinct=True)
    h.exhaustive = True

    def graphs(nmax, kmax):
        return st.integers(2, nmax).flatmap(
            lambda n: st.lists(st.lists(st.integers(0, n - 1), max_size=kmax), min_size=n, max_size=n))

    def body(succ):
        run_one(h, succ, "random")

    h.hyp("random_cfg", graphs(9, 3), body, h.scale(250, 12000), 1)
    if not h.quick:
        h.hyp("random_cfg_n4k3", graphs(5, 3), body, 8000, 2)
