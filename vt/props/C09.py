"""C09 -- IRDL attribute constraints accept exactly what they describe.

Recipes
-------
{"kind": "tree", "tree": SPEC, "pre": [[var, k], ...], "seed": idx|None, "perm": int}
    SPEC is a specification tree in this module's own AST over a fixed universe U of builtin
    attributes (addressed by index):
        ["any"] | ["base", cls_name] | ["eq", idx] | ["set", [idx...]] | ["param", cls_name, [SPEC...]]
        | ["arrayof", SPEC] | ["union", [SPEC...]] | ["inter", [SPEC...]] | ["var", name, SPEC]
        | ["message", SPEC]
    The real constraint is built from SPEC with the public constructors in several *styles*
    (".get" constructors / raw dataclass constructors / operators and coercions / permuted unions);
    each is compared with the reference evaluator `ev` on every attribute of U, under the empty
    context, under a closed pre-binding of variables, and after a first verification of U[seed]
    in the same context; can_infer/infer are checked for each context.
{"kind": "hint", "hint": HINT}
    HINT: ["attribute"] | ["cls", name] | ["gen", generic_cls_name, HINT] | ["intty", width|None, sign|None]
        | ["union", [HINT...]] | ["annot", HINT, [["attr", idx] | ["spec", SPEC], ...]]
    `irdl_to_attr_constraint(hint).verifies(a)` vs `isa(a, hint)` vs the structural reading `hv`.

Variable semantics implemented by the reference (grounded in the VarConstraint docstring --
"Constrain an attribute with the given constraint, and constrain all occurences of this
constraint (i.e, sharing the same name) to be equal" -- and tests/irdl/test_attribute_definition.py
test_constraint_var*): an attribute satisfies ["var", n, c] under an assignment iff it satisfies c and
equals the value assigned to n; an unassigned variable is assigned at its first occurrence
(left-to-right over parameters / intersection members / array elements). Failure anywhere is
failure of the whole verification (the library never backtracks), a union is satisfied by the one
alternative whose class matches (alternatives of a union that builds are class-disjoint).
What the documentation does NOT specify is avoided by construction:
  * two occurrences of one name with different constraints (real users share one VarConstraint
    object) -> every occurrence of a name carries the identical child spec;
  * a variable nested in its own constraint;
  * a context in which a variable is bound to a value that does not satisfy its constraint, or in
    which a variable is bound while variables that its constraint binds are not (such a context
    cannot result from verification) -> pre-bindings are closed under the reference evaluator.
"""
from __future__ import annotations

import functools
import itertools
import operator
import traceback

from hypothesis import strategies as st

from vt.run import quiet

ID = "C09"
SHARDS = {"quick": 16, "thorough": 16}
RULE = ("Hypothesis-generated specification trees (any/base/eq/set/param/arrayof/union/inter/var/"
        "message, depth<=3 quick / 4 thorough, generator steered by the pool of attributes that can "
        "reach each position so that unions are mostly class-disjoint and parameters mostly "
        "satisfiable) over a fixed universe U of ~170 attributes (builtin ones plus a 4-parameter test "
        "attribute class; full grids over TensorType/MemRefType/quad parameters) closed under parameters and "
        "array elements, plus an exhaustive ordered-pair enumeration of ~45 atomic constraints as "
        "2-alternative unions at top level / under IntegerAttr / VectorType / ArrayAttr, and of unions of "
        "two/three same-base ParamAttrConstraints that differ in every subset of parameter positions "
        "(also folded directly with relax_constraint). Each tree is "
        "built in 4 styles (.get constructors, raw constructors, `|`/`&`/coercions, permuted unions) "
        "and `verify(attr, ctx)` is compared with an independent evaluator over indices for EVERY "
        "attribute of U under the empty context, a closed variable pre-binding, and the context left "
        "by first verifying a seed attribute; if can_infer(bound vars) then infer(ctx) must verify "
        "(only when some attribute of U satisfies the constraint in that context). Type hints "
        "(generic attribute classes, unions, Annotated, IntegerType[Literal]) : "
        "irdl_to_attr_constraint(h).verifies vs isa vs structural reading. Non-trivial: tree contains "
        "a union of >=2 alternatives below a param node, or a variable occurring twice (hint: union "
        "of >=2 below a generic).")
ASSUMPTIONS = [
    "attribute ==/hash of the universe attributes is correct (used once to index U; C08 checks it)",
    "reference evaluator `ev`/`hv` (set semantics over indices of U) is correct",
    "same variable name => same constraint at every occurrence; pre-bound contexts are closed and "
    "consistent (contexts that verification itself could have produced)",
    "construction errors PyRDLError/PyRDLTypeError (overlapping union bases etc.) and VerifyException "
    "from building an invalid attribute out of equality parameters are documented rejections",
    "parameter position of each generic class's type variable is read by hand from the class "
    "definitions (GEN_POS)",
]

ABSTRACT = ["Attribute", "TypeAttribute", "ParametrizedAttribute", "Data", "BuiltinAttribute",
            "TypedAttribute", "ShapedType", "FixedBitwidthType", "CompileTimeFixedBitwidthType",
            "MemRefLayoutAttr", "OpaqueSyntaxAttribute"]
# generic classes usable in hints: position of the parameter constrained by the type variable
# (read from the class definitions in xdsl/dialects/builtin.py), and the bound of the type variable
GEN_POS = {"IntegerAttr": (1, "int"), "FloatAttr": (1, "float"), "ComplexType": (0, "complex"),
           "VectorType": (0, "any"), "TensorType": (1, "any"), "UnrankedTensorType": (0, "any"),
           "MemRefType": (1, "any"), "DenseArrayBase": (0, "complex"), "ArrayAttr": ("elems", "any")}
SIGNS = ["SIGNLESS", "SIGNED", "UNSIGNED"]
STYLES = ["get", "raw", "ops", "perm"]


# ----------------------------------------------------------------------------------------------
# universe and tables
class Tables:
    pass


_TABLES = None


def _seeds():
    from xdsl.dialects.builtin import (ArrayAttr, BFloat16Type, BytesAttr, ComplexType,
                                       DenseArrayBase, DictionaryAttr, Float16Type, Float32Type,
                                       Float64Type, FloatAttr, FunctionType, IndexType, IntegerAttr,
                                       IntegerType, MemRefType, NoneAttr, NoneType, Signedness,
                                       StringAttr, SymbolRefAttr, TensorType, TupleType, UnitAttr,
                                       UnrankedTensorType, VectorType)
    S = Signedness
    tys = [IntegerType(1), IntegerType(8), IntegerType(16), IntegerType(32), IntegerType(64),
           IntegerType(8, S.SIGNED), IntegerType(32, S.SIGNED), IntegerType(8, S.UNSIGNED),
           IntegerType(32, S.UNSIGNED), IndexType(), Float16Type(), Float32Type(), Float64Type(),
           BFloat16Type(), NoneType()]
    i1, i8, i32, i64 = tys[0], tys[1], tys[3], tys[4]
    si32, ui8, idx = tys[6], tys[7], tys[9]
    f16, f32, f64 = tys[10], tys[11], tys[12]
    ia = IntegerAttr
    out = list(tys)
    for v, t in [(0, i1), (1, i1), (0, i8), (7, i8), (-1, i8), (0, i32), (1, i32), (42, i32), (-1, i32),
                 (1, i64), (42, i64), (0, idx), (1, idx), (42, idx), (-1, si32), (7, si32), (7, ui8),
                 (200, ui8)]:
        out.append(ia(v, t))
    for v, t in [(0.0, f32), (1.0, f32), (-2.5, f32), (1.0, f64), (-2.5, f64), (0.0, f64), (1.0, f16)]:
        out.append(FloatAttr(v, t))
    out += [StringAttr(""), StringAttr("a"), StringAttr("b"), StringAttr("hello"), UnitAttr(), NoneAttr(),
            BytesAttr(b"ab")]
    sa = StringAttr
    out += [ArrayAttr([]), ArrayAttr([i32]), ArrayAttr([i32, i32]), ArrayAttr([i32, i64]),
            ArrayAttr([i32, f32]), ArrayAttr([f32, f32]), ArrayAttr([idx, idx, idx]),
            ArrayAttr([ia(1, i32), ia(42, i32)]), ArrayAttr([ia(1, i32), ia(1, i32)]),
            ArrayAttr([ia(1, i32), ia(1, i64)]), ArrayAttr([ia(0, idx), ia(1, idx)]), ArrayAttr([ia(1, idx)]),
            ArrayAttr([sa("a"), sa("b")]), ArrayAttr([sa("a"), sa("a")]), ArrayAttr([sa("a"), ia(1, i32)]),
            ArrayAttr([UnitAttr()]), ArrayAttr([ArrayAttr([i32]), ArrayAttr([i32])]),
            ArrayAttr([ArrayAttr([i32]), ArrayAttr([i64])]),
            ArrayAttr([FloatAttr(1.0, f32), FloatAttr(1.0, f64)])]
    out += [VectorType(i32, [4]), VectorType(i32, [2, 2]), VectorType(f32, [4]), VectorType(idx, [4]),
            VectorType(i64, [8]), VectorType(f32, [2, 2]), VectorType(i32, [4], ArrayAttr([ia(1, i1)]))]
    out += [TensorType(f32, [2, 3]), TensorType(i32, [4]), TensorType(f64, []), TensorType(idx, [4]),
            TensorType(f32, [4]), TensorType(f32, [4], sa("a")), TensorType(i32, [2, 2])]
    out += [ComplexType(f32), ComplexType(f64), ComplexType(i32)]
    out += [TupleType(ArrayAttr([i32, f32])), TupleType(ArrayAttr([])), TupleType(ArrayAttr([i32, i32]))]
    out += [FunctionType.from_lists([i32], [i32]), FunctionType.from_lists([i32], [i64]),
            FunctionType.from_lists([], []), FunctionType.from_lists([i32, f32], [i32, f32]),
            FunctionType.from_lists([f32], [i32, f32])]
    out += [DictionaryAttr({}), DictionaryAttr({"a": i32}), DictionaryAttr({"a": UnitAttr(), "b": sa("a")})]
    out += [SymbolRefAttr("foo"), SymbolRefAttr("foo", ["bar"]), SymbolRefAttr("a")]
    out += [UnrankedTensorType(f32), UnrankedTensorType(i32)]
    out += [MemRefType(i32, [4]), MemRefType(f32, [2, 2]), MemRefType(f32, [4], NoneAttr(), ia(1, i32))]
    out += [DenseArrayBase.from_list(i32, [1, 2]), DenseArrayBase.from_list(f32, [1.0])]
    # ---- appended later (indices above stay stable): full grids over >=3-parameter classes, so that
    # the cross product of two alternatives that differ in several parameters is inside U
    for shape in ([2], [3]):
        for elt in (i32, f32):
            for enc in (NoneAttr(), sa("a")):
                out.append(TensorType(elt, shape, enc))
    for shape in ([4], [2, 2]):
        for elt in (i32, f32):
            for space in (NoneAttr(), ia(1, i32)):
                out.append(MemRefType(elt, shape, NoneAttr(), space))
    Q = quad_class()
    for a in (i32, i64):
        for b in (f32, f64):
            for c in (sa("a"), sa("b")):
                for d in (UnitAttr(), NoneAttr()):
                    out.append(Q(a, b, c, d))
    return out


_QUAD = None


def quad_class():
    """A small 4-parameter attribute class (all parameters unconstrained), defined with the public
    irdl_attr_definition, to control unions of parametrized constraints that differ in several,
    possibly non-adjacent, parameters."""
    global _QUAD
    if _QUAD is None:
        from xdsl.ir import Attribute, ParametrizedAttribute
        from xdsl.irdl import irdl_attr_definition
        cls = type("C09Quad", (ParametrizedAttribute,),
                   {"name": "c09.quad", "__module__": __name__,
                    "__annotations__": {"p0": Attribute, "p1": Attribute, "p2": Attribute, "p3": Attribute}})
        _QUAD = irdl_attr_definition(cls)
    return _QUAD


def tables() -> Tables:
    """Universe U (closed under parameters / array elements) and index tables. Deterministic."""
    global _TABLES
    if _TABLES is not None:
        return _TABLES
    import xdsl.dialects.builtin as B
    import xdsl.ir as IR
    from xdsl.dialects.builtin import ArrayAttr, IntAttr, SignednessAttr
    from xdsl.ir import ParametrizedAttribute
    from xdsl.utils.runtime_final import is_runtime_final
    T = Tables()
    U: list = []
    index: dict = {}

    def add(a):
        if a in index:
            return
        index[a] = len(U)
        U.append(a)
        if isinstance(a, ParametrizedAttribute):
            for p in a.parameters:
                add(p)
        elif isinstance(a, ArrayAttr):
            for e in a.data:
                add(e)

    with quiet():
        for s in _seeds():
            add(s)
    N = len(U)
    for i in range(N):  # the index view of U is only valid if == is the identity on U
        for j in range(N):
            if (U[i] == U[j]) != (i == j):
                raise AssertionError(f"universe not distinct: {U[i]} {U[j]}")
    T.U, T.N, T.index = U, N, index
    T.CLS = [type(a).__name__ for a in U]
    T.PARAMS = [tuple(index[p] for p in a.parameters) if isinstance(a, ParametrizedAttribute) else None
                for a in U]
    T.ELEMS = [tuple(index[e] for e in a.data) if isinstance(a, ArrayAttr) else None for a in U]
    T.INTDATA = [a.data if isinstance(a, IntAttr) else None for a in U]
    T.SIGNDATA = [a.data.name if isinstance(a, SignednessAttr) else None for a in U]
    classes: dict = {}
    for a in U:
        c = type(a)
        if classes.setdefault(c.__name__, c) is not c:
            raise AssertionError("class name clash " + c.__name__)
        if not is_runtime_final(c):
            raise AssertionError("universe class not final " + c.__name__)
    T.final = sorted(classes)
    for n in ABSTRACT:
        c = getattr(B, n, None) or getattr(IR, n)
        if is_runtime_final(c):
            raise AssertionError("expected abstract class " + n)
        classes[n] = c
    T.classes = classes
    T.ISA = [frozenset(c.__name__ for c in type(a).__mro__ if c.__name__ in classes) for a in U]
    T.by_class = {n: tuple(i for i in range(N) if T.CLS[i] == n) for n in T.final}
    T.arity = {n: len(T.PARAMS[T.by_class[n][0]]) for n in T.final
               if T.PARAMS[T.by_class[n][0]] is not None}
    T.param_classes = sorted(n for n, k in T.arity.items() if k >= 1)
    for n, (pos, _) in GEN_POS.items():
        if pos != "elems" and not (0 <= pos < T.arity[n]):
            raise AssertionError("GEN_POS out of range " + n)
    _TABLES = T
    return T


# ----------------------------------------------------------------------------------------------
# reference evaluator over indices
def ev(t, i, env, T):
    """Does U[i] satisfy spec t under assignment env (name -> idx)? Returns the extended
    assignment, or None. Never mutates env."""
    k = t[0]
    if k == "any":
        return env
    if k == "base":
        return env if t[1] in T.ISA[i] else None
    if k == "eq":
        return env if i == t[1] else None
    if k == "set":
        return env if i in t[1] else None
    if k == "param":
        if T.CLS[i] != t[1]:
            return None
        ps = T.PARAMS[i]
        if ps is None or len(ps) != len(t[2]):
            return None
        for p, c in zip(ps, t[2]):
            env = ev(c, p, env, T)
            if env is None:
                return None
        return env
    if k == "arrayof":
        if T.CLS[i] != "ArrayAttr":
            return None
        for e in T.ELEMS[i]:
            env = ev(t[1], e, env, T)
            if env is None:
                return None
        return env
    if k == "union":
        for c in t[1]:
            r = ev(c, i, env, T)
            if r is not None:
                return r
        return None
    if k == "inter":
        for c in t[1]:
            env = ev(c, i, env, T)
            if env is None:
                return None
        return env
    if k == "message":
        return ev(t[1], i, env, T)
    if k == "var":
        name = t[1]
        if name in env:
            if env[name] != i:
                return None
            r = ev(t[2], i, env, T)  # the occurrence must also satisfy the variable's constraint
            if r is not None and r != env:
                raise AssertionError(f"pre-binding not closed for {name}: {env} -> {r}")
            return r
        r = ev(t[2], i, env, T)
        if r is None:
            return None
        r = dict(r)
        r[name] = i
        return r
    raise AssertionError(f"bad spec node {t!r}")


def validate_spec(t, T):
    """Raise ValueError for a malformed spec node (e.g. a candidate produced by the recipe shrinker
    deleting list elements); such candidates are skipped by the harness."""
    def bad():
        return ValueError(f"malformed spec node {t!r}")
    if not isinstance(t, list) or not t or not isinstance(t[0], str):
        raise bad()
    k = t[0]
    isidx = lambda x: isinstance(x, int) and not isinstance(x, bool) and 0 <= x < T.N  # noqa: E731
    if k == "any":
        ok = len(t) == 1
    elif k == "base":
        ok = len(t) == 2 and isinstance(t[1], str) and t[1] in T.classes
    elif k == "eq":
        ok = len(t) == 2 and isidx(t[1])
    elif k == "set":
        ok = len(t) == 2 and isinstance(t[1], list) and all(isidx(x) for x in t[1])
    elif k == "param":
        ok = (len(t) == 3 and isinstance(t[1], str) and t[1] in T.arity and isinstance(t[2], list)
              and len(t[2]) == T.arity[t[1]])
        if ok:
            for c in t[2]:
                validate_spec(c, T)
    elif k in ("union", "inter"):
        ok = len(t) == 2 and isinstance(t[1], list)
        if ok:
            for c in t[1]:
                validate_spec(c, T)
    elif k in ("arrayof", "message"):
        ok = len(t) == 2
        if ok:
            validate_spec(t[1], T)
    elif k == "var":
        ok = len(t) == 3 and isinstance(t[1], str) and len(t[1]) >= 1
        if ok:
            validate_spec(t[2], T)
    else:
        ok = False
    if not ok:
        raise bad()


def validate_hint(hn, T):
    def bad():
        return ValueError(f"malformed hint node {hn!r}")
    if not isinstance(hn, list) or not hn or not isinstance(hn[0], str):
        raise bad()
    k = hn[0]
    if k == "attribute":
        ok = len(hn) == 1
    elif k == "cls":
        ok = len(hn) == 2 and isinstance(hn[1], str) and hn[1] in T.classes
    elif k == "gen":
        ok = len(hn) == 3 and isinstance(hn[1], str) and hn[1] in GEN_POS
        if ok:
            validate_hint(hn[2], T)
    elif k == "intty":
        ok = (len(hn) == 3 and (hn[1] is None or (isinstance(hn[1], int) and not isinstance(hn[1], bool)))
              and (hn[2] is None or hn[2] in SIGNS))
    elif k == "union":
        ok = len(hn) == 2 and isinstance(hn[1], list) and len(hn[1]) >= 1
        if ok:
            for x in hn[1]:
                validate_hint(x, T)
    elif k == "annot":
        ok = len(hn) == 3 and isinstance(hn[2], list) and len(hn[2]) >= 1
        if ok:
            validate_hint(hn[1], T)
            for e in hn[2]:
                if not (isinstance(e, list) and len(e) == 2 and e[0] in ("attr", "spec")):
                    raise bad()
                if e[0] == "attr":
                    if not (isinstance(e[1], int) and not isinstance(e[1], bool) and 0 <= e[1] < T.N):
                        raise bad()
                else:
                    validate_spec(e[1], T)
                    if any(n[0] == "var" for n in walk(e[1])):
                        raise bad()
    else:
        ok = False
    if not ok:
        raise bad()


def walk(t):
    yield t
    k = t[0]
    if k == "param":
        for c in t[2]:
            yield from walk(c)
    elif k in ("union", "inter"):
        for c in t[1]:
            yield from walk(c)
    elif k in ("arrayof", "message"):
        yield from walk(t[1])
    elif k == "var":
        yield from walk(t[2])


def var_table(t):
    """name -> child; raises if the variable discipline (module docstring) is violated."""
    tab = {}
    for n in walk(t):
        if n[0] == "var":
            if n[1] in tab and tab[n[1]] != n[2]:
                raise ValueError(f"variable {n[1]} used with two different constraints")
            tab[n[1]] = n[2]
    for name, child in tab.items():
        if any(n[0] == "var" and n[1] == name for n in walk(child)):
            raise ValueError(f"variable {name} nested in its own constraint")
    return tab


def nontrivial_tree(t):
    def union_under_param(n, under):
        k = n[0]
        if k == "union" and under and len(n[1]) >= 2:
            return True
        if k == "param":
            return any(union_under_param(c, True) for c in n[2])
        if k in ("union", "inter"):
            return any(union_under_param(c, under) for c in n[1])
        if k in ("arrayof", "message"):
            return union_under_param(n[1], under)
        if k == "var":
            return union_under_param(n[2], under)
        return False
    if union_under_param(t, False):
        return True

    def occ(n):
        # occurrences of each variable that one verification can meet together (alternatives of a
        # union are exclusive: maximum instead of sum)
        k = n[0]
        kids = n[2] if k == "param" else n[1] if k in ("union", "inter") else \
            [n[1]] if k in ("arrayof", "message") else [n[2]] if k == "var" else []
        res: dict = {}
        for c in kids:
            for name, v in occ(c).items():
                res[name] = max(res.get(name, 0), v) if k == "union" else res.get(name, 0) + v
        if k == "var":
            res[n[1]] = res.get(n[1], 0) + 1
        if k == "arrayof":  # every element meets the variable
            res = {name: 2 * v for name, v in res.items()}
        return res
    return any(v >= 2 for v in occ(t).values())


def close_pre(tree, pre, T):
    """Closed, consistent pre-binding: for each requested variable (in order) pick the k-th attribute
    of U that satisfies the variable's constraint under the bindings so far, and add everything that
    verification of it binds."""
    tab = var_table(tree)
    env: dict = {}
    for name, k in pre:
        if name not in tab or name in env:
            continue
        cands = [(i, r) for i in range(T.N) for r in [ev(tab[name], i, env, T)] if r is not None]
        if not cands:
            continue
        i, r = cands[k % len(cands)]
        env = dict(r)
        env[name] = i
    return env


# ----------------------------------------------------------------------------------------------
# building the real constraint
class BuildRejected(Exception):
    def __init__(self, label):
        super().__init__(label)
        self.label = label


def _permute(xs, perm):
    xs = list(xs)
    if len(xs) < 2:
        return xs
    r = perm % len(xs)
    xs = xs[r:] + xs[:r]
    if (perm // 7) % 2 == 0:
        xs.reverse()
    return xs


def build(t, style, T, perm=0):
    """Spec tree -> real AttrConstraint, using public constructors only."""
    from xdsl.dialects.builtin import ArrayAttr, ArrayOfConstraint
    from xdsl.irdl import (AllOf, AnyAttr, AnyOf, AttrSetConstraint, BaseAttr, EqAttrConstraint,
                           MessageConstraint, ParamAttrConstraint, RangeOf, VarConstraint, base, eq,
                           irdl_to_attr_constraint)
    k = t[0]
    rec = lambda c: build(c, style, T, perm)  # noqa: E731
    if k == "any":
        return AnyAttr()
    if k == "base":
        cls = T.classes[t[1]]
        return base(cls) if style == "ops" else BaseAttr(cls)
    if k == "eq":
        a = T.U[t[1]]
        return eq(a) if style == "ops" else EqAttrConstraint(a)
    if k == "set":
        vals = [T.U[i] for i in t[1]]
        if style == "raw":
            return AttrSetConstraint(frozenset(vals))
        if style == "ops":
            return functools.reduce(operator.or_, [irdl_to_attr_constraint(v) for v in vals])
        return AttrSetConstraint.get(*(_permute(vals, perm) if style == "perm" else vals))
    if k == "param":
        cls = T.classes[t[1]]
        if style == "raw":
            return ParamAttrConstraint(cls, tuple(rec(c) for c in t[2]))
        if style == "ops":
            # .get coerces attribute instances / classes / None given as parameter constraints
            args = []
            for c in t[2]:
                if c[0] == "any":
                    args.append(None)
                elif c[0] == "eq":
                    args.append(T.U[c[1]])
                elif c[0] == "base":
                    args.append(T.classes[c[1]])
                else:
                    args.append(rec(c))
            return ParamAttrConstraint.get(cls, *args)
        return ParamAttrConstraint.get(cls, *(rec(c) for c in t[2]))
    if k == "arrayof":
        if style == "raw":
            return ArrayOfConstraint(RangeOf(rec(t[1])))
        return ArrayAttr.constr(rec(t[1]))
    if k == "union":
        alts = [rec(c) for c in t[1]]
        if style == "raw":
            return AnyOf(tuple(alts))
        if style == "ops":
            return functools.reduce(operator.or_, alts)
        if style == "perm":
            alts = _permute(alts, perm)
        return AnyOf.get(*alts)
    if k == "inter":
        cs = [rec(c) for c in t[1]]
        if style == "ops":
            return functools.reduce(operator.and_, cs)
        if style == "perm":
            # order of an intersection matters for which occurrence binds a variable, never for
            # the accepted set (same-name occurrences carry the same constraint)
            cs = _permute(cs, perm)
        return AllOf(tuple(cs))
    if k == "message":
        return MessageConstraint(rec(t[1]), "c09 message")
    if k == "var":
        if style == "ops":
            return VarConstraint.get(t[1], rec(t[2]))
        return VarConstraint(t[1], rec(t[2]))
    raise AssertionError(f"bad spec node {t!r}")


def try_build(t, style, T, perm):
    from xdsl.utils.exceptions import PyRDLError, VerifyException
    try:
        return build(t, style, T, perm)
    except PyRDLError:
        raise BuildRejected("pyrdl_error")
    except VerifyException:
        # ParamAttrConstraint.get folds all-equality parameters into EqAttrConstraint(cls.new(...)):
        # parameters that do not form a valid attribute describe the empty set.
        raise BuildRejected("eq_params_invalid_attr")


def where(exc) -> str:
    """innermost xdsl frame file:function of an exception."""
    loc = "?"
    for fs in traceback.extract_tb(exc.__traceback__):
        if "/xdsl/" in fs.filename:
            loc = fs.filename.split("/xdsl/")[-1] + ":" + fs.name
    return loc


def real_accepts(c, attr, env, T, seed=None):
    """True/False, or ("crash", type, where) for anything but VerifyException."""
    from xdsl.irdl import ConstraintContext
    from xdsl.utils.exceptions import VerifyException
    ctx = ConstraintContext({n: T.U[i] for n, i in env.items()})
    try:
        if seed is not None:
            c.verify(T.U[seed], ctx)
        c.verify(attr, ctx)
        return True
    except VerifyException:
        return False
    except RecursionError:
        raise
    except Exception as e:  # a crash of the code under test is reported, never swallowed
        return ("crash", type(e).__name__, where(e))


# ----------------------------------------------------------------------------------------------
# oracle for one tree recipe
def oracle_tree(h, r):
    """Returns (list of (sig, detail), nontrivial, label)."""
    from xdsl.irdl import ConstraintContext
    from xdsl.utils.exceptions import PyRDLError
    T = tables()
    tree = r["tree"]
    validate_spec(tree, T)
    perm = r.get("perm", 0)
    pre = r.get("pre", [])
    if not isinstance(perm, int) or not isinstance(pre, list) or \
            any(not (isinstance(x, list) and len(x) == 2 and isinstance(x[0], str) and isinstance(x[1], int))
                for x in pre):
        raise ValueError("malformed tree recipe")
    var_table(tree)
    env0 = close_pre(tree, r.get("pre", []), T)
    out = []
    built = {}
    for style in STYLES:
        try:
            built[style] = try_build(tree, style, T, perm)
        except BuildRejected as e:
            h.discard(f"build_{style}_{e.label}")
        except RecursionError:
            raise
        except Exception as e:
            out.append(({"check": "build", "ctor": tree[0], "dir": "crash:" + type(e).__name__,
                         "where": where(e)}, f"style {style}: {type(e).__name__}: {e}"))
    if tree[0] == "union" and len(tree[1]) >= 2:
        # AttrConstraint.relax_constraint is documented to return the merge of the two constraints
        # (or None): folded over the alternatives it must accept exactly what the union describes
        for style in ("get", "raw"):
            try:
                alts = [try_build(c, style, T, perm) for c in tree[1]]
                cur = alts[0]
                for b in alts[1:]:
                    cur = cur.relax_constraint(b)
                    if cur is None:
                        break
            except BuildRejected as e:
                h.discard(f"build_relax_{style}_{e.label}")
                continue
            except PyRDLError:
                # relax_constraint merges the one differing parameter with `|`, which raises the
                # documented construction error when the two parameter constraints overlap
                h.discard(f"build_relax_{style}_pyrdl_error")
                continue
            except RecursionError:
                raise
            except Exception as e:
                out.append(({"check": "build", "ctor": "relax_constraint", "dir": "crash:" + type(e).__name__,
                             "where": where(e)}, f"relax_constraint fold ({style}): {type(e).__name__}: {e}"))
                continue
            if cur is None:
                h.count("relax_returned_none")
            else:
                h.count("relax_merged")
                built["relax_" + style] = cur
    if not built:
        return out, nontrivial_tree(tree), "unbuildable"
    primary = "get" if "get" in built else sorted(built)[0]
    contexts = [("empty", {}, None)]
    if env0:
        contexts.append(("pre", env0, None))
    seed = r.get("seed")
    if seed is not None:
        if not isinstance(seed, int):
            raise ValueError("malformed tree recipe")
        seed = seed % T.N
        es = ev(tree, seed, env0, T)
        if es is not None:
            contexts.append(("seeded", env0, seed))
        else:
            h.count("seed_not_accepted")
    for cname, env, sd in contexts:
        env_ref = env if sd is None else ev(tree, sd, env, T)
        exp = [ev(tree, i, env_ref, T) is not None for i in range(T.N)]
        bad_primary = set()
        for style in [primary] + [s for s in built if s != primary]:
            c = built[style]
            if style != primary and c == built[primary]:
                h.count("variant_structurally_equal_to_primary")
                continue
            for i in range(T.N):
                got = real_accepts(c, T.U[i], env, T, seed=sd)
                if got is True or got is False:
                    if got == exp[i]:
                        continue
                    d = "accepts_wrong" if got else "rejects_right"
                else:
                    d = "crash:" + got[1]
                if style == primary:
                    bad_primary.add(i)
                    sig = {"check": "verify", "ctor": type(c).__name__, "dir": d}
                elif i in bad_primary:
                    continue
                else:
                    sig = {"check": "variant_" + style, "ctor": type(c).__name__, "dir": d}
                if d.startswith("crash"):
                    sig["where"] = got[2]
                out.append((sig, f"[{cname} style={style}] constraint {c} on {T.U[i]} (U[{i}]) with pre-binding "
                                 f"{ {n: str(T.U[j]) for n, j in env.items()} }"
                                 f"{'' if sd is None else ' after verifying ' + str(T.U[sd])}: "
                                 f"library {got}, reference {exp[i]}"))
                break  # one witness per style and context is enough
        # inference
        if sd is not None:
            continue
        sat = any(exp)
        for style, c in built.items():
            names = set(env)
            try:
                ci = c.can_infer(names)
            except RecursionError:
                raise
            except Exception as e:
                out.append(({"check": "can_infer", "ctor": type(c).__name__, "dir": "crash:" + type(e).__name__,
                             "where": where(e)}, f"[{cname} style={style}] can_infer({sorted(names)}) of {c}: {e!r}"))
                continue
            if not ci:
                h.count("cannot_infer")
                continue
            if not sat:
                h.count("can_infer_but_unsat_in_U_skipped")
                continue
            h.count("infer_checked")
            ctx = ConstraintContext({n: T.U[i] for n, i in env.items()})
            try:
                x = c.infer(ctx)
            except RecursionError:
                raise
            except Exception as e:
                out.append(({"check": "infer", "ctor": type(c).__name__, "dir": "crash:" + type(e).__name__,
                             "where": where(e)},
                            f"[{cname} style={style}] can_infer({sorted(names)}) is True but infer raised {e!r} "
                            f"for {c}; satisfiable by {[str(T.U[i]) for i in range(T.N) if exp[i]][:3]}"))
                continue
            ok = real_accepts(c, x, env, T)
            j = T.index.get(x)
            ref_ok = None if j is None else exp[j]
            if ok is not True or ref_ok is False:
                out.append(({"check": "infer", "ctor": type(c).__name__, "dir": "inferred_rejected"},
                            f"[{cname} style={style}] {c} can_infer({sorted(names)}) and inferred {x}, which it "
                            f"does not accept (library verify: {ok}, reference: {ref_ok}); satisfiable by "
                            f"{[str(T.U[i]) for i in range(T.N) if exp[i]][:3]}"))
    label = "tree_" + tree[0]
    return out, nontrivial_tree(tree), label


# ----------------------------------------------------------------------------------------------
# type hints
def build_hint(hn, T):
    from typing import Annotated, Literal

    from xdsl.dialects.builtin import IntegerType, Signedness
    from xdsl.ir import Attribute
    k = hn[0]
    if k == "attribute":
        return Attribute
    if k == "cls":
        return T.classes[hn[1]]
    if k == "gen":
        return T.classes[hn[1]][build_hint(hn[2], T)]
    if k == "intty":
        w, s = hn[1], hn[2]
        wa = int if w is None else Literal[w]
        if s is None:
            return IntegerType[wa]
        return IntegerType[wa, Literal[getattr(Signedness, s)]]
    if k == "union":
        return functools.reduce(operator.or_, [build_hint(x, T) for x in hn[1]])
    if k == "annot":
        extras = []
        for e in hn[2]:
            if e[0] == "attr":
                extras.append(T.U[e[1]])
            else:
                extras.append(try_build(e[1], "get", T, 0))
        return Annotated[(build_hint(hn[1], T), *extras)]
    raise AssertionError(f"bad hint node {hn!r}")


def hv(hn, i, T):
    """Structural reading of a hint: does U[i] have that type?"""
    k = hn[0]
    if k == "attribute":
        return True
    if k == "cls":
        return hn[1] in T.ISA[i]
    if k == "gen":
        if T.CLS[i] != hn[1]:
            return False
        pos = GEN_POS[hn[1]][0]
        if pos == "elems":
            return all(hv(hn[2], e, T) for e in T.ELEMS[i])
        return hv(hn[2], T.PARAMS[i][pos], T)
    if k == "intty":
        if T.CLS[i] != "IntegerType":
            return False
        w, s = T.PARAMS[i]
        return (hn[1] is None or T.INTDATA[w] == hn[1]) and (hn[2] is None or T.SIGNDATA[s] == hn[2])
    if k == "union":
        return any(hv(x, i, T) for x in hn[1])
    if k == "annot":
        if not hv(hn[1], i, T):
            return False
        for e in hn[2]:
            if e[0] == "attr":
                if i != e[1]:
                    return False
            elif ev(e[1], i, {}, T) is None:
                return False
        return True
    raise AssertionError(f"bad hint node {hn!r}")


def isa_supported(hn):
    """`isa` documents support for classes, unions and (via constraints) generic attribute classes;
    Annotated is only understood inside the brackets of a generic attribute class."""
    k = hn[0]
    if k == "annot":
        return False
    if k == "union":
        return all(isa_supported(x) for x in hn[1])
    return True


def nontrivial_hint(hn, under=False):
    k = hn[0]
    if k == "union":
        return (under and len(hn[1]) >= 2) or any(nontrivial_hint(x, under) for x in hn[1])
    if k == "gen":
        return nontrivial_hint(hn[2], True)
    if k == "annot":
        return nontrivial_hint(hn[1], under)
    return False


def hint_top(hn):
    return hn[0] + (":" + hn[1] if hn[0] in ("cls", "gen") else "")


def oracle_hint(h, r):
    from xdsl.irdl import irdl_to_attr_constraint
    from xdsl.utils.exceptions import PyRDLError
    from xdsl.utils.hints import isa
    T = tables()
    hn = r["hint"]
    validate_hint(hn, T)
    out = []
    try:
        hint = build_hint(hn, T)
    except BuildRejected as e:
        h.discard("hint_annot_" + e.label)
        return out, nontrivial_hint(hn), "hint_unbuildable"
    exp = [hv(hn, i, T) for i in range(T.N)]
    c = None
    try:
        c = irdl_to_attr_constraint(hint)
    except PyRDLError:  # includes PyRDLTypeError
        h.discard("hint_constraint_pyrdl_error")
    except RecursionError:
        raise
    except Exception as e:
        out.append(({"check": "hint_constraint", "ctor": hint_top(hn), "dir": "crash:" + type(e).__name__,
                     "where": where(e)}, f"irdl_to_attr_constraint({hint}) raised {e!r}"))
    got_c = None
    if c is not None:
        got_c = []
        reported = False
        for i in range(T.N):
            g = real_accepts(c, T.U[i], {}, T)
            got_c.append(g)
            if g is not exp[i] and not reported:
                reported = True
                d = ("crash:" + g[1]) if isinstance(g, tuple) else ("accepts_wrong" if g else "rejects_right")
                out.append(({"check": "hint_constraint", "ctor": type(c).__name__, "top": hint_top(hn), "dir": d},
                            f"irdl_to_attr_constraint({hint}) = {c}; on {T.U[i]}: library {g}, "
                            f"structural reading {exp[i]}"))
    if isa_supported(hn):
        for i in range(T.N):
            try:
                g = isa(T.U[i], hint)
            except PyRDLError:
                h.discard("isa_pyrdl_error")
                break
            except RecursionError:
                raise
            except Exception as e:
                out.append(({"check": "hint_isa", "top": hint_top(hn), "dir": "crash:" + type(e).__name__,
                             "where": where(e)}, f"isa({T.U[i]}, {hint}) raised {e!r}"))
                break
            if g is not exp[i]:
                d = "accepts_wrong" if g else "rejects_right"
                agree = got_c is not None and got_c[i] is g
                out.append(({"check": "hint_isa", "top": hint_top(hn), "dir": d,
                             "constraint_agrees_with_isa": agree},
                            f"isa({T.U[i]}, {hint}) = {g}, structural reading {exp[i]}, derived constraint "
                            f"{'n/a' if got_c is None else got_c[i]}"))
                break
        h.count("isa_checked")
    else:
        h.count("isa_not_applicable_annotated")
    return out, nontrivial_hint(hn), "hint_" + hn[0]


# ----------------------------------------------------------------------------------------------
def run_recipe(h, r, label_prefix="", distinct=False):
    with quiet():
        if r["kind"] == "tree":
            res, nt, label = oracle_tree(h, r)
        elif r["kind"] == "hint":
            res, nt, label = oracle_hint(h, r)
        else:
            raise AssertionError(r["kind"])
    h.case(r, nt, label=label_prefix + label, distinct=distinct)
    for sig, detail in res:
        h.mismatch(sig, r, detail)


def replay(h, recipe):
    run_recipe(h, recipe, "replay_")


# ----------------------------------------------------------------------------------------------
# generators
def tree_strategy(T, maxdepth):
    N = T.N
    all_idx = tuple(range(N))
    type_like = tuple(i for i in all_idx if "TypeAttribute" in T.ISA[i])
    all_classes = sorted(T.classes)

    def idx_from(draw, pool):
        if pool and draw(st.integers(0, 9)) < 8:
            return draw(st.sampled_from(pool))
        return draw(st.integers(0, N - 1))

    def cls_from(draw, pool):
        if pool and draw(st.integers(0, 9)) < 8:
            i = draw(st.sampled_from(pool))
            names = sorted(T.ISA[i])
            # mostly the final class, sometimes one of its abstract bases
            if draw(st.integers(0, 4)) > 0:
                return T.CLS[i]
            return draw(st.sampled_from(names))
        return draw(st.sampled_from(all_classes))

    def leaf(draw, pool, vtab):
        k = draw(st.sampled_from(["any", "base", "base", "base", "eq", "eq", "eq", "set", "set"]
                                 + (["var", "var"] if vtab else [])))
        if k == "any":
            return ["any"]
        if k == "base":
            return ["base", cls_from(draw, pool)]
        if k == "eq":
            return ["eq", idx_from(draw, pool)]
        if k == "set":
            n = draw(st.integers(2, 4))
            return ["set", sorted({idx_from(draw, pool) for _ in range(n)})]
        name = draw(st.sampled_from(sorted(vtab)))
        return ["var", name, vtab[name]]

    def param_node(draw, pool, depth, vtab, cls=None):
        if cls is None:
            cands = sorted({T.CLS[i] for i in pool if T.PARAMS[i]})
            if not cands or draw(st.integers(0, 7)) == 0:
                cands = T.param_classes
            cls = draw(st.sampled_from(cands))
        members = [i for i in pool if T.CLS[i] == cls] or list(T.by_class[cls])
        ar = T.arity[cls]
        children = []
        twin = None
        if vtab and ar >= 2 and draw(st.integers(0, 3)) == 0:
            name = draw(st.sampled_from(sorted(vtab)))
            pos = draw(st.lists(st.integers(0, ar - 1), min_size=2, max_size=2, unique=True))
            twin = (name, pos)
        for j in range(ar):
            if twin and j in twin[1]:
                children.append(["var", twin[0], vtab[twin[0]]])
                continue
            if draw(st.integers(0, 99)) < 35:
                children.append(["any"])
                continue
            sub = tuple(sorted({T.PARAMS[i][j] for i in members}))
            children.append(draw(tree(sub, depth - 1, vtab)))
        return ["param", cls, children]

    def alt_for_class(draw, cls, pool, depth, vtab):
        members = tuple(i for i in pool if T.CLS[i] == cls) or T.by_class[cls]
        opts = ["base", "eq", "set"]
        if cls in T.arity and T.arity[cls] >= 1 and depth > 0:
            opts += ["param", "param"]
        if cls == "ArrayAttr" and depth > 0:
            opts += ["arrayof"]
        k = draw(st.sampled_from(opts))
        if k == "base":
            node = ["base", cls]
        elif k == "eq":
            node = ["eq", draw(st.sampled_from(members))]
        elif k == "set":
            node = ["set", sorted({draw(st.sampled_from(members)) for _ in range(draw(st.integers(2, 3)))})]
        elif k == "param":
            node = param_node(draw, members, depth, vtab, cls)
        else:
            elems = tuple(sorted({e for i in members for e in T.ELEMS[i]}))
            node = ["arrayof", draw(tree(elems, depth - 1, vtab))]
        w = draw(st.integers(0, 11))
        if w == 0:
            node = ["message", node]
        elif w == 1 and vtab:
            node = ["inter", [node, leaf(draw, pool, vtab)]]
        return node

    def union_node(draw, pool, depth, vtab):
        mode = draw(st.sampled_from(["disjoint"] * 7 + ["merge"] * 2 + ["free"]))
        classes = sorted({T.CLS[i] for i in pool})
        if len(classes) < 2:
            classes = T.final
        if mode == "disjoint":
            chosen = draw(st.lists(st.sampled_from(classes), min_size=2, max_size=min(4, len(classes)), unique=True))
            alts = [alt_for_class(draw, c, pool, depth - 1, vtab) for c in chosen]
            if draw(st.integers(0, 9)) == 0:
                alts.insert(draw(st.integers(0, len(alts))), ["base", draw(st.sampled_from(ABSTRACT))])
            return ["union", alts]
        if mode == "merge":
            cls = draw(st.sampled_from(classes))
            a = alt_for_class(draw, cls, pool, depth - 1, vtab)
            if a[0] == "param" and draw(st.integers(0, 2)) > 0:
                b = ["param", a[1], list(a[2])]
                ar = len(a[2])
                nd = min(ar, draw(st.sampled_from([1, 1, 2, 2, 3])))
                members = [i for i in pool if T.CLS[i] == cls] or list(T.by_class[cls])
                for j in draw(st.lists(st.integers(0, ar - 1), min_size=nd, max_size=nd, unique=True)):
                    sub = tuple(sorted({T.PARAMS[i][j] for i in members}))
                    if draw(st.booleans()):
                        b[2][j] = ["eq", draw(st.sampled_from(sub))]
                        if a[2][j][0] == "any" and draw(st.booleans()):
                            a[2][j] = ["eq", draw(st.sampled_from(sub))]
                    else:
                        b[2][j] = draw(tree(sub, max(depth - 2, 0), vtab))
            else:
                b = alt_for_class(draw, cls, pool, depth - 1, vtab)
            alts = [a, b]
            if draw(st.integers(0, 1)) and len(classes) >= 2:
                other = draw(st.sampled_from([c for c in classes if c != cls]))
                alts.insert(draw(st.integers(0, 2)), alt_for_class(draw, other, pool, depth - 1, vtab))
            return ["union", alts]
        n = draw(st.integers(2, 3))
        return ["union", [draw(tree(pool, depth - 1, vtab)) for _ in range(n)]]

    @st.composite
    def tree(draw, pool, depth, vtab):
        if not pool:
            pool = all_idx
        if depth <= 0:
            return leaf(draw, pool, vtab)
        has_arr = any(T.ELEMS[i] is not None for i in pool)
        kinds = (["leaf"] * (0 if depth >= maxdepth else 5) + ["param"] * 6 + ["union"] * 6 + ["inter"] * 2
                 + ["message"] + ["arrayof"] * (2 if has_arr else 0) + (["var"] * 2 if vtab else []))
        k = draw(st.sampled_from(kinds))
        if k == "leaf":
            return leaf(draw, pool, vtab)
        if k == "param":
            return param_node(draw, pool, depth, vtab)
        if k == "union":
            return union_node(draw, pool, depth, vtab)
        if k == "inter":
            n = draw(st.integers(2, 3))
            return ["inter", [draw(tree(pool, depth - 1, vtab)) for _ in range(n)]]
        if k == "message":
            return ["message", draw(tree(pool, depth - 1, vtab))]
        if k == "arrayof":
            elems = tuple(sorted({e for i in pool if T.ELEMS[i] is not None for e in T.ELEMS[i]}))
            return ["arrayof", draw(tree(elems, depth - 1, vtab))]
        name = draw(st.sampled_from(sorted(vtab)))
        return ["var", name, vtab[name]]

    @st.composite
    def recipe(draw):
        nv = draw(st.sampled_from([0, 1, 1, 2, 2, 3]))
        vtab: dict = {}
        for name in ["T", "U", "V"][:nv]:
            w = draw(st.integers(0, 9))
            if w < 3:
                child = ["any"]
            elif w < 6:
                child = ["base", draw(st.sampled_from(["IntegerType", "IndexType", "TypeAttribute", "IntAttr",
                                                       "IntegerAttr", "ArrayAttr", "StringAttr", "Float32Type"]))]
            else:
                focus = type_like if draw(st.integers(0, 1)) else all_idx
                child = draw(tree(focus, 1, dict(vtab) if draw(st.integers(0, 2)) == 0 else {}))
            vtab[name] = child
        focus = all_idx
        if draw(st.integers(0, 3)) == 0:
            cl = draw(st.lists(st.sampled_from(T.final), min_size=1, max_size=3, unique=True))
            focus = tuple(i for i in all_idx if T.CLS[i] in cl)
        t = draw(tree(focus, maxdepth, vtab))
        used = sorted({n[1] for n in walk(t) if n[0] == "var"})
        pre = []
        if used:
            for name in draw(st.lists(st.sampled_from(used), max_size=len(used), unique=True)):
                pre.append([name, draw(st.integers(0, 40))])
        seed = draw(st.one_of(st.none(), st.integers(0, N - 1)))
        if seed is not None:
            # prefer a seed the tree accepts (the reference decides; recipe stays plain data)
            acc = [i for i in range(N) if ev(t, i, close_pre(t, pre, T), T) is not None]
            if acc:
                seed = acc[seed % len(acc)]
        return {"kind": "tree", "tree": t, "pre": pre, "seed": seed, "perm": draw(st.integers(0, 13))}

    return recipe()


def hint_strategy(T, maxdepth):
    N = T.N
    int_types = [i for i in range(N) if T.CLS[i] == "IntegerType"]
    float_classes = ["Float16Type", "Float32Type", "Float64Type", "BFloat16Type"]
    any_classes = sorted(T.classes)

    @st.composite
    def intty(draw):
        w = draw(st.sampled_from([None, 1, 8, 32, 64]))
        s = draw(st.sampled_from([None, None] + SIGNS))
        return ["intty", w, s]

    @st.composite
    def small_spec(draw, pool):
        k = draw(st.sampled_from(["eq", "set", "base"]))
        if k == "eq":
            return ["eq", draw(st.sampled_from(pool))]
        if k == "set":
            return ["set", sorted({draw(st.sampled_from(pool)) for _ in range(3)})]
        return ["base", T.CLS[draw(st.sampled_from(pool))]]

    @st.composite
    def hint(draw, depth, want):
        if want == "int":
            k = draw(st.sampled_from(["IntegerType", "IndexType", "intty", "union", "annot"]))
            if k in ("IntegerType", "IndexType"):
                return ["cls", k]
            if k == "intty":
                return draw(intty())
            if k == "annot":
                e = draw(st.one_of(st.sampled_from(int_types).map(lambda i: ["attr", i]),
                                   small_spec(int_types).map(lambda s: ["spec", s])))
                return ["annot", ["cls", "IntegerType"], [e]]
            return ["union", [["cls", "IndexType"], draw(hint(0, "inttype_only"))]
                    if draw(st.booleans()) else [draw(hint(0, "inttype_only")), ["cls", "IndexType"]]]
        if want == "inttype_only":
            k = draw(st.sampled_from(["IntegerType", "intty", "annot"]))
            if k == "IntegerType":
                return ["cls", k]
            if k == "intty":
                return draw(intty())
            return ["annot", ["cls", "IntegerType"], [["attr", draw(st.sampled_from(int_types))]]]
        if want == "float":
            n = draw(st.integers(1, 3))
            cl = draw(st.lists(st.sampled_from(float_classes), min_size=n, max_size=n, unique=True))
            return ["cls", cl[0]] if n == 1 else ["union", [["cls", c] for c in cl]]
        if want == "complex":
            return draw(hint(depth, draw(st.sampled_from(["float", "inttype_only"]))))
        # any attribute
        kinds = ["cls"] * 4 + ["attribute"]
        if depth > 0:
            kinds += ["gen"] * 6 + ["union"] * 4 + ["annot"] * 2 + ["intty"]
        k = draw(st.sampled_from(kinds))
        if k == "attribute":
            return ["attribute"]
        if k == "cls":
            return ["cls", draw(st.sampled_from(any_classes))]
        if k == "intty":
            return draw(intty())
        if k == "gen":
            g = draw(st.sampled_from(sorted(GEN_POS)))
            return ["gen", g, draw(hint(depth - 1, GEN_POS[g][1]))]
        if k == "union":
            n = draw(st.integers(2, 3))
            if draw(st.integers(0, 2)) == 0:
                # alternatives of one generic class: exercises relax/merge in the derived constraint
                g = draw(st.sampled_from(sorted(GEN_POS)))
                return ["union", [["gen", g, draw(hint(depth - 1, GEN_POS[g][1]))] for _ in range(n)]]
            return ["union", [draw(hint(depth - 1, "any")) for _ in range(n)]]
        inner = draw(hint(depth - 1, "any"))
        e = draw(st.one_of(st.integers(0, N - 1).map(lambda i: ["attr", i]),
                           small_spec(list(range(N))).map(lambda s: ["spec", s])))
        return ["annot", inner, [e]]

    return hint(maxdepth, "any").map(lambda x: {"kind": "hint", "hint": x})


def atoms(T):
    ix = T.index
    U = T.U

    def find(pred):
        for i, a in enumerate(U):
            if pred(a):
                return i
        raise AssertionError("atom attribute missing from universe")
    from xdsl.dialects.builtin import (ArrayAttr, Float32Type, IndexType, IntAttr, IntegerAttr, IntegerType,
                                       StringAttr, UnitAttr, VectorType)
    i32, i64, idx, f32 = ix[IntegerType(32)], ix[IntegerType(64)], ix[IndexType()], ix[Float32Type()]
    one = ix[IntAttr(1)]
    eqs = [ix[IntegerType(1)], i32, i64, idx, f32, ix[IntegerAttr(1, 32)], ix[IntegerAttr(1, 64)],
           ix[IntegerAttr(1, IndexType())], ix[StringAttr("a")], ix[UnitAttr()], ix[ArrayAttr([IntegerType(32)])],
           ix[VectorType(IntegerType(32), [4])], one]
    out = [["eq", i] for i in eqs]
    out += [["base", c] for c in ["IntegerType", "IndexType", "Float32Type", "IntegerAttr", "FloatAttr", "StringAttr",
                                  "ArrayAttr", "VectorType", "TensorType", "TypeAttribute", "ParametrizedAttribute"]]
    out += [["param", "IntegerAttr", [["any"], ["base", "IntegerType"]]],
            ["param", "IntegerAttr", [["any"], ["base", "IndexType"]]],
            ["param", "IntegerAttr", [["eq", one], ["any"]]],
            ["param", "IntegerAttr", [["eq", one], ["base", "IntegerType"]]],
            ["param", "IntegerAttr", [["any"], ["eq", i32]]],
            ["param", "IntegerAttr", [["any"], ["eq", i64]]],
            ["param", "IntegerAttr", [["any"], ["var", "T", ["any"]]]],
            ["param", "IntegerAttr", [["any"], ["var", "W", ["base", "IntegerType"]]]],
            ["param", "VectorType", [["base", "IntegerType"], ["any"], ["any"]]],
            ["param", "VectorType", [["eq", f32], ["any"], ["any"]]],
            ["param", "VectorType", [["var", "T", ["any"]], ["any"], ["any"]]],
            ["param", "TensorType", [["any"], ["var", "T", ["any"]], ["any"]]],
            ["arrayof", ["base", "IntegerType"]], ["arrayof", ["var", "T", ["any"]]],
            ["arrayof", ["param", "IntegerAttr", [["any"], ["var", "T", ["any"]]]]],
            ["var", "T", ["any"]], ["var", "W", ["base", "IntegerType"]],
            ["set", sorted([i32, i64])], ["set", sorted([i32, idx])], ["set", sorted([idx, f32])],
            ["message", ["base", "IntegerType"]],
            ["inter", [["base", "IntegerType"], ["var", "T", ["any"]]]]]
    return out


def param_union_cases(T):
    """Unions of two / three ParamAttrConstraints of the same base that differ in every subset of the
    parameter positions (0, 1, 2, ... differences; adjacent and non-adjacent), the other positions
    sharing one constraint. Alternatives are read off member attributes of U, so the cross product of
    the differing parameters is (for the grid classes) inside U."""
    n = 0
    for cls in T.param_classes:
        ar = T.arity[cls]
        mem = T.by_class[cls]
        k = 5 if ar >= 3 else 3
        if cls == "C09Quad":
            picks = [mem[0], mem[-1], mem[5], mem[10], mem[3]]
        else:
            step = max(1, len(mem) // k)
            picks = list(mem[::step][:k])
            if mem[-1] not in picks:
                picks.append(mem[-1])
        for m1, m2 in itertools.permutations(picks, 2):
            p1, p2 = T.PARAMS[m1], T.PARAMS[m2]
            diffpos = [j for j in range(ar) if p1[j] != p2[j]]
            for r in range(len(diffpos) + 1):
                for D in itertools.combinations(diffpos, r):
                    for shared in ("any", "base", "set"):
                        for dform in ("eq", "base"):
                            if dform == "base" and (not D or any(T.CLS[p1[j]] == T.CLS[p2[j]] for j in D)):
                                continue
                            a, b = [], []
                            for j in range(ar):
                                if j in D:
                                    a.append(["eq", p1[j]] if dform == "eq" else ["base", T.CLS[p1[j]]])
                                    b.append(["eq", p2[j]] if dform == "eq" else ["base", T.CLS[p2[j]]])
                                    continue
                                if shared == "base" and T.CLS[p1[j]] == T.CLS[p2[j]]:
                                    c = ["base", T.CLS[p1[j]]]
                                elif shared == "set":
                                    c = ["set", sorted({p1[j], p2[j]})]
                                else:
                                    c = ["any"]
                                a.append(c)
                                b.append(c)
                            n += 1
                            yield {"kind": "tree", "tree": ["union", [["param", cls, a], ["param", cls, b]]],
                                   "pre": [], "seed": None, "perm": n % 14}
        if ar < 3:
            continue
        # three alternatives: alternative k takes the parameters of member k at positions Dk
        subsets = [D for r in range(1, ar + 1) for D in itertools.combinations(range(ar), r)]
        for m1, m2, m3 in [tuple(picks[:3]), (picks[1], picks[2], picks[0])]:
            ps = [T.PARAMS[m1], T.PARAMS[m2], T.PARAMS[m3]]
            for D2 in subsets:
                for D3 in subsets:
                    alts = [[["eq", ps[0][j]] if (j in D2 or j in D3) else ["any"] for j in range(ar)]]
                    for pk, Dk in ((ps[1], D2), (ps[2], D3)):
                        alts.append([["eq", pk[j]] if j in Dk else alts[0][j] for j in range(ar)])
                    n += 1
                    yield {"kind": "tree", "tree": ["union", [["param", cls, c] for c in alts]],
                           "pre": [], "seed": None, "perm": n % 14}


def checks(h):
    T = tables()
    for n, r in enumerate(param_union_cases(T)):
        if n % h.nshards == h.shard:
            run_recipe(h, r, "punion_", distinct=True)
    ats = atoms(T)
    wrappers = [
        lambda u: u,
        lambda u: ["param", "IntegerAttr", [["any"], u]],
        lambda u: ["param", "VectorType", [u, ["any"], ["any"]]],
        lambda u: ["arrayof", u],
    ]
    n = 0
    for wi, wrap in enumerate(wrappers):
        for a, b in itertools.product(ats, repeat=2):
            n += 1
            if n % h.nshards != h.shard:
                continue
            tree = wrap(["union", [a, b]])
            used = sorted({x[1] for x in walk(tree) if x[0] == "var"})
            r = {"kind": "tree", "tree": tree, "pre": [[v, n % 11] for v in used[:1]] if n % 3 == 0 else [],
                 "seed": None, "perm": n % 14}
            run_recipe(h, r, "pairs_", distinct=True)
    depth = 3 if h.quick else 4
    h.hyp("trees", tree_strategy(T, depth), lambda r: run_recipe(h, r), h.scale(600, 6000), 1)
    h.hyp("trees_shallow", tree_strategy(T, 2), lambda r: run_recipe(h, r), h.scale(300, 3000), 2)
    h.hyp("hints", hint_strategy(T, 3), lambda r: run_recipe(h, r), h.scale(300, 3000), 3)
