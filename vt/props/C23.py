"""C23 — LLVM backend emits valid LLVM IR with the source semantics.

Recipe (plain JSON):
  {"kind": "prog", "opt": 0|1, "text": 0|1,
   "funcs": [{"args": [ty..], "ret": ty, "layout": [sort keys of the non-entry blocks],
              "blocks": [{"params": [ty..], "ops": [op..], "term": term}, ..]}, ..],
   "inputs": [[raw int, ..], ..]}
Types are "i1","i8","i16","i32","i64","f32","f64".  Operand references ("a","b","c","v","p",
edge "args") are integers resolved *modulo the values of the required type that are available at
that point* (function arguments, values of strictly dominating blocks, earlier values of the own
block); when no value of the type exists an `llvm.mlir.constant` is materialised.  Branch targets
are resolved modulo the later blocks (forward edges), `latch` terminators add a back edge to a
dominating header whose extra i8 block argument counts the iterations (loops are bounded by
construction).  So every recipe (also every shrunk one) denotes a valid llvm-dialect module.

normalize(recipe) -> plan (explicit mini-IR); to_xdsl(plan) builds the module, Eval(plan) is the
reference semantics (two's complement, poison, UB), the JIT worker (child process) runs the code.
"""
from __future__ import annotations

import atexit
import json
import math
import os
import random
import re
import select as _select
import struct
import subprocess
import sys
import tempfile
import time
import traceback

from hypothesis import strategies as st

from vt.run import quiet

ID = "C23"
SHARDS = {"quick": 16, "thorough": 16}
RULE = ("(1) enumeration: every integer binop x i1..i64 x flag set, icmp (10 predicates) x type, fcmp "
        "(16) x f32/f64, fadd/fsub/fmul/fdiv/frem x nnan/ninf, every legal trunc/zext/sext/sitofp/"
        "fpext/bitcast pair x flags, select, fneg/fabs/sqrt/floor/ceil/copysign as one-op functions "
        "on 16 boundary inputs, plain and through the O2 pipeline, plus 15 two-op idioms that LLVM "
        "folds when the first op carries nsw/nuw/exact/disjoint/nneg/nnan (an added flag changes a "
        "defined result), and cond_br with both edges to one block: every assignment of 2-3 block "
        "arguments over 3 values on each edge x both condition values. (2) seeded generator of llvm-dialect modules (1-3 llvm.func, 1-6 blocks): "
        "the same ops plus constants (signed/unsigned/i64-typed spelling), alloca/getelementptr/"
        "load/store on 1-4 element buffers, calls to later functions (ccc or fastcc), br/cond_br with "
        "block arguments (both edges to one block with equal or different arguments; 15% of multi-"
        "block functions end in a merge block with 2-4 same-typed arguments fed with repetition), counted loops, "
        "unreachable blocks, permuted block layout; built with the op constructors, 30% additionally "
        "printed and re-parsed. Oracle: convert_module output must parse and verify in LLVM 20 "
        "(llvmlite), and the MCJIT-compiled code (plain or after O2), called through ctypes in a "
        "child process, must return the value of an independent reference evaluator on every "
        "generated input on which the reference is defined (no UB, no poison reaching a branch/"
        "return, no NaN sign/payload dependence). NotImplementedError/LLVMTranslationException = "
        "discarded; any other exception from convert_module on a verified module = translate_crash. "
        "Non-trivial: a function with >=2 blocks and block arguments, or a flagged op, or a cast.")
ASSUMPTIONS = ["llvmlite 0.47 / LLVM 20 parser, verifier, O2 pipeline and x86-64 MCJIT are correct",
               "the reference evaluator in this file implements LLVM LangRef semantics of the "
               "generated sub-language (IEEE-754 binary32/64, round-to-nearest-even)",
               "an undocumented exception escaping convert_module (anything but "
               "NotImplementedError / LLVMTranslationException) on a verified module counts as a "
               "failed translation (check=translate_crash)",
               "dropping a poison-generating flag is a refinement and is not reported; only "
               "result-changing (added/wrong) flags are"]

INT_W = {"i1": 1, "i8": 8, "i16": 16, "i32": 32, "i64": 64}
FLOAT_T = ("f32", "f64")
SCALARS = tuple(INT_W) + FLOAT_T
M64 = (1 << 64) - 1
INF = math.inf

BIN_OVF = ("add", "sub", "mul", "shl")
BIN_EXACT = ("udiv", "sdiv", "lshr", "ashr")
BIN_PLAIN = ("urem", "srem", "and", "xor")
INT_BIN = BIN_OVF + BIN_EXACT + BIN_PLAIN + ("or",)
ICMP = ("eq", "ne", "slt", "sle", "sgt", "sge", "ult", "ule", "ugt", "uge")
FCMP = ("_false", "oeq", "ogt", "oge", "olt", "ole", "one", "ord",
        "ueq", "ugt", "uge", "ult", "ule", "une", "uno", "_true")
FBIN = ("fadd", "fsub", "fmul", "fdiv", "frem")
FUN1 = ("fneg", "fabs", "sqrt", "floor", "ceil")
FUN2 = ("copysign",)
CASTS = ("trunc", "zext", "sext", "sitofp", "fpext", "bitcast")
OPNAME = {"sqrt": "llvm.intr.sqrt", "fabs": "llvm.intr.fabs", "floor": "llvm.intr.floor",
          "ceil": "llvm.intr.ceil", "copysign": "llvm.intr.copysign", "fneg": "llvm.fneg",
          "const": "llvm.mlir.constant"}


class Bad(Exception):
    """Recipe is not well-formed (only reachable through hand-written / shrunk recipes)."""


class Undefined(Exception):
    """The reference semantics is undefined on this input (UB / NaN payload dependence)."""


class StepLimit(Exception):
    pass


class _Poison:
    def __repr__(self):
        return "poison"


POISON = _Poison()


# =============================================================================================
# value helpers
def round32(x: float) -> float:
    if x != x or x in (INF, -INF):
        return x
    try:
        return struct.unpack("<f", struct.pack("<f", x))[0]
    except OverflowError:
        return math.copysign(INF, x)


def bits_to_val(ty: str, bits: int):
    if ty == "f32":
        return struct.unpack("<f", struct.pack("<I", bits & 0xFFFFFFFF))[0]
    if ty == "f64":
        return struct.unpack("<d", struct.pack("<Q", bits & M64))[0]
    return bits & ((1 << INT_W[ty]) - 1)


def val_to_bits(ty: str, v) -> int:
    if ty == "f32":
        return struct.unpack("<I", struct.pack("<f", v))[0]
    if ty == "f64":
        return struct.unpack("<Q", struct.pack("<d", v))[0]
    return v & ((1 << INT_W[ty]) - 1)


_FT = [0.0, 1.0, -1.0, 2.0, 0.5, -0.0, 3.0, 1.5, -2.5, 10.0, 100.0, 0.25, -7.0, 255.0, 256.0,
       65536.0, 2147483648.0, -2147483648.0, 4294967296.0, 1e10, INF, -INF, math.nan,
       2.0 ** -149, 2.0 ** -126, 3.4028234663852886e38, -3.4028234663852886e38, 0.1, 1.0 / 3.0,
       16777216.0, 9.223372036854775807e18, -128.0]


def decode_bits(ty: str, raw: int) -> int:
    """Raw recipe integer -> bit pattern of a value of type ty."""
    raw = int(raw)
    if ty in FLOAT_T:
        if 0 <= raw < len(_FT):
            v = _FT[raw]
            return val_to_bits(ty, round32(v) if ty == "f32" else v)
        return raw & (0xFFFFFFFF if ty == "f32" else M64)
    return raw & ((1 << INT_W[ty]) - 1)


def sgn(x: int, w: int) -> int:
    return x - (1 << w) if (x >> (w - 1)) & 1 else x


def int_to_fp(n: int, ty: str) -> float:
    """Signed integer -> float, round to nearest even."""
    if ty == "f64":
        return float(n)
    if abs(n) < (1 << 53):
        return round32(float(n))
    m = abs(n)
    sh = m.bit_length() - 24
    q, r = m >> sh, m & ((1 << sh) - 1)
    half = 1 << (sh - 1)
    if r > half or (r == half and (q & 1)):
        q += 1
    return math.copysign(float(q << sh), n)


def isnan(x) -> bool:
    return isinstance(x, float) and x != x


# =============================================================================================
# reference semantics of single operations (values: unsigned ints / floats / POISON)
def ev_bin(op: str, w: int, a, b, flags):
    mask = (1 << w) - 1
    if op in ("udiv", "sdiv", "urem", "srem"):
        if b is POISON:
            raise Undefined("division by poison")
        if b == 0:
            raise Undefined("division by zero")
        if a is POISON:
            return POISON
        if op in ("sdiv", "srem"):
            sa, sb = sgn(a, w), sgn(b, w)
            if sa == -(1 << (w - 1)) and sb == -1:
                raise Undefined("signed division overflow")
            q = abs(sa) // abs(sb)
            if (sa < 0) != (sb < 0):
                q = -q
            r = sa - q * sb
            if op == "srem":
                return r & mask
            if "exact" in flags and r != 0:
                return POISON
            return q & mask
        if op == "urem":
            return a % b
        if "exact" in flags and a % b:
            return POISON
        return a // b
    if a is POISON or b is POISON:
        return POISON
    if op in ("add", "sub", "mul"):
        sa, sb = sgn(a, w), sgn(b, w)
        if op == "add":
            u, s = a + b, sa + sb
        elif op == "sub":
            u, s = a - b, sa - sb
        else:
            u, s = a * b, sa * sb
        if "nuw" in flags and not (0 <= u <= mask):
            return POISON
        if "nsw" in flags and not (-(1 << (w - 1)) <= s < (1 << (w - 1))):
            return POISON
        return u & mask
    if op == "shl":
        if b >= w:
            return POISON
        if "nuw" in flags and (a << b) > mask:
            return POISON
        if "nsw" in flags:
            s = sgn(a, w) << b
            if not (-(1 << (w - 1)) <= s < (1 << (w - 1))):
                return POISON
        return (a << b) & mask
    if op in ("lshr", "ashr"):
        if b >= w:
            return POISON
        if "exact" in flags and a & ((1 << b) - 1):
            return POISON
        if op == "lshr":
            return a >> b
        return (sgn(a, w) >> b) & mask
    if op == "and":
        return a & b
    if op == "xor":
        return a ^ b
    if op == "or":
        if "disjoint" in flags and a & b:
            return POISON
        return a | b
    raise Bad(op)


def ev_icmp(p: str, w: int, a, b):
    if a is POISON or b is POISON:
        return POISON
    if p[0] == "s":
        a, b = sgn(a, w), sgn(b, w)
    r = {"eq": a == b, "ne": a != b, "lt": a < b, "le": a <= b, "gt": a > b, "ge": a >= b}[
        p if p in ("eq", "ne") else p[1:]]
    return int(r)


def ev_fcmp(p: str, a, b):
    if a is POISON or b is POISON:
        return POISON
    un = a != a or b != b
    if p == "_false":
        return 0
    if p == "_true":
        return 1
    if p == "ord":
        return int(not un)
    if p == "uno":
        return int(un)
    base = {"eq": a == b, "gt": a > b, "ge": a >= b, "lt": a < b, "le": a <= b, "ne": a != b}[p[1:]]
    return int((not un) and base) if p[0] == "o" else int(un or base)


def ev_fbin(op: str, ty: str, a, b, fm):
    if a is POISON or b is POISON:
        return POISON
    if op == "fadd":
        r = a + b
    elif op == "fsub":
        r = a - b
    elif op == "fmul":
        r = a * b
    elif op == "fdiv":
        if a != a or b != b:
            r = math.nan
        elif b == 0:
            r = math.nan if a == 0 else math.copysign(INF, a) * math.copysign(1.0, b)
        else:
            r = a / b
    elif op == "frem":
        try:
            r = math.fmod(a, b)
        except ValueError:
            r = math.nan
    else:
        raise Bad(op)
    if ty == "f32":
        r = round32(r)
    if "nnan" in fm and (a != a or b != b or r != r):
        return POISON
    if "ninf" in fm and (a in (INF, -INF) or b in (INF, -INF) or r in (INF, -INF)):
        return POISON
    return r


def ev_fun1(op: str, ty: str, a):
    if a is POISON:
        return POISON
    if op == "fneg":
        return -a
    if op == "fabs":
        return abs(a) if a == a else a
    if a != a:
        return a
    if op == "sqrt":
        if a < 0:
            return math.nan
        r = math.sqrt(a) if a != INF else a
        return round32(r) if ty == "f32" else r
    if a in (INF, -INF):
        return a
    r = float(math.floor(a) if op == "floor" else math.ceil(a))
    return math.copysign(r, a) if r == 0 else r


def cast_ok(op: str, src: str, dst: str) -> bool:
    if op == "trunc":
        return src in INT_W and dst in INT_W and INT_W[dst] < INT_W[src]
    if op in ("zext", "sext"):
        return src in INT_W and dst in INT_W and INT_W[dst] > INT_W[src]
    if op == "sitofp":
        return src in INT_W and dst in FLOAT_T
    if op == "fpext":
        return src == "f32" and dst == "f64"
    if op == "bitcast":
        return (src, dst) in (("i32", "f32"), ("f32", "i32"), ("i64", "f64"), ("f64", "i64"))
    return False


def ev_cast(op: str, src: str, dst: str, a, flags):
    if a is POISON:
        return POISON
    if op == "trunc":
        r = a & ((1 << INT_W[dst]) - 1)
        if "nuw" in flags and r != a:
            return POISON
        if "nsw" in flags and sgn(r, INT_W[dst]) != sgn(a, INT_W[src]):
            return POISON
        return r
    if op == "zext":
        if "nneg" in flags and (a >> (INT_W[src] - 1)) & 1:
            return POISON
        return a
    if op == "sext":
        return sgn(a, INT_W[src]) & ((1 << INT_W[dst]) - 1)
    if op == "sitofp":
        return int_to_fp(sgn(a, INT_W[src]), dst)
    if op == "fpext":
        return a
    if op == "bitcast":
        if src in FLOAT_T:
            if a != a:
                raise Undefined("bitcast of a NaN (payload is not deterministic)")
            return val_to_bits(src, a)
        return bits_to_val(dst, a)
    raise Bad(op)


# =============================================================================================
# recipe -> plan
def _ty(x, allowed=SCALARS) -> str:
    if not isinstance(x, str) or x not in allowed:
        raise Bad(f"type {x!r}")
    return x


def _int(x) -> int:
    if isinstance(x, bool) or not isinstance(x, int):
        raise Bad(f"int expected, got {x!r}")
    return x


def _norm_func(fi: int, f: dict, sigs: list) -> dict:
    args, ret = sigs[fi]
    blocks = f.get("blocks")
    if not isinstance(blocks, list) or not blocks:
        raise Bad("blocks")
    n = len(blocks)
    if n > 12:
        raise Bad("too many blocks")
    terms = []
    for i, blk in enumerate(blocks):
        t = blk.get("term") or {"k": "ret"}
        k = t.get("k")
        if k not in ("ret", "br", "cbr", "latch"):
            raise Bad(f"terminator {k!r}")
        if i == n - 1 or k == "ret":
            terms.append({"k": "ret", "v": _int(t.get("v", 0))})
            continue
        later = n - i - 1
        tos = t.get("to", 0)
        tos = list(tos) if isinstance(tos, list) else [tos]
        tos = [i + 1 + _int(x) % later for x in tos] or [i + 1]
        if k == "br":
            terms.append({"k": "br", "to": [tos[0]], "src": t})
        elif k == "cbr":
            terms.append({"k": "cbr", "to": [tos[0], tos[-1] if len(tos) > 1 else tos[0]], "src": t})
        else:
            terms.append({"k": "latch", "to": [tos[0]], "src": t})
    # forward dominators (forward edges only go to higher indices)
    preds: list[list[int]] = [[] for _ in range(n)]
    for i, t in enumerate(terms):
        for s in t.get("to", ()):
            preds[s].append(i)
    reach = [False] * n
    reach[0] = True
    dom: list[set[int]] = [set() for _ in range(n)]
    dom[0] = {0}
    for b in range(1, n):
        ps = [p for p in preds[b] if reach[p]]
        if ps:
            reach[b] = True
            d = set(dom[ps[0]])
            for p in ps[1:]:
                d &= dom[p]
            dom[b] = d | {b}
        else:
            dom[b] = {b}
    has_ctr = [False] * n
    for i, t in enumerate(terms):
        if t["k"] == "latch":
            cands = sorted(dom[i] - {0})
            if not cands:
                t["k"] = "br"
                continue
            t["head"] = cands[_int(t["src"].get("head", 0)) % len(cands)]
            has_ctr[t["head"]] = True

    nv = [len(args)]
    vtypes: dict[int, str] = {i: a for i, a in enumerate(args)}
    meta: dict[int, dict] = {}

    def new(ty: str) -> int:
        v = nv[0]
        nv[0] += 1
        vtypes[v] = ty
        return v

    params: list[list[int]] = [[] for _ in range(n)]
    ctr: dict[int, int] = {}
    defs: list[list[int]] = [[] for _ in range(n)]
    for b in range(1, n):
        ps = blocks[b].get("params") or []
        if not isinstance(ps, list) or len(ps) > 4:
            raise Bad("params")
        for p in ps:
            params[b].append(new(_ty(p)))
        if has_ctr[b]:
            ctr[b] = new("i8")
            params[b].append(ctr[b])
        defs[b].extend(params[b])
    params[0] = list(range(len(args)))

    out_blocks = []
    for b in range(n):
        ops: list[dict] = []

        def avail():
            vs = list(range(len(args)))
            for d in sorted(dom[b] - {b}):
                vs.extend(defs[d])
            vs.extend(defs[b])
            return vs

        def emit(inst: dict, ty: str | None):
            if ty is not None:
                inst["res"] = new(ty)
                inst["ty"] = ty
                defs[b].append(inst["res"])
            ops.append(inst)
            return inst.get("res")

        def const(ty: str, raw: int, form: int = 0):
            return emit({"k": "const", "bits": decode_bits(ty, raw), "form": form % 3}, ty)

        def pick(ty: str, r):
            r = _int(r)
            c = [v for v in avail() if vtypes[v] == ty]
            if c:
                return c[r % len(c)]
            if ty == "ptr":
                return None
            return const(ty, r)

        def do_op(o: dict):
            k = o.get("k")
            if k == "bin":
                op, t, f = o.get("op"), _ty(o.get("t"), tuple(INT_W)), _int(o.get("f", 0))
                if op not in INT_BIN:
                    raise Bad(op)
                a = pick(t, o.get("a", 0))
                bb = const(t, _int(o["bc"])) if o.get("bc") is not None else pick(t, o.get("b", 0))
                flags = []
                if op in BIN_OVF:
                    flags = [x for m, x in ((1, "nsw"), (2, "nuw")) if f & m]
                elif op in BIN_EXACT and f & 1:
                    flags = ["exact"]
                elif op == "or" and f & 1:
                    flags = ["disjoint"]
                emit({"k": "bin", "op": op, "a": a, "b": bb, "flags": flags}, t)
            elif k == "icmp":
                p, t = o.get("p"), _ty(o.get("t"), tuple(INT_W))
                if p not in ICMP:
                    raise Bad(p)
                a = pick(t, o.get("a", 0))
                bb = const(t, _int(o["bc"])) if o.get("bc") is not None else pick(t, o.get("b", 0))
                emit({"k": "icmp", "p": p, "ot": t, "a": a, "b": bb}, "i1")
            elif k == "fbin":
                op, t, f = o.get("op"), _ty(o.get("t"), FLOAT_T), _int(o.get("f", 0))
                if op not in FBIN:
                    raise Bad(op)
                a = pick(t, o.get("a", 0))
                bb = const(t, _int(o["bc"])) if o.get("bc") is not None else pick(t, o.get("b", 0))
                fm = [x for m, x in ((1, "nnan"), (2, "ninf")) if f & m]
                emit({"k": "fbin", "op": op, "a": a, "b": bb, "fm": fm}, t)
            elif k == "fcmp":
                p, t = o.get("p"), _ty(o.get("t"), FLOAT_T)
                if p not in FCMP:
                    raise Bad(p)
                emit({"k": "fcmp", "p": p, "ot": t, "a": pick(t, o.get("a", 0)),
                      "b": pick(t, o.get("b", 0))}, "i1")
            elif k == "cast":
                op, t, to, f = o.get("op"), _ty(o.get("t")), _ty(o.get("to")), _int(o.get("f", 0))
                if not cast_ok(op, t, to):
                    raise Bad(f"cast {op} {t}->{to}")
                flags = []
                if op == "trunc":
                    flags = [x for m, x in ((1, "nsw"), (2, "nuw")) if f & m]
                elif op == "zext" and f & 1:
                    flags = ["nneg"]
                emit({"k": "cast", "op": op, "ot": t, "a": pick(t, o.get("a", 0)), "flags": flags}, to)
            elif k == "select":
                t = _ty(o.get("t"))
                emit({"k": "select", "c": pick("i1", o.get("c", 0)), "a": pick(t, o.get("a", 0)),
                      "b": pick(t, o.get("b", 0))}, t)
            elif k == "const":
                const(_ty(o.get("t")), _int(o.get("v", 0)), _int(o.get("form", 0)))
            elif k == "fun1":
                op, t = o.get("op"), _ty(o.get("t"), FLOAT_T)
                if op not in FUN1:
                    raise Bad(op)
                emit({"k": "fun1", "op": op, "a": pick(t, o.get("a", 0))}, t)
            elif k == "fun2":
                op, t = o.get("op"), _ty(o.get("t"), FLOAT_T)
                if op not in FUN2:
                    raise Bad(op)
                emit({"k": "fun2", "op": op, "a": pick(t, o.get("a", 0)), "b": pick(t, o.get("b", 0))}, t)
            elif k == "alloca":
                et = _ty(o.get("t"))
                cnt_n = (1, 2, 4)[_int(o.get("n", 0)) % 3]
                arr = bool(o.get("arr"))
                cnt = const("i64" if o.get("c64") else "i32", 1 if arr else cnt_n)
                r = emit({"k": "alloca", "et": et, "n": cnt_n, "arr": arr, "cnt": cnt}, "ptr")
                meta[r] = {"et": et, "n": cnt_n, "arr": arr, "off": 0, "root": True}
            elif k == "gep":
                p = pick("ptr", o.get("p", 0))
                if p is None:
                    return
                m = meta[p]
                idx, cidx, off = None, None, None
                if m["root"] and o.get("dyn"):
                    it = _ty(o.get("it", "i32"), ("i8", "i16", "i32", "i64"))
                    iv = pick(it, o.get("i", 0))
                    mk = const(it, m["n"] - 1)
                    idx = emit({"k": "bin", "op": "and", "a": iv, "b": mk, "flags": []}, it)
                elif m["off"] is None:
                    cidx, off = 0, None
                else:
                    off = _int(o.get("i", 0)) % m["n"]
                    cidx = off - m["off"]
                r = emit({"k": "gep", "p": p, "et": m["et"], "n": m["n"],
                          "arr_form": bool(m["root"] and m["arr"]), "idx": idx, "cidx": cidx,
                          "inb": bool(o.get("inb"))}, "ptr")
                meta[r] = {"et": m["et"], "n": m["n"], "arr": False, "off": off, "root": False}
            elif k == "load":
                p = pick("ptr", o.get("p", 0))
                if p is not None:
                    emit({"k": "load", "p": p}, meta[p]["et"])
            elif k == "store":
                p = pick("ptr", o.get("p", 0))
                if p is not None:
                    emit({"k": "store", "p": p, "v": pick(meta[p]["et"], o.get("v", 0))}, None)
            elif k == "call":
                later = len(sigs) - fi - 1
                if later <= 0:
                    return
                callee = fi + 1 + _int(o.get("fn", 0)) % later
                refs = o.get("args") or [0]
                cargs, cret = sigs[callee]
                emit({"k": "call", "fn": callee,
                      "args": [pick(t, refs[j % len(refs)]) for j, t in enumerate(cargs)]}, cret)
            elif k == "idiom":
                # two-instruction patterns whose second instruction LLVM folds away when the first
                # carries a flag: an *added* flag changes the result on a defined input
                i, f = _int(o.get("id", 0)) % 15, _int(o.get("f", 0))
                ovf = [x for m, x in ((1, "nsw"), (2, "nuw")) if f & m]

                def bin_(op, t, x, y, flags=()):
                    return emit({"k": "bin", "op": op, "a": x, "b": y, "flags": list(flags)}, t)

                def icmp_(p, t, x, y):
                    return emit({"k": "icmp", "p": p, "ot": t, "a": x, "b": y}, "i1")

                if i == 14:
                    t = _ty(o.get("t"), FLOAT_T)
                    r = emit({"k": "fbin", "op": "fadd", "a": pick(t, o.get("a", 0)), "b": pick(t, o.get("b", 0)),
                              "fm": [x for m, x in ((1, "nnan"), (2, "ninf")) if f & m]}, t)
                    emit({"k": "fcmp", "p": "uno", "ot": t, "a": r, "b": r}, "i1")
                    return
                if i in (11, 12):
                    t = _ty(o.get("t"), ("i16", "i32", "i64"))
                    nt = {"i16": "i8", "i32": "i16", "i64": "i32"}[t]
                    r = emit({"k": "cast", "op": "trunc", "ot": t, "a": pick(t, o.get("a", 0)), "flags": ovf}, nt)
                    emit({"k": "cast", "op": "zext" if i == 11 else "sext", "ot": nt, "a": r, "flags": []}, t)
                    return
                if i == 13:
                    t = _ty(o.get("t"), ("i8", "i16", "i32"))
                    wt = {"i8": "i16", "i16": "i32", "i32": "i64"}[t]
                    a_ = pick(t, o.get("a", 0))
                    r = emit({"k": "cast", "op": "zext", "ot": t, "a": a_, "flags": ["nneg"] if f & 1 else []}, wt)
                    r2 = emit({"k": "cast", "op": "sext", "ot": t, "a": a_, "flags": []}, wt)
                    icmp_("eq", wt, r, r2)
                    return
                t = _ty(o.get("t"), ("i8", "i16", "i32", "i64"))
                a_, b_ = pick(t, o.get("a", 0)), pick(t, o.get("b", 0))
                ex = ["exact"] if f & 1 else []
                if i == 0:
                    icmp_("sgt", t, bin_("add", t, a_, const(t, 1), ovf), a_)
                elif i == 1:
                    icmp_("uge", t, bin_("add", t, a_, b_, ovf), a_)
                elif i == 2:
                    icmp_("ule", t, bin_("sub", t, a_, b_, ovf), a_)
                elif i == 3:
                    bin_("sdiv", t, bin_("mul", t, a_, const(t, 3), ovf), const(t, 3))
                elif i == 4:
                    bin_("udiv", t, bin_("mul", t, a_, const(t, 3), ovf), const(t, 3))
                elif i == 5:
                    bin_("lshr", t, bin_("shl", t, a_, const(t, 2), ovf), const(t, 2))
                elif i == 6:
                    bin_("ashr", t, bin_("shl", t, a_, const(t, 2), ovf), const(t, 2))
                elif i == 7:
                    bin_("mul", t, bin_("udiv", t, a_, const(t, 4), ex), const(t, 4))
                elif i == 8:
                    bin_("shl", t, bin_("lshr", t, a_, const(t, 2), ex), const(t, 2))
                elif i == 9:
                    bin_("shl", t, bin_("ashr", t, a_, const(t, 2), ex), const(t, 2))
                else:
                    bin_("sub", t, bin_("or", t, a_, b_, ["disjoint"] if f & 1 else []), b_)
            else:
                raise Bad(f"op kind {k!r}")

        raw_ops = blocks[b].get("ops") or []
        if not isinstance(raw_ops, list) or len(raw_ops) > 40:
            raise Bad("ops")
        for o in raw_ops:
            if not isinstance(o, dict):
                raise Bad("op")
            do_op(o)

        def edge(target: int, refs, back=None):
            refs = refs if isinstance(refs, list) and refs else [0]
            vs = []
            user = params[target][:-1] if has_ctr[target] else params[target]
            for j, pv in enumerate(user):
                vs.append(pick(vtypes[pv], refs[j % len(refs)]))
            if has_ctr[target]:
                vs.append(back if back is not None else const("i8", 0))
            return vs

        t = terms[b]
        src = t.get("src", {})
        eargs = src.get("args") or []
        eargs = eargs if isinstance(eargs, list) else []

        def earg(j):
            if not eargs:
                return [0]
            e = eargs[j % len(eargs)]
            return e if isinstance(e, list) else [e]

        if t["k"] == "ret":
            term = {"k": "ret", "v": pick(ret, t["v"])}
        elif t["k"] == "br":
            term = {"k": "br", "to": t["to"][0], "args": edge(t["to"][0], earg(0))}
        elif t["k"] == "cbr":
            c = pick("i1", src.get("c", 0))
            if t["to"][0] == t["to"][1] and not src.get("diff"):
                a0 = edge(t["to"][0], earg(0))
                term = {"k": "cbr", "c": c, "to": t["to"], "args": [a0, list(a0)]}
            else:
                term = {"k": "cbr", "c": c, "to": t["to"],
                        "args": [edge(t["to"][0], earg(0)), edge(t["to"][1], earg(1))]}
        else:  # latch
            hd = t["head"]
            one = const("i8", 1)
            c1 = emit({"k": "bin", "op": "add", "a": ctr[hd], "b": one, "flags": []}, "i8")
            tripc = const("i8", 1 + _int(src.get("trip", 0)) % 4)
            swap = bool(src.get("swap"))
            cmp_ = emit({"k": "icmp", "p": "uge" if swap else "ult", "ot": "i8", "a": c1, "b": tripc}, "i1")
            if src.get("c") is not None:
                uc = pick("i1", src["c"])
                cmp_ = emit({"k": "bin", "op": "or" if swap else "and", "a": cmp_, "b": uc,
                             "flags": []}, "i1")
            back = edge(hd, earg(0), back=c1)
            ex = edge(t["to"][0], earg(1))
            if swap:
                term = {"k": "cbr", "c": cmp_, "to": [t["to"][0], hd], "args": [ex, back], "latch": True}
            else:
                term = {"k": "cbr", "c": cmp_, "to": [hd, t["to"][0]], "args": [back, ex], "latch": True}
        out_blocks.append({"params": params[b], "ops": ops, "term": term})

    keys = f.get("layout") or []
    if not isinstance(keys, list):
        raise Bad("layout")
    keys = [_int(x) for x in keys]
    layout = [0] + sorted(range(1, n), key=lambda x: (keys[(x - 1) % len(keys)] if keys else 0, x))
    return {"name": f"f{fi}", "args": args, "ret": ret, "blocks": out_blocks, "layout": layout,
            "vtypes": vtypes, "reach": reach}


def normalize(recipe) -> dict:
    if not isinstance(recipe, dict) or recipe.get("kind") != "prog":
        raise Bad("kind")
    funcs = recipe.get("funcs")
    if not isinstance(funcs, list) or not funcs or len(funcs) > 6:
        raise Bad("funcs")
    sigs = []
    for f in funcs:
        if not isinstance(f, dict):
            raise Bad("func")
        a = f.get("args") or []
        if not isinstance(a, list) or len(a) > 6:
            raise Bad("args")
        sigs.append(([_ty(x) for x in a], _ty(f.get("ret"))))
        if f.get("cc", "ccc") not in ("ccc", "fastcc"):
            raise Bad("cc")
    rows = recipe.get("inputs") or []
    if not isinstance(rows, list) or len(rows) > 16:
        raise Bad("inputs")
    rows = [[_int(x) for x in r] if isinstance(r, list) else [_int(r)] for r in rows]
    plans = [_norm_func(i, f, sigs) for i, f in enumerate(funcs)]
    for pl, f in zip(plans, funcs):
        pl["cc"] = f.get("cc", "ccc")
    return {"funcs": plans, "inputs": rows,
            "opt": 1 if recipe.get("opt") else 0, "text": bool(recipe.get("text"))}


def input_bits(fn: dict, row: list) -> list:
    return [decode_bits(t, row[a % len(row)] if row else 0) for a, t in enumerate(fn["args"])]


def features(plan: dict) -> dict:
    ft = {"phi": False, "flag": False, "cast": False, "loop": False, "same_target": False,
          "same_target_diff": False, "permuted": False, "mem": False, "call": False,
          "unreachable_block": False, "multi_block": False, "float": False, "intrinsic": False,
          "call_fastcc": False}
    kinds = set()
    for f in plan["funcs"]:
        if len(f["blocks"]) > 1:
            ft["multi_block"] = True
            if any(b["params"] for b in f["blocks"][1:]):
                ft["phi"] = True
        if f["layout"] != sorted(f["layout"]):
            ft["permuted"] = True
        if not all(f["reach"]):
            ft["unreachable_block"] = True
        for b in f["blocks"]:
            for o in b["ops"]:
                kinds.add(o["k"] + ":" + str(o.get("op") or (o["p"] if o["k"] in ("icmp", "fcmp") else "")))
                if o.get("flags") or o.get("fm"):
                    ft["flag"] = True
                if o["k"] == "cast":
                    ft["cast"] = True
                if o["k"] in ("alloca", "gep", "load", "store"):
                    ft["mem"] = True
                if o["k"] == "call":
                    ft["call"] = True
                    if plan["funcs"][o["fn"]]["cc"] != "ccc":
                        ft["call_fastcc"] = True
                if o["k"] in ("fbin", "fcmp", "fun1", "fun2"):
                    ft["float"] = True
                if o["k"] in ("fun1", "fun2") and o["op"] != "fneg":
                    ft["intrinsic"] = True
            t = b["term"]
            if t.get("latch"):
                ft["loop"] = True
            if t["k"] == "cbr" and t["to"][0] == t["to"][1]:
                ft["same_target"] = True
                if t["args"][0] != t["args"][1]:
                    ft["same_target_diff"] = True
    ft["_kinds"] = kinds
    return ft


def contexts(plan: dict) -> dict:
    """Structural features that name the root cause class of the known translator defects."""
    c = {"def_after_use_in_layout": False, "array_typed_pointer_store": False,
         "intrinsic_at_two_types": False, "cond_br_same_block_diff_args": False}
    intr: dict[str, set] = {}
    for f in plan["funcs"]:
        pos = {b: i for i, b in enumerate(f["layout"])}
        defblk = {}
        arrptr = set()
        for bi, b in enumerate(f["blocks"]):
            for v in b["params"]:
                defblk[v] = bi
            for o in b["ops"]:
                if o.get("res") is not None:
                    defblk[o["res"]] = bi
                if (o["k"] == "alloca" and o["arr"]) or (o["k"] == "gep" and o["arr_form"]):
                    arrptr.add(o["res"])
                if o["k"] == "store" and o["p"] in arrptr:
                    c["array_typed_pointer_store"] = True
                if o["k"] in ("fun1", "fun2") and o["op"] != "fneg":
                    intr.setdefault(o["op"], set()).add(o["ty"])
        for bi, b in enumerate(f["blocks"]):
            uses = []
            for o in b["ops"]:
                uses += [o[x] for x in ("a", "b", "c", "p", "v", "idx", "cnt") if isinstance(o.get(x), int)
                         and not isinstance(o.get(x), bool)]
                uses += o.get("args", []) if o["k"] == "call" else []
            t = b["term"]
            if t["k"] == "ret":
                uses.append(t["v"])
            elif t["k"] == "br":
                uses += t["args"]
            else:
                uses += [t["c"]] + t["args"][0] + t["args"][1]
                if t["to"][0] == t["to"][1] and t["args"][0] != t["args"][1]:
                    c["cond_br_same_block_diff_args"] = True
            for v in uses:
                if v in defblk and pos[defblk[v]] > pos[bi]:
                    c["def_after_use_in_layout"] = True
    c["intrinsic_at_two_types"] = any(len(v) > 1 for v in intr.values())
    return c


# =============================================================================================
# plan -> xDSL
_X = {}


def _xdsl():
    if _X:
        return _X
    from xdsl.backend.llvm.convert import convert_module
    from xdsl.context import Context
    from xdsl.dialects import builtin
    from xdsl.dialects import llvm as L
    from xdsl.dialects.builtin import (Float32Type, Float64Type, FloatAttr, IntegerAttr,
                                       IntegerType, ModuleOp, UnitAttr)
    from xdsl.dialects.utils.fast_math import FastMathFlag
    from xdsl.ir import Block, Region, SSAValue
    from xdsl.parser import Parser
    from xdsl.printer import Printer
    from xdsl.utils.exceptions import LLVMTranslationException
    _X.update(locals())
    _X["TY"] = {**{t: IntegerType(w) for t, w in INT_W.items()}, "f32": Float32Type(),
                "f64": Float64Type(), "ptr": L.LLVMPointerType()}
    return _X


def to_xdsl(plan: dict):
    X = _xdsl()
    L, TY = X["L"], X["TY"]
    IntegerAttr, FloatAttr, UnitAttr = X["IntegerAttr"], X["FloatAttr"], X["UnitAttr"]
    Block, Region = X["Block"], X["Region"]
    i64 = TY["i64"]
    BINCLS = {"add": L.AddOp, "sub": L.SubOp, "mul": L.MulOp, "shl": L.ShlOp, "udiv": L.UDivOp,
              "sdiv": L.SDivOp, "lshr": L.LShrOp, "ashr": L.AShrOp, "urem": L.URemOp,
              "srem": L.SRemOp, "and": L.AndOp, "xor": L.XOrOp, "or": L.OrOp}
    FBINCLS = {"fadd": L.FAddOp, "fsub": L.FSubOp, "fmul": L.FMulOp, "fdiv": L.FDivOp,
               "frem": L.FRemOp}
    FM = {"nnan": X["FastMathFlag"].NO_NANS, "ninf": X["FastMathFlag"].NO_INFS}
    OVF = {"nsw": L.OverflowFlag.NO_SIGNED_WRAP, "nuw": L.OverflowFlag.NO_UNSIGNED_WRAP}
    funcs = []
    for f in plan["funcs"]:
        vt = f["vtypes"]
        blks = [Block(arg_types=[TY[vt[v]] for v in b["params"]]) for b in f["blocks"]]
        val = {}
        for b, blk in zip(f["blocks"], blks):
            for v, a in zip(b["params"], blk.args):
                val[v] = a
        for b, blk in zip(f["blocks"], blks):
            for o in b["ops"]:
                k = o["k"]
                if k == "const":
                    ty = o["ty"]
                    if ty in FLOAT_T:
                        op = L.ConstantOp(FloatAttr(bits_to_val(ty, o["bits"]), TY[ty]), TY[ty])
                    else:
                        w = INT_W[ty]
                        s = sgn(o["bits"], w)
                        if o["form"] == 1:
                            attr = IntegerAttr(o["bits"], TY[ty])      # unsigned spelling
                        elif o["form"] == 2:
                            attr = IntegerAttr(s, i64)                 # `(5 : i64) : i8` spelling
                        else:
                            attr = IntegerAttr(s, TY[ty])
                        op = L.ConstantOp(attr, TY[ty])
                elif k == "bin":
                    cls, a, bb, fl = BINCLS[o["op"]], val[o["a"]], val[o["b"]], o["flags"]
                    if o["op"] in BIN_OVF:
                        bits = (1 if "nsw" in fl else 0) | (2 if "nuw" in fl else 0)
                        op = cls(a, bb, overflow=IntegerAttr(bits, 32))
                    elif o["op"] in BIN_EXACT:
                        op = cls(a, bb, is_exact=UnitAttr() if fl else None)
                    elif o["op"] == "or":
                        op = cls(a, bb, is_disjoint=UnitAttr() if fl else None)
                    else:
                        op = cls(a, bb)
                elif k == "icmp":
                    op = L.ICmpOp(val[o["a"]], val[o["b"]], IntegerAttr(ICMP.index(o["p"]), i64))
                elif k == "fbin":
                    fm = L.FastMathAttr(tuple(FM[x] for x in o["fm"])) if o["fm"] else None
                    op = FBINCLS[o["op"]](val[o["a"]], val[o["b"]], fm)
                elif k == "fcmp":
                    op = L.FCmpOp(val[o["a"]], val[o["b"]], o["p"])
                elif k == "cast":
                    a, ty = val[o["a"]], TY[o["ty"]]
                    if o["op"] == "trunc":
                        op = L.TruncOp(a, ty, overflow=L.OverflowAttr(
                            tuple(OVF[x] for x in o["flags"]) if o["flags"] else None))
                    elif o["op"] == "zext":
                        op = L.ZExtOp(a, ty, non_neg=UnitAttr() if o["flags"] else None)
                    elif o["op"] == "sext":
                        op = L.SExtOp(a, ty)
                    else:
                        op = {"sitofp": L.SIToFPOp, "fpext": L.FPExtOp,
                              "bitcast": L.BitcastOp}[o["op"]](a, ty)
                elif k == "select":
                    op = L.SelectOp(val[o["c"]], val[o["a"]], val[o["b"]])
                elif k == "fun1":
                    a = val[o["a"]]
                    if o["op"] == "fneg":
                        op = L.FNegOp(a)
                    elif o["op"] == "fabs":
                        op = L.FAbsOp(a, TY[o["ty"]])
                    else:
                        op = {"sqrt": L.FSqrtOp, "floor": L.FFloorOp, "ceil": L.FCeilOp}[o["op"]](a)
                elif k == "fun2":
                    op = L.FCopySignOp(val[o["a"]], val[o["b"]])
                elif k == "alloca":
                    et = L.LLVMArrayType(o["n"], TY[o["et"]]) if o["arr"] else TY[o["et"]]
                    op = L.AllocaOp(val[o["cnt"]], et)
                elif k == "gep":
                    et = L.LLVMArrayType(o["n"], TY[o["et"]]) if o["arr_form"] else TY[o["et"]]
                    last = L.GEP_USE_SSA_VAL if o["idx"] is not None else o["cidx"]
                    idxs = [0, last] if o["arr_form"] else [last]
                    op = L.GEPOp(val[o["p"]], idxs, et,
                                 [val[o["idx"]]] if o["idx"] is not None else [], inbounds=o["inb"])
                elif k == "load":
                    op = L.LoadOp(val[o["p"]], TY[o["ty"]])
                elif k == "store":
                    op = L.StoreOp(val[o["v"]], val[o["p"]])
                elif k == "call":
                    op = L.CallOp(plan["funcs"][o["fn"]]["name"], *[val[a] for a in o["args"]],
                                  return_type=TY[o["ty"]],
                                  calling_convention=L.CallingConventionAttr(plan["funcs"][o["fn"]]["cc"]))
                else:
                    raise AssertionError(k)
                blk.add_op(op)
                if o.get("res") is not None:
                    val[o["res"]] = op.results[0]
            t = b["term"]
            if t["k"] == "ret":
                blk.add_op(L.ReturnOp(val[t["v"]]))
            elif t["k"] == "br":
                blk.add_op(L.BrOp(blks[t["to"]], *[val[a] for a in t["args"]]))
            else:
                blk.add_op(L.CondBrOp(val[t["c"]], blks[t["to"][0]], [val[a] for a in t["args"][0]],
                                      blks[t["to"][1]], [val[a] for a in t["args"][1]]))
        region = Region([blks[i] for i in f["layout"]])
        funcs.append(L.FuncOp(f["name"], L.LLVMFunctionType([TY[a] for a in f["args"]], TY[f["ret"]]),
                              linkage=L.LinkageAttr("external"),
                              cconv=L.CallingConventionAttr(f["cc"]), body=region))
    return X["ModuleOp"](funcs)


def roundtrip(module):
    import io
    X = _xdsl()
    buf = io.StringIO()
    X["Printer"](stream=buf).print_op(module)
    ctx = X["Context"]()
    ctx.load_dialect(X["builtin"].Builtin)
    ctx.load_dialect(X["L"].LLVM)
    return buf.getvalue(), X["Parser"](ctx, buf.getvalue()).parse_module()


# =============================================================================================
# reference evaluator
class Eval:
    def __init__(self, plan: dict, limit: int = 20000):
        self.plan, self.steps, self.limit = plan, 0, limit
        self.trace: list | None = None

    def call(self, fi: int, argv: list):
        f = self.plan["funcs"][fi]
        vt = f["vtypes"]
        env = {i: v for i, v in enumerate(argv)}
        b = 0
        while True:
            blk = f["blocks"][b]
            for o in blk["ops"]:
                self.steps += 1
                if self.steps > self.limit:
                    raise StepLimit()
                r = self.op(o, env, vt)
                if o.get("res") is not None:
                    env[o["res"]] = r
            t = blk["term"]
            self.steps += 1
            if self.steps > self.limit:
                raise StepLimit()
            if t["k"] == "ret":
                return env[t["v"]]
            if t["k"] == "br":
                nb, vs = t["to"], t["args"]
            else:
                c = env[t["c"]]
                if c is POISON:
                    raise Undefined("branch on poison")
                j = 0 if c else 1
                nb, vs = t["to"][j], t["args"][j]
            vals = [env[v] for v in vs]
            for p, v in zip(f["blocks"][nb]["params"], vals):
                env[p] = v
            b = nb

    def op(self, o: dict, env: dict, vt: dict):
        k = o["k"]
        if k == "const":
            r = bits_to_val(o["ty"], o["bits"])
            ins = ()
        elif k == "bin":
            ins = (env[o["a"]], env[o["b"]])
            r = ev_bin(o["op"], INT_W[o["ty"]], ins[0], ins[1], o["flags"])
        elif k == "icmp":
            ins = (env[o["a"]], env[o["b"]])
            r = ev_icmp(o["p"], INT_W[o["ot"]], *ins)
        elif k == "fbin":
            ins = (env[o["a"]], env[o["b"]])
            r = ev_fbin(o["op"], o["ty"], ins[0], ins[1], o["fm"])
        elif k == "fcmp":
            ins = (env[o["a"]], env[o["b"]])
            r = ev_fcmp(o["p"], *ins)
        elif k == "cast":
            ins = (env[o["a"]],)
            r = ev_cast(o["op"], o["ot"], o["ty"], ins[0], o["flags"])
        elif k == "select":
            ins = (env[o["c"]], env[o["a"]], env[o["b"]])
            r = POISON if ins[0] is POISON else (ins[1] if ins[0] else ins[2])
        elif k == "fun1":
            ins = (env[o["a"]],)
            r = ev_fun1(o["op"], o["ty"], ins[0])
        elif k == "fun2":
            ins = (env[o["a"]], env[o["b"]])
            if ins[0] is POISON or ins[1] is POISON:
                r = POISON
            elif ins[1] != ins[1]:
                raise Undefined("copysign from a NaN (sign of a NaN is not deterministic)")
            else:
                r = math.copysign(ins[0], ins[1])
        elif k == "alloca":
            return ({"cells": [POISON] * o["n"]}, 0)
        elif k == "gep":
            p = env[o["p"]]
            if o["idx"] is not None:
                i = env[o["idx"]]
                if i is POISON or p is POISON:
                    return POISON
                i = sgn(i, INT_W[vt[o["idx"]]])
            else:
                i = o["cidx"]
            if p is POISON:
                return POISON
            off = p[1] + i
            if o["inb"] and not (0 <= off <= o["n"]):
                return POISON
            return (p[0], off)
        elif k == "load":
            p = env[o["p"]]
            if p is POISON or not (0 <= p[1] < len(p[0]["cells"])):
                raise Undefined("load through poison / out-of-bounds pointer")
            return p[0]["cells"][p[1]]
        elif k == "store":
            p = env[o["p"]]
            if p is POISON or not (0 <= p[1] < len(p[0]["cells"])):
                raise Undefined("store through poison / out-of-bounds pointer")
            p[0]["cells"][p[1]] = env[o["v"]]
            return None
        elif k == "call":
            return self.call(o["fn"], [env[a] for a in o["args"]])
        else:
            raise AssertionError(k)
        if self.trace is not None:
            self.trace.append((o, ins, r))
        return r


# =============================================================================================
# JIT worker (child process; never imports xdsl)
WORKER_SRC = r'''
import sys, json, struct, ctypes, signal
import llvmlite.binding as llvm
try:
    llvm.initialize_native_target(); llvm.initialize_native_asmprinter()
except Exception:
    pass
TGT = llvm.Target.from_default_triple()
TM = TGT.create_target_machine()
CT = {"i1": ctypes.c_uint8, "i8": ctypes.c_uint8, "i16": ctypes.c_uint16, "i32": ctypes.c_uint32,
      "i64": ctypes.c_uint64, "f32": ctypes.c_float, "f64": ctypes.c_double}
W = {"i1": 1, "i8": 8, "i16": 16, "i32": 32, "i64": 64}
def dec(t, r):
    if t == "f32": return struct.unpack("<f", struct.pack("<I", r))[0]
    if t == "f64": return struct.unpack("<d", struct.pack("<Q", r))[0]
    return r
def enc(t, v):
    if t == "f32": return struct.unpack("<I", struct.pack("<f", v))[0]
    if t == "f64": return struct.unpack("<Q", struct.pack("<d", v))[0]
    return int(v) & ((1 << W[t]) - 1)
out = sys.stdout
def say(o):
    out.write(json.dumps(o) + "\n"); out.flush()
def handle(req):
    say({"ev": "stage", "s": "parse"})
    try:
        mod = llvm.parse_assembly(req["ir"])
    except RuntimeError as e:
        say({"ev": "reject", "stage": "parse", "msg": str(e)}); return
    say({"ev": "stage", "s": "verify"})
    try:
        mod.verify()
    except RuntimeError as e:
        say({"ev": "reject", "stage": "verify", "msg": str(e)}); return
    if req.get("opt"):
        say({"ev": "stage", "s": "opt"})
        pto = llvm.create_pipeline_tuning_options(speed_level=2, size_level=0)
        pb = llvm.create_pass_builder(TM, pto)
        mpm = pb.getModulePassManager()
        mpm.run(mod, pb)
        del mpm, pb, pto
    say({"ev": "stage", "s": "jit"})
    eng = llvm.create_mcjit_compiler(mod, TGT.create_target_machine())
    eng.finalize_object()
    for fi, f in enumerate(req["funcs"]):
        if not f["inputs"]:
            continue
        addr = eng.get_function_address(f["name"])
        if not addr:
            say({"ev": "nofunc", "f": fi}); continue
        cf = ctypes.CFUNCTYPE(CT[f["ret"]], *[CT[a] for a in f["args"]])(addr)
        for j, row in enumerate(f["inputs"]):
            say({"ev": "call", "f": fi, "j": j})
            a = [dec(t, r) for t, r in zip(f["args"], row)]
            # CPU-time (not wall-clock) limit: a call that burns 0.5 s of user time hangs;
            # SIGVTALRM's default action kills this process, the parent sees rc=-SIGVTALRM.
            signal.setitimer(signal.ITIMER_VIRTUAL, 0.5)
            v = cf(*a)
            signal.setitimer(signal.ITIMER_VIRTUAL, 0)
            say({"ev": "ret", "f": fi, "j": j, "v": enc(f["ret"], v)})
    del eng
say({"ev": "ready"})
for line in sys.stdin:
    signal.alarm(900)   # never outlive a dead parent in a native infinite loop
    handle(json.loads(line))
    signal.alarm(0)
    say({"ev": "done"})
'''


class Worker:
    def __init__(self):
        self.p = None
        self.errf = None
        self.buf = b""
        self.lat_max = 0.0

    def timeout(self) -> float:
        """Adaptive per-request budget: 30x the slowest completed request, within [20 s, 120 s]."""
        return min(120.0, max(20.0, 30.0 * self.lat_max))

    def start(self):
        self.errf = tempfile.TemporaryFile()
        env = dict(os.environ)
        self.p = subprocess.Popen([sys.executable, "-c", WORKER_SRC], stdin=subprocess.PIPE,
                                  stdout=subprocess.PIPE, stderr=self.errf, env=env, bufsize=0)
        self.buf = b""
        r = self._collect(time.time() + 300.0, until="ready")
        if r["status"] != "done":
            raise RuntimeError(f"JIT worker did not start: {r['status']} {r['stderr'][-500:]}")

    def stop(self):
        if self.p is not None:
            try:
                self.p.kill()
                self.p.wait()
            except OSError:
                pass
            for s in (self.p.stdin, self.p.stdout, self.errf):
                try:
                    s.close()
                except Exception:
                    pass
            self.p = None

    def _stderr_tail(self) -> str:
        try:
            self.errf.seek(0)
            return self.errf.read()[-1500:].decode("utf-8", "replace")
        except Exception:
            return ""

    def run(self, req: dict, timeout: float) -> dict:
        """-> {"status": done|crash|timeout, "events": [...], "rc": int|None, "stderr": str}"""
        if self.p is None or self.p.poll() is not None:
            self.stop()
            self.start()
        events: list = []
        try:
            self.p.stdin.write((json.dumps(req) + "\n").encode())
            self.p.stdin.flush()
        except (BrokenPipeError, OSError):
            rc = self.p.wait()
            res = {"status": "crash", "events": events, "rc": rc, "stderr": self._stderr_tail()}
            self.stop()
            return res
        t0 = time.time()
        res = self._collect(t0 + timeout, until="done")
        if res["status"] == "done":
            self.lat_max = max(self.lat_max, time.time() - t0)
        return res

    def _collect(self, t_end: float, until: str) -> dict:
        events: list = []
        fd = self.p.stdout.fileno()
        while True:
            while b"\n" in self.buf:
                line, self.buf = self.buf.split(b"\n", 1)
                ev = json.loads(line)
                if ev["ev"] == until:
                    return {"status": "done", "events": events, "rc": None, "stderr": ""}
                events.append(ev)
            left = t_end - time.time()
            if left <= 0:
                res = {"status": "timeout", "events": events, "rc": None, "stderr": self._stderr_tail()}
                self.stop()
                return res
            r, _, _ = _select.select([fd], [], [], min(left, 5.0))
            if not r:
                continue
            chunk = os.read(fd, 65536)
            if not chunk:
                rc = self.p.wait()
                res = {"status": "crash", "events": events, "rc": rc, "stderr": self._stderr_tail()}
                self.stop()
                return res
            self.buf += chunk


_WORKER = Worker()
atexit.register(_WORKER.stop)


# =============================================================================================
# oracle
def _crash_sig(e: BaseException) -> tuple[dict, str]:
    X = _xdsl()
    tb = e.__traceback__
    where, opname = "?", "?"
    while tb is not None:
        fn = tb.tb_frame.f_code.co_filename.replace("\\", "/")
        if "/xdsl/" in fn:
            where = f"{os.path.basename(fn)}:{tb.tb_frame.f_code.co_name}"
            if tb.tb_frame.f_code.co_name == "convert_op":
                o = tb.tb_frame.f_locals.get("op")
                opname = getattr(o, "name", "?")
        tb = tb.tb_next
    sig = {"check": "translate_crash", "exc": type(e).__name__}
    if isinstance(e, KeyError) and e.args and isinstance(e.args[0], X["SSAValue"]):
        # val_map lookup of an operand whose defining block has not been converted yet
        sig["cause"] = "operand_not_converted_yet"
    else:
        sig["op"] = opname
        sig["where"] = where
    detail = "".join(traceback.format_exception(type(e), e, e.__traceback__, limit=-4, chain=False))
    return sig, detail


def _clean_llvm_msg(msg: str, ir: str) -> tuple[str, str]:
    """-> (message class, opcode of the offending instruction or '?')."""
    lines = [ln for ln in msg.strip().splitlines() if ln.strip()]
    first = lines[0].strip() if lines else ""
    opc = "?"
    m = re.match(r"^(?:LLVM IR parsing error\s*)?(?:<string>|<stdin>)?:?(\d+):(\d+): error: (.*)$", first)
    if first.startswith("LLVM IR parsing error") and len(lines) > 1:
        m = re.match(r"^(?:<string>|<stdin>):(\d+):(\d+): error: (.*)$", lines[1].strip())
    if m:
        first = "parse: " + m.group(3)
        try:
            src = ir.splitlines()[int(m.group(1)) - 1]
            mm = re.match(r'^\s*(?:%"?[^ ]+"? = )?([a-z_]+)', src)
            if mm:
                opc = mm.group(1)
        except (IndexError, ValueError):
            pass
    else:
        for ln in lines[1:]:
            mm = re.match(r'^\s*(?:%"?[^ ]+"? = )?(?:tail |musttail |notail )?([a-z_]+) ', ln)
            if mm and mm.group(1) not in ("label", "i1", "i8", "i16", "i32", "i64", "float", "double",
                                          "ptr"):
                opc = mm.group(1)
                break
    first = re.sub(r"'(?:i\d+|float|double|half|ptr)'", "'T'", first)
    first = re.sub(r'%"?[\w.]+"?', "%v", first)
    first = re.sub(r"\d+", "N", first)
    return first[:160], opc


def _translate(module):
    X = _xdsl()
    try:
        with quiet():
            ir_mod = X["convert_module"](module, fallback_target_triple=None)
            return "ok", str(ir_mod)
    except (X["LLVMTranslationException"], NotImplementedError) as e:
        return "unsupported", e
    except Exception as e:  # undocumented exception = translator crash (reported, not swallowed)
        return "crash", e


def _same(ty: str, exp_bits: int, got_bits: int) -> bool:
    if ty in FLOAT_T:
        a, b = bits_to_val(ty, exp_bits), bits_to_val(ty, got_bits)
        if a != a and b != b:
            return True
    return exp_bits == got_bits


def _show(ty: str, bits: int) -> str:
    if ty in FLOAT_T:
        return f"{bits_to_val(ty, bits)!r}(0x{bits:x})"
    return f"{bits}(0x{bits:x})"


def _expected(plan: dict):
    """Per function: list of (arg bits, expected bits); plus counters."""
    stats = {"defined": 0, "ub": 0, "poison": 0, "steplimit": 0}
    per = []
    for fi, f in enumerate(plan["funcs"]):
        rows, seen = [], set()
        if f["cc"] != "ccc":        # not callable through ctypes; exercised through its callers
            per.append(rows)
            continue
        for row in plan["inputs"]:
            bits = input_bits(f, row)
            if tuple(bits) in seen:
                continue
            seen.add(tuple(bits))
            try:
                r = Eval(plan).call(fi, [bits_to_val(t, x) for t, x in zip(f["args"], bits)])
            except Undefined:
                stats["ub"] += 1
                continue
            except StepLimit:
                stats["steplimit"] += 1
                continue
            if r is POISON:
                stats["poison"] += 1
                continue
            stats["defined"] += 1
            rows.append((bits, val_to_bits(f["ret"], r)))
        per.append(rows)
    return per, stats


def _native(plan: dict, ir: str, per: list, opt: int, retry: bool = True):
    req = {"ir": ir, "opt": opt,
           "funcs": [{"name": f["name"], "args": f["args"], "ret": f["ret"],
                      "inputs": [b for b, _ in rows]} for f, rows in zip(plan["funcs"], per)]}
    t = _WORKER.timeout()
    res = _WORKER.run(req, t)
    if res["status"] == "timeout" and retry:
        res = _WORKER.run(req, 3 * t)     # a hang must reproduce with a 3x budget to count
    return res


def _compare(plan: dict, per: list, res: dict):
    """-> None | ("reject", stage, msg) | ("crash", stage, fi, j, rc) | ("timeout", fi, j)
          | ("wrong", fi, j, exp, got)"""
    evs = res["events"]
    for ev in evs:
        if ev["ev"] == "reject":
            return ("reject", ev["stage"], ev["msg"])
    last_call, stage = None, "?"
    got = {}
    for ev in evs:
        if ev["ev"] == "stage":
            stage = ev["s"]
        elif ev["ev"] == "call":
            last_call = (ev["f"], ev["j"])
            stage = "call"
        elif ev["ev"] == "ret":
            got[(ev["f"], ev["j"])] = ev["v"]
            last_call = None
    for fi, rows in enumerate(per):
        for j, (_, exp) in enumerate(rows):
            if (fi, j) in got and not _same(plan["funcs"][fi]["ret"], exp, got[(fi, j)]):
                return ("wrong", fi, j, exp, got[(fi, j)])
    if res["status"] == "crash":
        fi, j = last_call if last_call else (-1, -1)
        if last_call and res["rc"] == -26:      # SIGVTALRM: CPU-time limit of the native call
            return ("timeout", stage, fi, j)
        return ("crash", stage, fi, j, res["rc"])
    if res["status"] == "timeout":
        fi, j = last_call if last_call else (-1, -1)
        return ("timeout", stage, fi, j)
    for ev in evs:
        if ev["ev"] == "nofunc":
            return ("reject", "jit", f"function {plan['funcs'][ev['f']]['name']} not found in JIT module")
    return None


def _desc(o: dict) -> dict:
    k = o["k"]
    d = {"op": OPNAME.get(o.get("op", k), "llvm." + str(o.get("op", k)))}
    if k in ("icmp", "fcmp"):
        d = {"op": "llvm." + k, "pred": o["p"]}
    if k == "select":
        d = {"op": "llvm.select"}
    if o.get("flags") or o.get("fm"):
        d["flag"] = ",".join(o.get("flags") or o.get("fm"))
    return d


def _probe_plan(o: dict, in_tys: list, samples: list) -> dict:
    n = len(in_tys)
    inst = dict(o)
    names = {"bin": ("a", "b"), "icmp": ("a", "b"), "fbin": ("a", "b"), "fcmp": ("a", "b"),
             "cast": ("a",), "select": ("c", "a", "b"), "fun1": ("a",), "fun2": ("a", "b"),
             "const": ()}[o["k"]]
    for i, nm in enumerate(names):
        inst[nm] = i
    inst["res"] = n
    vt = {i: t for i, t in enumerate(in_tys)}
    vt[n] = o["ty"]
    f = {"name": "f0", "args": list(in_tys), "ret": o["ty"], "layout": [0], "vtypes": vt, "cc": "ccc",
         "reach": [True], "blocks": [{"params": list(range(n)), "ops": [inst],
                                      "term": {"k": "ret", "v": n}}]}
    return {"funcs": [f], "inputs": [], "opt": 0, "text": False, "_samples": samples}


_FLAG_RE = re.compile(r"= (add|sub|mul|shl|udiv|sdiv|lshr|ashr|or|trunc|zext|fadd|fsub|fmul|fdiv|frem)"
                      r"((?: (?:nsw|nuw|exact|disjoint|nneg|nnan|ninf))*) ")


def _flag_audit(plan: dict, ir: str) -> dict | None:
    """Attribution aid (only used after a semantic mismatch): an instruction kind whose emitted
    flag sets differ from the source ops' flag sets."""
    want: dict[tuple, int] = {}
    for f in plan["funcs"]:
        for b in f["blocks"]:
            for o in b["ops"]:
                if o["k"] in ("bin", "fbin", "cast") and o["op"] in _FLAG_RE.pattern:
                    key = (o["op"], " ".join(sorted(o.get("flags") or o.get("fm") or [])))
                    want[key] = want.get(key, 0) + 1
    got: dict[tuple, int] = {}
    for m in _FLAG_RE.finditer(ir):
        key = (m.group(1), " ".join(sorted(m.group(2).split())))
        got[key] = got.get(key, 0) + 1
    for key in sorted(got):
        if got[key] > want.get(key, 0) and key[1]:
            return {"op": "llvm." + key[0], "flag": "emitted:" + key[1].replace(" ", ",")}
    return None


def _localize(plan: dict, fi: int, bits: list, ir: str = "") -> dict:
    """Which single operation, run in isolation on the operand values it saw, is mistranslated?"""
    f = plan["funcs"][fi]
    ev = Eval(plan)
    ev.trace = []
    try:
        ev.call(fi, [bits_to_val(t, x) for t, x in zip(f["args"], bits)])
    except (Undefined, StepLimit):
        pass
    groups: dict[str, tuple] = {}
    for o, ins, r in ev.trace:
        if r is POISON or any(i is POISON for i in ins) or (o["k"] == "cast" and o["op"] == "bitcast"
                                                            and isnan(ins[0])):
            continue
        d = {kk: vv for kk, vv in o.items() if kk not in ("a", "b", "c", "res")}
        key = json.dumps(d, sort_keys=True)
        nm = {"bin": ("a", "b"), "icmp": ("a", "b"), "fbin": ("a", "b"), "fcmp": ("a", "b"),
              "cast": ("a",), "select": ("c", "a", "b"), "fun1": ("a",), "fun2": ("a", "b"),
              "const": ()}[o["k"]]
        # operand types
        in_tys = []
        for x in nm:
            if o["k"] in ("icmp", "fcmp", "cast"):
                in_tys.append(o["ot"])
            elif x == "c":
                in_tys.append("i1")
            else:
                in_tys.append(o["ty"])
        g = groups.setdefault(key, (o, in_tys, []))
        sample = [val_to_bits(t, v) for t, v in zip(in_tys, ins)]
        if sample not in g[2] and len(g[2]) < 4:
            g[2].append(sample)
    for key in sorted(groups):
        o, in_tys, samples = groups[key]
        pp = _probe_plan(o, in_tys, samples)
        pf = pp["funcs"][0]
        rows = []
        for s in samples:
            try:
                r = Eval(pp).call(0, [bits_to_val(t, x) for t, x in zip(in_tys, s)])
            except (Undefined, StepLimit):
                continue
            if r is not POISON:
                rows.append((s, val_to_bits(pf["ret"], r)))
        if not rows:
            continue
        try:
            m = to_xdsl(pp)
            m.verify()
        except Exception:
            continue
        st_, pir = _translate(m)
        if st_ != "ok":
            continue
        for opt in (0, 1):
            v = _compare(pp, [rows], _native(pp, pir, [rows], opt))
            if v is not None and v[0] in ("wrong", "crash"):
                return _desc(o)
    audit = _flag_audit(plan, ir) if ir else None
    if audit:
        return audit
    for g in plan["funcs"]:
        if ir and g["cc"] != "ccc" and not re.search(
                r'^define (?:\w+ )*' + g["cc"] + r' [^@]*@"?' + g["name"] + r'"?\(', ir, re.M) \
                and re.search(r"call " + g["cc"] + r' [^@]*@"?' + g["name"] + r'"?\(', ir):
            return {"op": "llvm.func", "cconv": g["cc"], "flag": "cconv_on_call_but_not_on_define"}
    reachable = set()
    todo = [fi]
    while todo:
        x = todo.pop()
        if x in reachable:
            continue
        reachable.add(x)
        for b in plan["funcs"][x]["blocks"]:
            todo.extend(o["fn"] for o in b["ops"] if o["k"] == "call")
    fs = [plan["funcs"][x] for x in sorted(reachable)]
    if any(len(g["blocks"]) > 1 for g in fs):
        return {"op": "cfg"}
    if any(o["k"] in ("alloca", "gep", "load", "store") for g in fs for b in g["blocks"] for o in b["ops"]):
        return {"op": "memory"}
    if len(fs) > 1:
        return {"op": "llvm.call"}
    return {"op": "unknown"}


def oracle(h, recipe, label: str | None = None) -> None:
    plan = normalize(recipe)
    ft = features(plan)
    module = to_xdsl(plan)
    module.verify()          # a failure here is a generator bug -> harness error
    text = None
    if plan["text"]:
        text, module = roundtrip(module)
        module.verify()
    nontrivial = ft["phi"] or ft["flag"] or ft["cast"]
    h.case(recipe, nontrivial, label=label or ("multi_block" if ft["multi_block"] else "single_block"),
           distinct=label == "unit")
    for k_, v_ in ft.items():
        if k_ != "_kinds" and v_:
            h.count("feat:" + k_)
    for k_ in sorted(ft["_kinds"]):
        h.count("op:" + k_)
    h.count("functions", len(plan["funcs"]))
    h.count("mode:opt" if plan["opt"] else "mode:noopt")
    if plan["text"]:
        h.count("mode:reparsed")

    status, out = _translate(module)
    if status == "unsupported":
        h.discard("not_translated:" + type(out).__name__)
        return
    if status == "crash":
        sig, detail = _crash_sig(out)
        cx = contexts(plan)
        if sig.get("cause") == "operand_not_converted_yet":
            sig["ctx"] = "def_after_use_in_layout" if cx["def_after_use_in_layout"] else "none"
        elif sig.get("where") == "convert_op.py:_convert_store":
            sig["ctx"] = "array_typed_pointer_store" if cx["array_typed_pointer_store"] else "none"
        elif sig.get("where", "").endswith("_intrinsic") and sig["exc"] == "TypeError":
            sig["ctx"] = "intrinsic_at_two_types" if cx["intrinsic_at_two_types"] else "none"
        if sig.get("op") == "llvm.fcmp":
            ps = sorted({o["p"] for f in plan["funcs"] for b in f["blocks"] for o in b["ops"]
                         if o["k"] == "fcmp" and o["p"].startswith("_")})
            if ps:
                sig["pred"] = ps[0]
        h.count("translate_crash")
        h.mismatch(sig, recipe, f"convert_module raised on a verified module:\n{detail}\nmodule:\n"
                   + (text or str(module))[:2500])
        return
    ir = out
    per, stats = _expected(plan)
    for k_, v_ in stats.items():
        if v_:
            h.count("inputs:" + k_, v_)
    if stats["steplimit"]:
        h.inconclusive("reference_step_limit", stats["steplimit"])
    res = _native(plan, ir, per, plan["opt"], retry=not getattr(h, "_shrinking", False))
    if res["status"] == "timeout":
        # wall-clock backstop only (machine load / a hang inside LLVM itself): never a verdict.
        # Native calls that do not terminate are caught by the CPU-time limit in the child.
        h.inconclusive("worker_wallclock_timeout")
        return
    v = _compare(plan, per, res)
    if v is not None and v[0] != "reject":
        _WORKER.stop()       # never reuse a child that ran miscompiled code
    if v is None:
        h.count("native_calls", sum(len(r) for r in per))
        if any(per):
            h.count("modules_executed")
        return
    if v[0] == "reject":
        cls, opc = _clean_llvm_msg(v[2], ir)
        sig = {"check": "llvm_verify", "stage": v[1], "msg": cls, "op": opc}
        if cls.startswith("PHI node has multiple entries"):
            sig["ctx"] = ("cond_br_same_block_diff_args"
                          if contexts(plan)["cond_br_same_block_diff_args"] else "none")
        h.mismatch(sig, recipe,
                   f"LLVM rejects the emitted IR ({v[1]}): {v[2][:800]}\n--- IR ---\n{ir[:3000]}")
        return
    if v[0] in ("crash", "timeout") and v[2] < 0:
        # the child died / hung before any call: LLVM itself failed on accepted IR
        tail = res["stderr"].strip().splitlines()
        msg = re.sub(r"\d+", "N", tail[0])[:120] if tail else ""
        h.mismatch({"check": "llvm_verify", "stage": v[1], "msg": f"child {v[0]} in {v[1]}: {msg}",
                    "op": "?"}, recipe,
                   f"worker {v[0]} (rc={res['rc']}) in stage {v[1]}; stderr: {res['stderr'][-600:]}\n"
                   f"--- IR ---\n{ir[:3000]}")
        return
    fi, j = (v[1], v[2]) if v[0] == "wrong" else (v[2], v[3])
    f = plan["funcs"][fi]
    bits = per[fi][j][0]
    culprit = _localize(plan, fi, bits, ir)
    sig = {"check": "result", **culprit}
    args_s = ", ".join(_show(t, x) for t, x in zip(f["args"], bits))
    if v[0] == "wrong":
        detail = (f"@{f['name']}({args_s}) -> native {_show(f['ret'], v[4])}, reference "
                  f"{_show(f['ret'], v[3])} (opt={plan['opt']})")
    else:
        sig["exc"] = "timeout" if v[0] == "timeout" else f"signal {-(res['rc'] or 0)}"
        detail = (f"@{f['name']}({args_s}): native call {v[0]} (rc={res['rc']}), reference "
                  f"{_show(f['ret'], per[fi][j][1])}; stderr: {res['stderr'][-300:]}")
    h.mismatch(sig, recipe, detail + "\n--- module ---\n" + (text or str(module))[:2500]
               + "\n--- IR ---\n" + ir[:2500])


# =============================================================================================
# generator
def gen_raw(rng: random.Random) -> int:
    c = rng.random()
    if c < .35:
        return rng.randrange(0, 9)
    if c < .47:
        return rng.randrange(0, 32)
    if c < .75:
        k = rng.choice((7, 8, 15, 16, 31, 32, 63, 64))
        return ((1 << k) + rng.choice((-2, -1, 0, 1))) & M64
    return rng.getrandbits(64)


_TYW = (("i32", 28), ("i64", 14), ("i8", 12), ("i16", 8), ("i1", 10), ("f32", 14), ("f64", 14))


def _wchoice(rng: random.Random, pairs):
    tot = sum(w for _, w in pairs)
    x = rng.random() * tot
    for v, w in pairs:
        x -= w
        if x < 0:
            return v
    return pairs[-1][0]


def gen_op(rng: random.Random, seen: list) -> dict:
    def ty(allowed):
        c = [t for t in seen if t in allowed]
        if c and rng.random() < .85:
            return rng.choice(c)
        return _wchoice(rng, [p for p in _TYW if p[0] in allowed])

    def ref():
        return rng.randrange(0, 12)

    kind = _wchoice(rng, (("bin", 30), ("icmp", 10), ("fbin", 8), ("fcmp", 6), ("cast", 15),
                          ("select", 6), ("const", 5), ("fun1", 3), ("fun2", 1), ("mem", 10),
                          ("call", 6), ("idiom", 8)))
    if kind == "idiom":
        i = rng.randrange(0, 15)
        if i == 14:
            t = ty(FLOAT_T)
            seen.append("i1")
        elif i in (11, 12):
            t = ty(("i16", "i32", "i64"))
            seen.append(t)
        elif i == 13:
            t = ty(("i8", "i16", "i32"))
            seen.append("i1")
        else:
            t = ty(("i8", "i16", "i32", "i64"))
            seen.append("i1" if i < 3 else t)
        return {"k": "idiom", "id": i, "t": t, "a": ref(), "b": ref(), "f": rng.randrange(0, 4)}
    if kind == "bin":
        t = ty(tuple(INT_W))
        op = rng.choice(INT_BIN)
        o = {"k": "bin", "op": op, "t": t, "a": ref(), "b": ref(),
             "f": rng.randrange(1, 4) if rng.random() < .3 else 0}
        r = rng.random()
        if op in ("shl", "lshr", "ashr") and r < .7:
            o["bc"] = rng.randrange(0, INT_W[t])
        elif op in ("udiv", "sdiv", "urem", "srem") and r < .5:
            o["bc"] = rng.choice((1, 2, 3, 7, 10, (1 << INT_W[t]) - 1, (1 << INT_W[t]) - 2))
        elif r < .15:
            o["bc"] = gen_raw(rng)
        seen.append(t)
        return o
    if kind == "icmp":
        t = ty(tuple(INT_W))
        o = {"k": "icmp", "p": rng.choice(ICMP), "t": t, "a": ref(), "b": ref()}
        if rng.random() < .25:
            o["bc"] = gen_raw(rng)
        seen.append("i1")
        return o
    if kind == "fbin":
        t = ty(FLOAT_T)
        o = {"k": "fbin", "op": rng.choice(FBIN), "t": t, "a": ref(), "b": ref(),
             "f": rng.randrange(1, 4) if rng.random() < .2 else 0}
        if rng.random() < .2:
            o["bc"] = gen_raw(rng)
        seen.append(t)
        return o
    if kind == "fcmp":
        t = ty(FLOAT_T)
        p = rng.choice(FCMP[1:-1]) if rng.random() < .97 else rng.choice(("_false", "_true"))
        seen.append("i1")
        return {"k": "fcmp", "p": p, "t": t, "a": ref(), "b": ref()}
    if kind == "cast":
        for _ in range(20):
            op = rng.choice(CASTS)
            src = ty(SCALARS)
            dsts = [d for d in SCALARS if cast_ok(op, src, d)]
            if dsts:
                d = rng.choice(dsts)
                seen.append(d)
                return {"k": "cast", "op": op, "t": src, "to": d, "a": ref(),
                        "f": rng.randrange(1, 4) if rng.random() < .3 else 0}
        return {"k": "cast", "op": "zext", "t": "i1", "to": "i32", "a": ref(), "f": 0}
    if kind == "select":
        t = ty(SCALARS)
        seen.append(t)
        return {"k": "select", "t": t, "c": ref(), "a": ref(), "b": ref()}
    if kind == "const":
        t = ty(SCALARS)
        seen.append(t)
        return {"k": "const", "t": t, "v": gen_raw(rng), "form": rng.choice((0, 0, 1, 2))}
    if kind == "fun1":
        t = ty(FLOAT_T)
        seen.append(t)
        return {"k": "fun1", "op": rng.choice(FUN1), "t": t, "a": ref()}
    if kind == "fun2":
        t = ty(FLOAT_T)
        seen.append(t)
        return {"k": "fun2", "op": "copysign", "t": t, "a": ref(), "b": ref()}
    if kind == "call":
        return {"k": "call", "fn": rng.randrange(0, 3), "args": [ref() for _ in range(4)]}
    sub = _wchoice(rng, (("alloca", 15), ("gep", 25), ("store", 32), ("load", 28)))
    if sub == "alloca" or "ptr" not in seen:
        t = ty(SCALARS)
        seen.append("ptr")
        return {"k": "alloca", "t": t, "n": rng.randrange(0, 3), "arr": int(rng.random() < .15),
                "c64": int(rng.random() < .3)}
    if sub == "gep":
        return {"k": "gep", "p": ref(), "dyn": int(rng.random() < .5), "i": ref(),
                "it": rng.choice(("i32", "i32", "i64", "i8", "i16")), "inb": int(rng.random() < .5)}
    if sub == "store":
        return {"k": "store", "p": ref(), "v": ref()}
    return {"k": "load", "p": ref()}


def gen_func(rng: random.Random) -> dict:
    args = [_wchoice(rng, _TYW) for _ in range(rng.randrange(1, 5))]
    seen = list(args)
    nb = _wchoice(rng, ((1, 30), (2, 15), (3, 22), (4, 16), (5, 11), (6, 6)))
    blocks = []
    for b in range(nb):
        params = []
        if b and rng.random() < .7:
            params = [_wchoice(rng, _TYW) if rng.random() < .3 else rng.choice([x for x in seen if x != "ptr"])
                      for _ in range(rng.randrange(1, 3))]
            seen.extend(params)
        ops = [gen_op(rng, seen) for _ in range(rng.randrange(1, 7))]
        k = _wchoice(rng, (("br", 33), ("cbr", 47), ("ret", 5), ("latch", 15 if b else 0)))
        eargs = [[rng.randrange(0, 12) for _ in range(3)] for _ in range(2)]
        if k == "br":
            t = {"k": "br", "to": rng.choice((0, 0, 0, 0, 0, 0, 0, 0, 1, 2)), "args": eargs[:1]}
        elif k == "cbr":
            if rng.random() < .12:
                x = rng.randrange(0, 3)
                t = {"k": "cbr", "c": rng.randrange(0, 12), "to": [x, x], "args": eargs,
                     "diff": int(rng.random() < .4)}
            else:
                t = {"k": "cbr", "c": rng.randrange(0, 12), "to": [rng.choice((0, 0, 0, 0, 0, 0, 1)),
                                                                  rng.choice((0, 1, 1, 1, 2))], "args": eargs}
        elif k == "latch":
            t = {"k": "latch", "head": rng.randrange(0, 4), "to": rng.randrange(0, 3),
                 "trip": rng.randrange(0, 4), "args": eargs, "swap": int(rng.random() < .4)}
            if rng.random() < .4:
                t["c"] = rng.randrange(0, 12)
        else:
            t = {"k": "ret", "v": rng.randrange(0, 12)}
        blocks.append({"params": params, "ops": ops, "term": t})
    blocks[-1]["term"] = {"k": "ret", "v": rng.randrange(0, 12)}
    produced = [t for t in seen[len(args):] if t != "ptr"]
    ret = rng.choice(produced) if produced and rng.random() < .85 else _wchoice(rng, _TYW)
    if nb >= 2 and rng.random() < .15:
        # merge-block family: cond_br with both edges to the last block, 2-4 block arguments of one
        # type, operand lists drawn with repetition from a pool of 3 on each edge independently;
        # the merge block folds all its arguments (asymmetric sub chain) into the return value
        t = _wchoice(rng, [p for p in _TYW if p[0] != "i1"])
        args = ([t, t, t] + args)[:5]
        if "i1" not in args:
            args.append("i1")
        k = rng.randrange(2, 5)
        sub = {"k": "fbin", "op": "fsub", "f": 0} if t in FLOAT_T else {"k": "bin", "op": "sub", "f": 0}
        chain = [dict(sub, t=t, a=-1, b=-(2 * j + 2)) for j in range(k - 1)]
        blocks[-1] = {"params": [t] * k, "ops": chain, "term": {"k": "ret", "v": -1}}
        blocks[-2]["term"] = {"k": "cbr", "c": 0, "to": [0, 0], "diff": 1,
                              "args": [[rng.randrange(0, 3) for _ in range(k)] for _ in range(2)]}
        ret = t
    layout = []
    if nb > 2 and rng.random() < .3:
        layout = [rng.randrange(0, 6) for _ in range(nb - 1)]
    return {"args": args, "ret": ret, "blocks": blocks, "layout": layout}


def gen_recipe(seed: int) -> dict:
    rng = random.Random(seed)
    nf = _wchoice(rng, ((1, 50), (2, 33), (3, 17)))
    return {"kind": "prog", "opt": int(rng.random() < .5), "text": int(rng.random() < .3),
            "funcs": [dict(gen_func(rng), cc="fastcc" if i and rng.random() < .15 else "ccc")
                      for i in range(nf)],
            "inputs": [[gen_raw(rng) for _ in range(4)] for _ in range(6)]}


# =============================================================================================
# deterministic enumeration: every op kind x type x flag set as a one-op function, every idiom
def _edge_inputs(t: str) -> list:
    if t in FLOAT_T:
        vals = [0, 1, 2, 5, 22, 20, 21, 23, 25, 7, 8, 27, 24, 3, 30, 12]     # indices into _FT
    else:
        w = INT_W[t]
        m = (1 << w) - 1
        vals = [0, 1, 2, 3, 4, 5, (m >> 1), (m >> 1) + 1, (m >> 1) + 2, m, m - 1, (1 << max(w - 2, 0)),
                (1 << max(w - 2, 0)) + 5, 0x5555555555555555 & m, 0xAAAAAAAAAAAAAAAA & m, 7]
    n = len(vals)
    return [[vals[i], vals[(i * 3 + 1) % n], i & 1, vals[(i * 5 + 2) % n]] for i in range(n)]


def unit_recipes() -> list:
    out = []

    def add(args, ret, op, opts=(0, 1)):
        for opt in opts:
            out.append({"kind": "prog", "opt": opt, "text": 0, "inputs": _edge_inputs(args[0]),
                        "funcs": [{"args": list(args), "ret": ret, "layout": [],
                                   "blocks": [{"params": [], "ops": [op], "term": {"k": "ret", "v": -1}}]}]})

    ints = tuple(INT_W)
    for op in INT_BIN:
        nfl = 4 if op in BIN_OVF else 2 if op in BIN_EXACT + ("or",) else 1
        for t in ints:
            for f in range(nfl):
                add([t, t], t, {"k": "bin", "op": op, "t": t, "a": 0, "b": 1, "f": f})
    for p in ICMP:
        for t in ints:
            add([t, t], "i1", {"k": "icmp", "p": p, "t": t, "a": 0, "b": 1})
    for p in FCMP:
        for t in FLOAT_T:
            add([t, t], "i1", {"k": "fcmp", "p": p, "t": t, "a": 0, "b": 1})
    for op in FBIN:
        for t in FLOAT_T:
            for f in range(4):
                add([t, t], t, {"k": "fbin", "op": op, "t": t, "a": 0, "b": 1, "f": f})
    for op in CASTS:
        for src in SCALARS:
            for dst in SCALARS:
                if cast_ok(op, src, dst):
                    for f in range(4 if op == "trunc" else 2 if op == "zext" else 1):
                        add([src], dst, {"k": "cast", "op": op, "t": src, "to": dst, "a": 0, "f": f})
    for t in SCALARS:
        add([t, t, "i1"], t, {"k": "select", "t": t, "c": 0, "a": 0, "b": 1})
    for op in FUN1:
        for t in FLOAT_T:
            add([t], t, {"k": "fun1", "op": op, "t": t, "a": 0})
    for t in FLOAT_T:
        add([t, t], t, {"k": "fun2", "op": "copysign", "t": t, "a": 0, "b": 1})
    for i in range(15):
        ts = FLOAT_T if i == 14 else ("i16", "i32", "i64") if i in (11, 12) else \
            ("i8", "i16", "i32") if i == 13 else ("i8", "i16", "i32", "i64")
        for t in ts:
            for f in range(4):
                ret = "i1" if i in (0, 1, 2, 13, 14) else t
                add([t, t], ret, {"k": "idiom", "id": i, "t": t, "a": 0, "b": 1, "f": f}, opts=(1,))
    out.extend(same_target_recipes())
    return out


def same_target_recipes() -> list:
    """cond_br with both edges to one block and n=2..3 block arguments: every assignment of the
    arguments over a pool of 3 values on each edge independently (with repetition); both condition
    values are executed.  The merge block returns 3*p0 + 5*p1 (+ 7*p2), so every wrongly forwarded
    argument changes the result."""
    import itertools
    out = []
    rows = [[1, 10, 100, 1], [1, 10, 100, 0], [7, 2, 5, 0], [7, 2, 5, 1]]
    for n in (2, 3):
        ops = [{"k": "bin", "op": "mul", "t": "i32", "a": 3 + j, "bc": (3, 5, 7)[j], "f": 0}
               for j in range(n)]
        # values of type i32 at the end of the block: .., k3, m0, k5, m1[, k7, m2]
        ops.append({"k": "bin", "op": "add", "t": "i32", "a": -1, "b": -3, "f": 0})
        if n == 3:
            ops.append({"k": "bin", "op": "add", "t": "i32", "a": -1, "b": -6, "f": 0})
        for i, (ta, ea) in enumerate(itertools.product(itertools.product(range(3), repeat=n), repeat=2)):
            out.append({"kind": "prog", "opt": i & 1, "text": 0, "inputs": rows, "funcs": [{
                "args": ["i32", "i32", "i32", "i1"], "ret": "i32", "layout": [], "blocks": [
                    {"params": [], "ops": [],
                     "term": {"k": "cbr", "c": 0, "to": [0, 0], "diff": 1, "args": [list(ta), list(ea)]}},
                    {"params": ["i32"] * n, "ops": ops, "term": {"k": "ret", "v": -1}}]}]})
    return out


def checks(h) -> None:
    n = h.scale(600, 10000)
    strat = st.integers(min_value=0, max_value=(1 << 62)).map(gen_recipe)
    try:
        for i, r in enumerate(unit_recipes()):
            if i % h.nshards == h.shard:
                oracle(h, r, label="unit")
                h.sub_checks["unit"] += 1
        h.hyp("prog", strat, lambda r: oracle(h, r), max_examples=n, shrink_budget_s=40.0)
    finally:
        _WORKER.stop()


def replay(h, recipe) -> None:
    try:
        oracle(h, recipe)
    finally:
        _WORKER.stop()
