"""C17 — Every registered pass that succeeds leaves valid, printable IR.

Recipe: {"pass": name, "file": relpath, "idx": chunk index, "opt": int}   (opt selects an element of
the pass's schedule_space when it has one; 0 = default construction)
       | {"pass": name, "mod": <irgen recipe>}
Any exception raised by the pass is a reported failure (allowed).  After a successful pass:
verify() passes, no erased value is used, C01's structural invariants hold, successors stay in the
same region, and the generic print parses back to equivalent IR (C04 oracle).
"""
from __future__ import annotations

import re
import signal

from hypothesis import strategies as st

from vt import canon as C
from vt import corpus, invariants, irgen
from vt.props.C04 import exc_site, parse_fresh, print_generic
from vt.run import quiet

ID = "C17"
SHARDS = {"quick": 16, "thorough": 16}
RULE = ("cross product of all registered passes (default-constructible options, plus each pass's "
        "schedule_space) with verifying chunks of the .mlir corpus (quick: a fixed stratified "
        "sample, every pass x 24 modules, half of them from the pass's own test inputs; thorough: the full cross product) and irgen modules; a pass "
        "that raises reported failure (counted); a pass exceeding 20 s is inconclusive. Oracle after a "
        "successful pass: module.verify(), no ErasedSSAValue operand, structural/use-def invariants, "
        "successors in the same region, generic print -> parse -> canonical form equal. Non-trivial: the "
        "pass changed the module's canonical form.")
ASSUMPTIONS = ["vt.canon / vt.invariants are correct", "pass exceptions of any type count as reported failure"]

TIMEOUT_S = 10


class _Timeout(BaseException):
    pass


def _alarm(signum, frame):
    raise _Timeout()


_state: dict = {}


def passes():
    if "passes" not in _state:
        from xdsl.transforms import get_all_passes
        _state["passes"] = get_all_passes()
    return _state["passes"]


def instantiate(name, module, opt):
    """Returns a pass instance or None (needs options we cannot supply)."""
    cls = passes()[name]()
    inst = None
    try:
        inst = cls()
    except TypeError:
        inst = None
    if opt:
        try:
            with quiet():
                space = cls.schedule_space(corpus.make_ctx(), module)
        except Exception:
            space = ()
        if space:
            return space[(opt - 1) % len(space)]
    return inst


def msg_class(e) -> str:
    s = str(e).strip().split("\n")[-1] if str(e).strip() else type(e).__name__
    s = re.sub(r"[\"'`][^\"'`]*[\"'`]", "Q", s)
    s = re.sub(r"[!#%@^][\w.$<>\[\],: x-]*", "V", s)
    s = re.sub(r"\d+", "N", s)
    return s[:70]


def first_failing_op(module):
    for o in module.walk():
        try:
            o.verify(verify_nested_ops=False)
        except Exception as e:
            return o.name, e
    return "<structure>", None


def oracle(h, r, module, pname, input_roundtrips=True):
    from xdsl.ir import ErasedSSAValue
    from xdsl.utils.exceptions import ParseError
    # 1. verification
    try:
        module.verify()
    except Exception as e:
        opn, e2 = first_failing_op(module)
        h.mismatch({"check": "verify_fails", "op": opn, "msg": msg_class(e2 or e), "pass": pname}, r,
                   f"after {pname}: {str(e)[-600:]}")
        return
    # 2. erased values / dangling successors / parent links
    for o in module.walk():
        for v in o.operands:
            if isinstance(v, ErasedSSAValue):
                h.mismatch({"check": "erased_value_in_use", "op": o.name, "pass": pname}, r, f"{o.name} uses an erased value")
                return
        for s in o.successors:
            if s.parent is None or o.parent is None or s.parent is not o.parent.parent:
                h.mismatch({"check": "dangling_successor", "op": o.name, "pass": pname}, r,
                           f"{o.name} has a successor outside its region")
                return
    # ops that a pass created or detached and merely dropped (still holding operands) show up as
    # "use by an op outside the module"; the property does not forbid leaking such ops, so that code is
    # not reported here (C01 tracks detached ops explicitly instead)
    errs = [e for e in invariants.check([module]) if e[0] != "use_by_unknown_op"]
    if errs:
        h.mismatch({"check": "invariant", "code": errs[0][0], "pass": pname}, r, str(errs[:3]))
        return
    # 3. printed form parses back (only claimed when the input module itself round-trips; an input
    #    that does not is C04's finding and says nothing about the pass)
    if not input_roundtrips:
        h.discard("input_generic_roundtrip_fails(C04)")
        return
    try:
        text = print_generic(module)
    except Exception as e:
        h.mismatch({"check": "print_raises", "exc": type(e).__name__, "site": exc_site(e), "pass": pname}, r, repr(e)[:400])
        return
    try:
        m2 = parse_fresh(text)
    except Exception as e:
        h.mismatch({"check": "reparse_fails", "exc": type(e).__name__, "site": exc_site(e), "msg": msg_class(e),
                    "pass": pname}, r, str(e)[:600])
        return
    c1, c2 = C.canon(module, normalize=True), C.canon(m2, normalize=True)
    if c1 != c2:
        h.mismatch({"check": "reparsed_not_equivalent", "what": C.op_diff(c1, c2), "pass": pname}, r,
                   C.first_diff(c1, c2))


def run(h, r):
    pname = r["pass"]
    if pname not in passes():
        h.discard("unknown_pass")
        return
    if "mod" in r:
        module = irgen.build(r["mod"]).module
        label = "gen"
    else:
        module = None
        for rel, idx, text in corpus.chunks():
            if rel == r["file"] and idx == r["idx"]:
                module = corpus.parse_chunk(text)
        if module is None:
            h.discard("chunk_rejected")
            return
        label = "corpus"
    try:
        inst = instantiate(pname, module, r.get("opt", 0))
    except Exception as e:
        h.discard("pass_construction_failed")
        return
    if inst is None:
        h.discard("pass_needs_options")
        return
    before = C.canon(module)
    key = (r.get("file"), r.get("idx")) if "mod" not in r else None
    if key is None:
        input_rt = True
    elif key in _state.setdefault("rt", {}):
        input_rt = _state["rt"][key]
    else:
        try:
            input_rt = C.canon(parse_fresh(print_generic(module)), normalize=True) == C.canon(module, normalize=True)
        except Exception:
            input_rt = False
        _state["rt"][key] = input_rt
    signal.signal(signal.SIGALRM, _alarm)
    signal.setitimer(signal.ITIMER_REAL, TIMEOUT_S)
    try:
        with quiet():
            inst.apply(corpus.make_ctx(), module)
    except _Timeout:
        h.inconclusive("pass_timeout")
        h.case(r, False, label=label + "_timeout")
        return
    except Exception as e:
        h.count("pass_reported_failure")
        h.case(r, False, label=label + "_failed")
        return
    except BaseException as e:  # SystemExit etc. raised by a pass: still a reported failure
        if isinstance(e, (KeyboardInterrupt, MemoryError)):
            raise
        h.count("pass_reported_failure")
        h.case(r, False, label=label + "_failed")
        return
    finally:
        signal.setitimer(signal.ITIMER_REAL, 0)
    try:
        changed = C.canon(module) != before
    except Exception:
        changed = True
    h.case(r, changed, label=label, sample={k: r[k] for k in r if k != "mod"})
    h.count("pass_ok:" + pname)
    oracle(h, r, module, pname, input_rt)


def replay(h, recipe):
    run(h, recipe)


def checks(h):
    names = sorted(passes())
    ch = corpus.chunks()
    keys = [(rel, idx) for rel, idx, _ in ch]
    jobs = []
    if h.quick:
        # a FIXED stratified sample (every pass x 24 chunks), deliberately independent of the seed: the
        # cross product contains many latent findings, and the known-findings list can only be complete
        # for an enumerated set; the seed drives the generated (irgen) modules below.  Half of each
        # pass's sample is taken from the corpus files whose path mentions the pass (its own filecheck
        # inputs: the modules it actually rewrites), the rest is spread over the whole corpus.
        for pi, p in enumerate(names):
            toks = [t for t in p.replace("_", "-").split("-") if len(t) >= 3 and t not in ("convert", "test", "lower", "the")]
            fn = p.replace("-", "_")
            own = [k for k in keys if fn in k[0].replace("-", "_") or p in k[0]]
            rel_ = [k for k in keys if k not in own and toks and all(t in k[0] for t in toks[:2])]
            pref = own + rel_
            chosen = []
            if pref:
                stepn = max(1, len(pref) // 12)
                chosen = pref[::stepn][:12]
            j = 0
            while len(chosen) < 24:
                k = keys[(pi * 7919 + j * 104729) % len(keys)]
                j += 1
                if k not in chosen:
                    chosen.append(k)
            for j, k in enumerate(chosen):
                jobs.append((p, k, (j % 3 == 2) * 1))
    else:
        for p in names:
            for k in keys:
                jobs.append((p, k, 0))
            for j in range(40):
                jobs.append((p, keys[(j * 104729) % len(keys)], 1 + j))
    for i, (p, (rel, idx), opt) in enumerate(jobs):
        if i % h.nshards != h.shard:
            continue
        run(h, {"pass": p, "file": rel, "idx": idx, "opt": opt})
    s_gen = st.fixed_dictionaries({"pass": st.sampled_from(names),
                                   "mod": irgen.module_recipes(depth=2, max_ops=3, max_blocks=3)})
    h.hyp("gen", s_gen, lambda r: run(h, r), h.scale(30, 500), 1)
